package c19

import (
	"github.com/openconfig/gribigo/compliance"

	"context"
	"io"
	"sync"
	"time"

	"github.com/openconfig/gribigo/server"
	"google.golang.org/grpc/status"
	"google.golang.org/protobuf/proto"

	spb "github.com/openconfig/gribi/v1/proto/service"
)

// proxy wraps the reference server and rewrites traffic; one proxy = one broken requirement.
type proxy struct {
	spb.UnimplementedGRIBIServer
	inner *server.Server
	// onReq may rewrite a request (nil result = drop it; answer != nil = answer directly, do not forward).
	onReq func(st *sessState, in *spb.ModifyRequest) (fwd *spb.ModifyRequest, answer *spb.ModifyResponse)
	// onResp may rewrite a response (nil = swallow it).
	onResp func(st *sessState, out *spb.ModifyResponse) *spb.ModifyResponse
	onGet  func(resps []*spb.GetResponse) []*spb.GetResponse
	// onFlush may rewrite the request or answer directly.
	onFlush func(in *spb.FlushRequest) (*spb.FlushRequest, *spb.FlushResponse)

	// onFlushDone may rewrite the outcome of a Flush.
	onFlushDone func(in *spb.FlushRequest, resp *spb.FlushResponse, err error) (*spb.FlushResponse, error)

	// onErr may rewrite the status a Modify RPC ends with.
	onErr func(error) error
	// eofDelay: the server learns of a client's half-close this much later (a conformant
	// server that is slow to tear a session down).
	eofDelay time.Duration

	mu       sync.Mutex
	sessions []*sessState
}

type sessState struct {
	p       *proxy
	stream  spb.GRIBI_ModifyServer
	sendMu  sync.Mutex
	nReq    int
	sawPar  bool
	lastReq *spb.ModifyRequest
	ops     map[uint64]*spb.AFTOperation
}

type wrapStream struct {
	spb.GRIBI_ModifyServer
	st *sessState
}

func (w *wrapStream) Recv() (*spb.ModifyRequest, error) {
	for {
		in, err := w.GRIBI_ModifyServer.Recv()
		if err != nil {
			if err == io.EOF && w.st.p.eofDelay > 0 {
				// a server that takes its time to act on the client's half-close
				time.Sleep(w.st.p.eofDelay)
			}
			return nil, err
		}
		w.st.nReq++
		for _, o := range in.GetOperation() {
			w.st.ops[o.GetId()] = o
		}
		if w.st.p.onReq == nil {
			return in, nil
		}
		fwd, ans := w.st.p.onReq(w.st, proto.Clone(in).(*spb.ModifyRequest))
		if ans != nil {
			w.st.sendMu.Lock()
			w.GRIBI_ModifyServer.Send(ans)
			w.st.sendMu.Unlock()
		}
		if fwd != nil {
			return fwd, nil
		}
	}
}

func (w *wrapStream) Send(out *spb.ModifyResponse) error {
	if w.st.p.onResp != nil {
		out = w.st.p.onResp(w.st, proto.Clone(out).(*spb.ModifyResponse))
		if out == nil {
			return nil
		}
	}
	w.st.sendMu.Lock()
	defer w.st.sendMu.Unlock()
	return w.GRIBI_ModifyServer.Send(out)
}

func (p *proxy) Modify(ms spb.GRIBI_ModifyServer) error {
	st := &sessState{p: p, stream: ms, ops: map[uint64]*spb.AFTOperation{}}
	p.mu.Lock()
	p.sessions = append(p.sessions, st)
	p.mu.Unlock()
	defer func() {
		p.mu.Lock()
		for i, s := range p.sessions {
			if s == st {
				p.sessions = append(p.sessions[:i], p.sessions[i+1:]...)
				break
			}
		}
		p.mu.Unlock()
	}()
	err := p.inner.Modify(&wrapStream{GRIBI_ModifyServer: ms, st: st})
	if err != nil && p.onErr != nil {
		err = p.onErr(err)
	}
	return err
}

type getCollector struct {
	spb.GRIBI_GetServer
	got []*spb.GetResponse
}

func (g *getCollector) Send(r *spb.GetResponse) error { g.got = append(g.got, r); return nil }

func (p *proxy) Get(req *spb.GetRequest, stream spb.GRIBI_GetServer) error {
	if p.onGet == nil {
		return p.inner.Get(req, stream)
	}
	gc := &getCollector{GRIBI_GetServer: stream}
	if err := p.inner.Get(req, gc); err != nil {
		return err
	}
	for _, r := range p.onGet(gc.got) {
		if err := stream.Send(r); err != nil {
			return err
		}
	}
	return nil
}

func (p *proxy) Flush(ctx context.Context, req *spb.FlushRequest) (*spb.FlushResponse, error) {
	if p.onFlush != nil {
		nreq, ans := p.onFlush(proto.Clone(req).(*spb.FlushRequest))
		if ans != nil {
			return ans, nil
		}
		req = nreq
	}
	resp, err := p.inner.Flush(ctx, req)
	if p.onFlushDone != nil {
		return p.onFlushDone(req, resp, err)
	}
	return resp, err
}

// slowProxy is a conformant server that is slow: responses are delivered late and/or
// requests are handled late.
func slowProxy(in *server.Server, resp, req time.Duration) spb.GRIBIServer {
	p := &proxy{inner: in}
	if resp > 0 {
		p.onResp = func(st *sessState, out *spb.ModifyResponse) *spb.ModifyResponse {
			time.Sleep(resp)
			return out
		}
	}
	if req > 0 {
		p.onReq = func(st *sessState, in *spb.ModifyRequest) (*spb.ModifyRequest, *spb.ModifyResponse) {
			time.Sleep(req)
			return in, nil
		}
	}
	return p
}

type fault struct {
	name     string
	what     string
	wrap     func(inner *server.Server) spb.GRIBIServer
	expect   []string // compliance tests (ShortName) written for the broken requirement: must fail
	control  []string // unrelated tests that must still pass
	noFwdRef bool     // run the inner server with the opposite forward-reference mode than the test asks for
	slow     bool     // the tests wait for their one-minute convergence timeout: thorough tier only
	repeat   int      // the expected tests are randomised: run them up to this many times, one failing run flags the fault
	// expectIf, when set, replaces expect by every test of the suite it selects (the tests
	// written for the requirement are then found by their own declaration, not hand-picked);
	// shards > 1 spreads them over that many child processes.
	expectIf func(*compliance.TestSpec) bool
	shards   int
}

var ctlBasic = []string{"Modify RPC connection", "Add IPv4 entry that can be programmed on the server - with RIB ACK", "Get for installed NH - RIB ACK"}

func rewriteResults(f func(st *sessState, r *spb.AFTResult) *spb.AFTResult) func(*sessState, *spb.ModifyResponse) *spb.ModifyResponse {
	return func(st *sessState, out *spb.ModifyResponse) *spb.ModifyResponse {
		if len(out.GetResult()) == 0 {
			return out
		}
		var nr []*spb.AFTResult
		for _, r := range out.Result {
			if x := f(st, r); x != nil {
				nr = append(nr, x)
			}
		}
		out.Result = nr
		return out
	}
}

var faults = []fault{
	{
		name: "reports-announcers-election-id", what: "answers an election update with the announced id instead of the highest id it knows",
		wrap: func(in *server.Server) spb.GRIBIServer {
			p := &proxy{inner: in}
			p.onResp = func(st *sessState, out *spb.ModifyResponse) *spb.ModifyResponse {
				if out.GetElectionId() != nil && st.lastElec() != nil {
					out.ElectionId = st.lastElec()
				}
				return out
			}
			p.onReq = func(st *sessState, in *spb.ModifyRequest) (*spb.ModifyRequest, *spb.ModifyResponse) {
				if in.GetElectionId() != nil {
					st.lastReq = in
				}
				return in, nil
			}
			return p
		},
		expect:  []string{"Election - Lower election ID from new client", "Election - Decrementing election ID is ignored"},
		control: ctlBasic,
	},
	{
		name: "accepts-zero-election-id", what: "accepts the election id zero",
		wrap: func(in *server.Server) spb.GRIBIServer {
			p := &proxy{inner: in}
			p.onReq = func(st *sessState, req *spb.ModifyRequest) (*spb.ModifyRequest, *spb.ModifyResponse) {
				if e := req.GetElectionId(); e != nil && e.High == 0 && e.Low == 0 {
					return nil, &spb.ModifyResponse{ElectionId: &spb.Uint128{}}
				}
				return req, nil
			}
			return p
		},
		expect:  []string{"Election - Sending election ID as zero"},
		control: ctlBasic,
	},
	{
		name: "fails-idempotent-delete", what: "answers a DELETE of an entry that is not installed with FAILED",
		wrap: func(in *server.Server) spb.GRIBIServer {
			p := &proxy{inner: in}
			seen := map[string]bool{}
			failDelete := map[uint64]bool{}
			var mu sync.Mutex
			p.onResp = rewriteResults(func(st *sessState, r *spb.AFTResult) *spb.AFTResult {
				op := st.ops[r.GetId()]
				if op == nil {
					return r
				}
				k := keyOf(op)
				mu.Lock()
				defer mu.Unlock()
				switch op.GetOp() {
				case spb.AFTOperation_ADD, spb.AFTOperation_REPLACE:
					if r.GetStatus() != spb.AFTResult_FAILED {
						seen[k] = true
					}
				case spb.AFTOperation_DELETE:
					switch r.GetStatus() {
					case spb.AFTResult_RIB_PROGRAMMED:
						if !seen[k] {
							failDelete[r.GetId()] = true
							r.Status = spb.AFTResult_FAILED
							return r
						}
						delete(seen, k)
					case spb.AFTResult_FIB_PROGRAMMED:
						if failDelete[r.GetId()] {
							return nil
						}
					}
				}
				return r
			})
			return p
		},
		expect:  []string{"Idempotent Delete entry - RIB ACK", "Idempotent Delete entry - FIB ACK"},
		control: append([]string{"Delete NH entry successfully - RIB ACK"}, ctlBasic...),
	},
	{
		name: "replace-of-missing-entry-succeeds", what: "treats REPLACE of an entry that does not exist as ADD",
		wrap: func(in *server.Server) spb.GRIBIServer {
			p := &proxy{inner: in}
			p.onReq = func(st *sessState, req *spb.ModifyRequest) (*spb.ModifyRequest, *spb.ModifyResponse) {
				for _, o := range req.GetOperation() {
					if o.Op == spb.AFTOperation_REPLACE {
						o.Op = spb.AFTOperation_ADD
					}
				}
				return req, nil
			}
			return p
		},
		expect:  []string{"Ensure failure for a NH entry that does not exist", "Ensure failure for a NHG entry that does not exist", "Ensure failure for an IPv4 entry that does not exist"},
		control: ctlBasic,
	},
	{
		name: "no-implicit-replace", what: "answers an ADD for a key that is already installed with FAILED",
		wrap: func(in *server.Server) spb.GRIBIServer {
			p := &proxy{inner: in}
			seen := map[string]bool{}
			var mu sync.Mutex
			p.onResp = rewriteResults(func(st *sessState, r *spb.AFTResult) *spb.AFTResult {
				op := st.ops[r.GetId()]
				if op == nil || op.GetOp() != spb.AFTOperation_ADD {
					return r
				}
				k := keyOf(op)
				mu.Lock()
				defer mu.Unlock()
				if seen[k+"#"+itoa(r.GetId())] {
					return r
				}
				if seen[k] && r.GetStatus() != spb.AFTResult_FAILED {
					if r.GetStatus() == spb.AFTResult_FIB_PROGRAMMED {
						return nil
					}
					r.Status = spb.AFTResult_FAILED
					return r
				}
				if r.GetStatus() == spb.AFTResult_RIB_PROGRAMMED {
					seen[k] = true
					seen[k+"#"+itoa(r.GetId())] = true
				}
				return r
			})
			return p
		},
		expect:  []string{"Implicit replace NH entry - RIB ACK", "Implicit replace NHG entry - RIB ACK", "Implicit replace IPv4 entry - RIB ACK", "Implicit replace NH entry - FIB ACK", "Implicit replace NHG entry - FIB ACK", "Implicit replace IPv4 entry - FIB ACK"},
		control: ctlBasic,
	},
	{
		name: "incomplete-get", what: "omits the last entry from every Get response",
		wrap: func(in *server.Server) spb.GRIBIServer {
			p := &proxy{inner: in}
			p.onGet = func(rs []*spb.GetResponse) []*spb.GetResponse {
				if len(rs) > 0 {
					return rs[:len(rs)-1]
				}
				return rs
			}
			return p
		},
		expect:  []string{"Get for installed NH - RIB ACK", "Get for installed NHG - RIB ACK", "Get for installed IPv4 Entry - RIB ACK", "Get for installed IPv6 Entry - RIB ACK", "Get for installed chain of entries - RIB ACK", "Get for installed NH - FIB ACK", "Get for installed chain of entries - FIB ACK"},
		control: []string{"Modify RPC connection", "Add IPv4 entry that can be programmed on the server - with RIB ACK"},
	},
	{
		name: "stale-get", what: "answers every Get with the (empty) contents it had at start-up",
		wrap: func(in *server.Server) spb.GRIBIServer {
			p := &proxy{inner: in}
			p.onGet = func(rs []*spb.GetResponse) []*spb.GetResponse { return nil }
			return p
		},
		expect:  []string{"Get for installed NH - RIB ACK", "Get for installed NHG - FIB ACK", "Get for installed IPv4 Entry - FIB ACK", "Get for installed IPv6 Entry - FIB ACK", "Get for installed chain of entries - RIB ACK"},
		control: []string{"Modify RPC connection", "Add IPv4 entry that can be programmed on the server - with FIB ACK"},
	},
	{
		name: "ignores-flush", what: "answers Flush with OK without removing anything",
		wrap: func(in *server.Server) spb.GRIBIServer {
			p := &proxy{inner: in}
			p.onFlush = func(req *spb.FlushRequest) (*spb.FlushRequest, *spb.FlushResponse) {
				if req.GetNetworkInstance() == nil {
					return req, nil
				}
				if req.GetOverride() != nil || req.GetId() != nil {
					// still let the election checks of the real server reject what must be rejected
					if _, err := in.Flush(context.Background(), &spb.FlushRequest{Election: req.Election, NetworkInstance: &spb.FlushRequest_Name{Name: "no-such-network-instance-for-probe"}}); err != nil && !isInvalidNI(err) {
						return req, nil
					}
				}
				return nil, &spb.FlushResponse{Result: spb.FlushResponse_OK}
			}
			return p
		},
		expect:  []string{"Flush of all entries in default NI by elected master", "Flush from client overriding election is honoured", "Flush to specific network instance is honoured"},
		control: []string{"Flush from non-elected master returns error", "Flush without specifying network instance returns error", "Modify RPC connection"},
	},
	{
		name: "flush-takes-effect-late", what: "answers Flush with OK before the entries are removed: the first Get after the Flush is still answered from the contents before it (every later request sees the Flush)",
		wrap: func(in *server.Server) spb.GRIBIServer {
			p := &proxy{inner: in}
			var mu sync.Mutex
			var pending []*spb.FlushRequest
			settle := func() {
				mu.Lock()
				todo := pending
				pending = nil
				mu.Unlock()
				for _, req := range todo {
					in.Flush(context.Background(), req)
				}
			}
			p.onFlush = func(req *spb.FlushRequest) (*spb.FlushRequest, *spb.FlushResponse) {
				settle()
				if req.GetNetworkInstance() == nil {
					return req, nil
				}
				if n, ok := req.GetNetworkInstance().(*spb.FlushRequest_Name); ok {
					if _, known := in.VerifRIB().NetworkInstanceRIB(n.Name); !known {
						return req, nil
					}
				}
				// the election checks of the real server reject what must be rejected
				if _, err := in.Flush(context.Background(), &spb.FlushRequest{Election: req.Election, NetworkInstance: &spb.FlushRequest_Name{Name: "no-such-network-instance-for-probe"}}); err != nil && !isInvalidNI(err) {
					return req, nil
				}
				mu.Lock()
				pending = append(pending, req)
				mu.Unlock()
				return nil, &spb.FlushResponse{Result: spb.FlushResponse_OK}
			}
			p.onGet = func(rs []*spb.GetResponse) []*spb.GetResponse {
				settle() // after the contents have been read
				return rs
			}
			p.onReq = func(st *sessState, m *spb.ModifyRequest) (*spb.ModifyRequest, *spb.ModifyResponse) {
				settle()
				return m, nil
			}
			return p
		},
		expect:  []string{"Flush of all entries in default NI by elected master", "Flush from client overriding election is honoured", "Flush to specific network instance is honoured"},
		control: []string{"Flush from non-elected master returns error", "Flush without specifying network instance returns error", "Modify RPC connection"},
	},
	{
		name: "omits-flush-error-details", what: "refuses a Flush with the right status code but without the FlushResponseError details that say why",
		wrap: func(in *server.Server) spb.GRIBIServer {
			p := &proxy{inner: in}
			p.onFlushDone = func(_ *spb.FlushRequest, resp *spb.FlushResponse, err error) (*spb.FlushResponse, error) {
				if err != nil {
					if st, ok := status.FromError(err); ok {
						return nil, status.New(st.Code(), st.Message()).Err()
					}
				}
				return resp, err
			}
			return p
		},
		expect:  []string{"Flush without specifying network instance returns error"},
		control: []string{"Flush of all entries in default NI by elected master", "Flush from client overriding election is honoured", "Modify RPC connection"},
	},
	{
		name: "ignores-flush-of-a-named-instance", what: "answers a Flush that names one network instance with OK without removing anything (a Flush of all instances is honoured)",
		wrap: func(in *server.Server) spb.GRIBIServer {
			p := &proxy{inner: in}
			p.onFlush = func(req *spb.FlushRequest) (*spb.FlushRequest, *spb.FlushResponse) {
				if _, ok := req.GetNetworkInstance().(*spb.FlushRequest_Name); !ok {
					return req, nil
				}
				if req.GetOverride() != nil || req.GetId() != nil {
					// still let the election checks of the real server reject what must be rejected
					if _, err := in.Flush(context.Background(), &spb.FlushRequest{Election: req.Election, NetworkInstance: &spb.FlushRequest_Name{Name: "no-such-network-instance-for-probe"}}); err != nil && !isInvalidNI(err) {
						return req, nil
					}
				}
				return nil, &spb.FlushResponse{Result: spb.FlushResponse_OK}
			}
			return p
		},
		expect:  []string{"Flush to specific network instance is honoured"},
		control: []string{"Flush of all entries in default NI by elected master", "Flush from client overriding election is honoured", "Flush non-default network instances preserves the default", "Modify RPC connection"},
	},
	{
		name: "flushes-every-instance-when-one-is-named", what: "empties all network instances when a Flush names a single one",
		wrap: func(in *server.Server) spb.GRIBIServer {
			p := &proxy{inner: in}
			p.onFlush = func(req *spb.FlushRequest) (*spb.FlushRequest, *spb.FlushResponse) {
				if _, ok := req.GetNetworkInstance().(*spb.FlushRequest_Name); ok {
					if _, known := in.VerifRIB().NetworkInstanceRIB(req.GetName()); known {
						req.NetworkInstance = &spb.FlushRequest_All{All: &spb.Empty{}}
					}
				}
				return req, nil
			}
			return p
		},
		expect:  []string{"Flush non-default network instances preserves the default", "Flush to specific network instance is honoured"},
		control: []string{"Flush of all entries in default NI by elected master", "Modify RPC connection"},
	},
	{
		name: "honours-flush-from-lower-id", what: "honours a Flush whose election id is lower than the highest id it knows",
		wrap: func(in *server.Server) spb.GRIBIServer {
			p := &proxy{inner: in}
			p.onFlush = func(req *spb.FlushRequest) (*spb.FlushRequest, *spb.FlushResponse) {
				if req.GetId() != nil {
					req.Election = &spb.FlushRequest_Override{Override: &spb.Empty{}}
				}
				return req, nil
			}
			return p
		},
		expect:  []string{"Flush from non-elected master returns error"},
		control: []string{"Flush of all entries in default NI by elected master", "Modify RPC connection"},
	},
	{
		name: "accepts-flush-without-network-instance", what: "treats a Flush that names no network instance as a Flush of all",
		wrap: func(in *server.Server) spb.GRIBIServer {
			p := &proxy{inner: in}
			p.onFlush = func(req *spb.FlushRequest) (*spb.FlushRequest, *spb.FlushResponse) {
				if req.GetNetworkInstance() == nil {
					req.NetworkInstance = &spb.FlushRequest_All{All: &spb.Empty{}}
				}
				return req, nil
			}
			return p
		},
		expect:  []string{"Flush without specifying network instance returns error"},
		control: []string{"Flush of all entries in default NI by elected master", "Modify RPC connection"},
	},
	{
		name: "accepts-repeated-session-parameters", what: "answers repeated session parameters with OK",
		wrap: func(in *server.Server) spb.GRIBIServer {
			p := &proxy{inner: in}
			p.onReq = func(st *sessState, req *spb.ModifyRequest) (*spb.ModifyRequest, *spb.ModifyResponse) {
				if req.GetParams() != nil && req.GetElectionId() == nil && len(req.GetOperation()) == 0 {
					if st.sawPar {
						return nil, &spb.ModifyResponse{SessionParamsResult: &spb.SessionParametersResult{Status: spb.SessionParametersResult_OK}}
					}
					st.sawPar = true
				}
				return req, nil
			}
			return p
		},
		expect:  []string{"Modify RPC Connection with repeated SessionParameters"},
		control: ctlBasic,
	},
	{
		name: "accepts-multi-field-messages", what: "processes a ModifyRequest that populates more than one of params / election id / operations", slow: true,
		wrap: func(in *server.Server) spb.GRIBIServer {
			p := &proxy{inner: in}
			p.onReq = func(st *sessState, req *spb.ModifyRequest) (*spb.ModifyRequest, *spb.ModifyResponse) {
				n := 0
				if req.GetParams() != nil {
					n++
				}
				if req.GetElectionId() != nil {
					n++
				}
				if len(req.GetOperation()) > 0 {
					n++
				}
				if n > 1 {
					// keep one field only: the violation goes unnoticed
					switch {
					case req.GetElectionId() != nil:
						return &spb.ModifyRequest{ElectionId: req.ElectionId}, nil
					default:
						return &spb.ModifyRequest{Operation: req.Operation}, nil
					}
				}
				return req, nil
			}
			return p
		},
		expect:  []string{"Invalid updated election ID and AFTOperation in same ModifyRequest", "Invalid update election ID and SessionParams in same ModifyRequest", "Invalid session params and AFT operation in same ModifyRequest"},
		control: ctlBasic,
	},
	{
		name: "accepts-differing-session-parameters", what: "lets a session negotiate parameters that differ from those of a live session",
		wrap: func(in *server.Server) spb.GRIBIServer {
			p := &proxy{inner: in}
			p.onReq = func(st *sessState, req *spb.ModifyRequest) (*spb.ModifyRequest, *spb.ModifyResponse) {
				if pr := req.GetParams(); pr != nil && len(req.GetOperation()) == 0 && req.GetElectionId() == nil {
					pr.AckType = spb.SessionParameters_RIB_ACK
					pr.Redundancy = spb.SessionParameters_SINGLE_PRIMARY
					pr.Persistence = spb.SessionParameters_PRESERVE
				}
				return req, nil
			}
			return p
		},
		expect:  []string{"Election - Ensure client with differing parameters is rejected", "Election - Ensure that a client with mismatched parameters is rejected", "Modify RPC Connection with invalid persist/redundancy parameters"},
		control: []string{"Modify RPC connection", "Add IPv4 entry that can be programmed on the server - with RIB ACK"},
	},
	{
		name: "omits-error-reason", what: "ends a Modify RPC that violates the protocol with the right status code but without the ModifyRPCErrorDetails reason",
		wrap: func(in *server.Server) spb.GRIBIServer {
			p := &proxy{inner: in}
			p.onErr = func(err error) error {
				st, ok := status.FromError(err)
				if !ok || len(st.Details()) == 0 {
					return err
				}
				return status.New(st.Code(), st.Message()).Err()
			}
			return p
		},
		// ("Election - Ensure client with differing parameters is rejected" sends ALL_PRIMARY, which the
		// reference server answers with Unimplemented - accepted by that test whatever the details)
		expect:  []string{"Election - Ensure that a client with mismatched parameters is rejected", "Modify RPC Connection with invalid persist/redundancy parameters"},
		control: ctlBasic,
	},
	{
		name: "leaks-results-to-other-clients", what: "sends the results of one client's operations to every connected client",
		wrap: func(in *server.Server) spb.GRIBIServer {
			p := &proxy{inner: in}
			p.onResp = func(st *sessState, out *spb.ModifyResponse) *spb.ModifyResponse {
				if len(out.GetResult()) > 0 {
					p.mu.Lock()
					others := append([]*sessState{}, p.sessions...)
					p.mu.Unlock()
					for _, o := range others {
						if o != st {
							o.sendMu.Lock()
							o.stream.Send(proto.Clone(out).(*spb.ModifyResponse))
							o.sendMu.Unlock()
						}
					}
				}
				return out
			}
			return p
		},
		expect:  []string{"AFTOperation responses must not be sent to other clients"},
		control: ctlBasic,
	},
	{
		name: "acknowledges-unknown-network-instance", what: "programs operations for a network instance that does not exist into the default one",
		wrap: func(in *server.Server) spb.GRIBIServer {
			p := &proxy{inner: in}
			p.onReq = func(st *sessState, req *spb.ModifyRequest) (*spb.ModifyRequest, *spb.ModifyResponse) {
				for _, o := range req.GetOperation() {
					if _, ok := in.VerifRIB().NetworkInstanceRIB(o.GetNetworkInstance()); !ok {
						o.NetworkInstance = configs[0].defNI
					}
				}
				return req, nil
			}
			return p
		},
		expect:  []string{"Add to a nonexistent network instance"},
		control: ctlBasic,
	},
	{
		name: "nacks-forward-references", what: "answers forward references with FAILED at once although it is expected to hold and reorder them",
		wrap:     func(in *server.Server) spb.GRIBIServer { return &proxy{inner: in} },
		noFwdRef: true,
		repeat:   8, // the test shuffles three operations: one order in six is dependency order
		expect:   []string{"Add IPv4 entries that are resolved by NHG and NH, in random order"},
		control:  ctlBasic,
	},
	{
		name: "accepts-forward-references-when-disallowed", what: "holds forward references although it is configured to refuse them", slow: true, // the test waits a minute for the answer that never comes
		wrap:     func(in *server.Server) spb.GRIBIServer { return &proxy{inner: in} },
		noFwdRef: true,
		expect:   []string{"Add a forward reference to a server that disallows it"},
		control:  ctlBasic,
	},
	{
		name: "programs-non-primary-operations", what: "acknowledges the operations of a client that is not the primary as programmed",
		wrap: func(in *server.Server) spb.GRIBIServer {
			p := &proxy{inner: in}
			p.onResp = rewriteResults(func(st *sessState, r *spb.AFTResult) *spb.AFTResult {
				if r.GetStatus() == spb.AFTResult_FAILED && r.GetErrorDetails() == nil {
					// the reference server's "not the elected primary" verdict carries no error details
					r.Status = spb.AFTResult_RIB_PROGRAMMED
				}
				return r
			})
			return p
		},
		expect:  []string{"Election - Unannounced master operations are rejected", "Election - Incrementing election ID is honoured, and older IDs are rejected", "Election - Sending same election ID from two clients"},
		control: ctlBasic,
	},
	{
		name: "omits-fib-acknowledgements", what: "never sends FIB_PROGRAMMED although FIB acknowledgement was negotiated", slow: true,
		wrap: func(in *server.Server) spb.GRIBIServer {
			p := &proxy{inner: in}
			p.onResp = rewriteResults(func(st *sessState, r *spb.AFTResult) *spb.AFTResult {
				if r.GetStatus() == spb.AFTResult_FIB_PROGRAMMED {
					return nil
				}
				return r
			})
			return p
		},
		// every test that declares RequiresFIBACK is written for this requirement
		expectIf: func(tt *compliance.TestSpec) bool { return tt.In.RequiresFIBACK },
		shards:   8,
		control:  []string{"Add IPv4 entry that can be programmed on the server - with RIB ACK", "Modify RPC connection"},
	},
}
