package smoke

import (
	"testing"

	"github.com/anishathalye/porcupine"
	"github.com/openconfig/gribigo/chk"
	"github.com/openconfig/gribigo/client"
	"github.com/openconfig/gribigo/compliance"
	"github.com/openconfig/gribigo/fluent"
	"github.com/openconfig/gribigo/rib"
	"github.com/openconfig/gribigo/rib/reconciler"
	"github.com/openconfig/gribigo/server"
	"google.golang.org/grpc/test/bufconn"
)

func TestSmoke(t *testing.T) {
	_ = porcupine.Ok
	r := rib.New("DEFAULT")
	_ = r.VerifPendingOps()
	s, _ := server.New()
	_, _ = s.VerifElection()
	_ = client.VerifSetPoint
	_ = compliance.TestSuite
	_ = chk.HasResult
	_ = fluent.NewClient
	_ = reconciler.New
	_ = bufconn.Listen
}
