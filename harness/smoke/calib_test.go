package smoke

import (
	"fmt"
	"testing"

	"github.com/openconfig/gribigo/rib"
	"verifharness/canon"

	aftpb "github.com/openconfig/gribi/v1/proto/gribi_aft"
	enums "github.com/openconfig/gribi/v1/proto/gribi_aft/enums"
	spb "github.com/openconfig/gribi/v1/proto/service"
	wpb "github.com/openconfig/ygot/proto/ywrapper"
)

func s(v string) *wpb.StringValue { return &wpb.StringValue{Value: v} }
func u(v uint64) *wpb.UintValue   { return &wpb.UintValue{Value: v} }

func try(t *testing.T, name string, op *spb.AFTOperation) {
	r := rib.New("DEFAULT", rib.DisableRIBCheckFn())
	op.Id = 1
	var res string
	func() {
		defer func() {
			if p := recover(); p != nil {
				res = fmt.Sprintf("PANIC %v", p)
			}
		}()
		oks, fails, err := r.AddEntry("DEFAULT", op)
		switch {
		case err != nil:
			res = "ERR " + err.Error()
		case len(fails) > 0:
			res = "FAIL " + fails[0].Error
		case len(oks) > 0:
			c, _ := r.RIBContents()
			k, p, _ := canon.OpKey(op)
			got := canon.FromYgot(c)["DEFAULT"][k]
			res = "OK"
			if got != p {
				res = "OK-BUT-DIFF sent=" + p + " stored=" + got
			}
		}
	}()
	if len(res) > 230 {
		res = res[:230]
	}
	t.Logf("%-40s %s", name, res)
}

func nh(p *aftpb.Afts_NextHop) *spb.AFTOperation {
	return &spb.AFTOperation{Op: spb.AFTOperation_ADD, Entry: &spb.AFTOperation_NextHop{NextHop: &aftpb.Afts_NextHopKey{Index: 1, NextHop: p}}}
}
func v4(pfx string, p *aftpb.Afts_Ipv4Entry) *spb.AFTOperation {
	return &spb.AFTOperation{Op: spb.AFTOperation_ADD, Entry: &spb.AFTOperation_Ipv4{Ipv4: &aftpb.Afts_Ipv4EntryKey{Prefix: pfx, Ipv4Entry: p}}}
}
func v6(pfx string, p *aftpb.Afts_Ipv6Entry) *spb.AFTOperation {
	return &spb.AFTOperation{Op: spb.AFTOperation_ADD, Entry: &spb.AFTOperation_Ipv6{Ipv6: &aftpb.Afts_Ipv6EntryKey{Prefix: pfx, Ipv6Entry: p}}}
}
func mpls(l uint64, p *aftpb.Afts_LabelEntry) *spb.AFTOperation {
	return &spb.AFTOperation{Op: spb.AFTOperation_ADD, Entry: &spb.AFTOperation_Mpls{Mpls: &aftpb.Afts_LabelEntryKey{Label: &aftpb.Afts_LabelEntryKey_LabelUint64{LabelUint64: l}, LabelEntry: p}}}
}
func nhg(id uint64, p *aftpb.Afts_NextHopGroup) *spb.AFTOperation {
	return &spb.AFTOperation{Op: spb.AFTOperation_ADD, Entry: &spb.AFTOperation_NextHopGroup{NextHopGroup: &aftpb.Afts_NextHopGroupKey{Id: id, NextHopGroup: p}}}
}

func TestCalib(t *testing.T) {
	try(t, "nh empty payload", nh(&aftpb.Afts_NextHop{}))
	try(t, "nh nil payload", nh(nil))
	try(t, "nh ip v4", nh(&aftpb.Afts_NextHop{IpAddress: s("192.0.2.1")}))
	try(t, "nh ip v6", nh(&aftpb.Afts_NextHop{IpAddress: s("2001:db8::1")}))
	try(t, "nh ip bad", nh(&aftpb.Afts_NextHop{IpAddress: s("not-an-ip")}))
	try(t, "nh ip empty", nh(&aftpb.Afts_NextHop{IpAddress: s("")}))
	try(t, "nh mac", nh(&aftpb.Afts_NextHop{MacAddress: s("00:11:22:33:44:55")}))
	try(t, "nh mac upper", nh(&aftpb.Afts_NextHop{MacAddress: s("AA:BB:CC:DD:EE:FF")}))
	try(t, "nh mac bad", nh(&aftpb.Afts_NextHop{MacAddress: s("zz")}))
	try(t, "nh ifref", nh(&aftpb.Afts_NextHop{InterfaceRef: &aftpb.Afts_NextHop_InterfaceRef{Interface: s("eth0"), Subinterface: u(5)}}))
	try(t, "nh ifref subif only", nh(&aftpb.Afts_NextHop{InterfaceRef: &aftpb.Afts_NextHop_InterfaceRef{Subinterface: u(5)}}))
	try(t, "nh ifref subif 2^32", nh(&aftpb.Afts_NextHop{InterfaceRef: &aftpb.Afts_NextHop_InterfaceRef{Subinterface: u(1 << 32)}}))
	try(t, "nh ifref empty", nh(&aftpb.Afts_NextHop{InterfaceRef: &aftpb.Afts_NextHop_InterfaceRef{}}))
	try(t, "nh ipinip", nh(&aftpb.Afts_NextHop{IpInIp: &aftpb.Afts_NextHop_IpInIp{SrcIp: s("1.1.1.1"), DstIp: s("2.2.2.2")}}))
	try(t, "nh ipinip v6", nh(&aftpb.Afts_NextHop{IpInIp: &aftpb.Afts_NextHop_IpInIp{SrcIp: s("2001:db8::1")}}))
	try(t, "nh netinst", nh(&aftpb.Afts_NextHop{NetworkInstance: s("VRF1")}))
	try(t, "nh netinst empty", nh(&aftpb.Afts_NextHop{NetworkInstance: s("")}))
	try(t, "nh pop", nh(&aftpb.Afts_NextHop{PopTopLabel: &wpb.BoolValue{Value: true}}))
	try(t, "nh pop false", nh(&aftpb.Afts_NextHop{PopTopLabel: &wpb.BoolValue{Value: false}}))
	try(t, "nh pushed", nh(&aftpb.Afts_NextHop{PushedMplsLabelStack: []*aftpb.Afts_NextHop_PushedMplsLabelStackUnion{{PushedMplsLabelStackUint64: 100}, {PushedMplsLabelStackUint64: 200}, {PushedMplsLabelStackUint64: 100}}}))
	try(t, "nh pushed 15", nh(&aftpb.Afts_NextHop{PushedMplsLabelStack: []*aftpb.Afts_NextHop_PushedMplsLabelStackUnion{{PushedMplsLabelStackUint64: 15}}}))
	try(t, "nh pushed 0", nh(&aftpb.Afts_NextHop{PushedMplsLabelStack: []*aftpb.Afts_NextHop_PushedMplsLabelStackUnion{{PushedMplsLabelStackUint64: 0}}}))
	try(t, "nh pushed 1048576", nh(&aftpb.Afts_NextHop{PushedMplsLabelStack: []*aftpb.Afts_NextHop_PushedMplsLabelStackUnion{{PushedMplsLabelStackUint64: 1048576}}}))
	try(t, "nh pushed enum", nh(&aftpb.Afts_NextHop{PushedMplsLabelStack: []*aftpb.Afts_NextHop_PushedMplsLabelStackUnion{{PushedMplsLabelStackOpenconfigmplstypesmplslabelenum: enums.OpenconfigMplsTypesMplsLabelEnum_OPENCONFIGMPLSTYPESMPLSLABELENUM_IMPLICIT_NULL}}}))
	for e := 1; e <= 8; e++ {
		try(t, fmt.Sprintf("nh encap enum %d", e), nh(&aftpb.Afts_NextHop{EncapsulateHeader: enums.OpenconfigAftTypesEncapsulationHeaderType(e)}))
	}
	try(t, "nh decap gre", nh(&aftpb.Afts_NextHop{DecapsulateHeader: enums.OpenconfigAftTypesEncapsulationHeaderType_OPENCONFIGAFTTYPESENCAPSULATIONHEADERTYPE_GRE}))
	try(t, "nh gre", nh(&aftpb.Afts_NextHop{Gre: &aftpb.Afts_NextHop_Gre{SrcIp: s("1.1.1.1"), DstIp: s("2.2.2.2"), Ttl: u(64)}}))
	try(t, "nh gre ttl 256", nh(&aftpb.Afts_NextHop{Gre: &aftpb.Afts_NextHop_Gre{Ttl: u(256)}}))
	try(t, "nh tunnelsrc", nh(&aftpb.Afts_NextHop{TunnelSrcIpAddress: s("1.1.1.1")}))
	try(t, "nh vni", nh(&aftpb.Afts_NextHop{VniLabel: u(5000)}))
	try(t, "nh vni 2^24", nh(&aftpb.Afts_NextHop{VniLabel: u(1 << 24)}))
	try(t, "nh vni 2^32", nh(&aftpb.Afts_NextHop{VniLabel: u(1 << 32)}))
	try(t, "nh encaphdr mpls", nh(&aftpb.Afts_NextHop{EncapHeader: []*aftpb.Afts_NextHop_EncapHeaderKey{{Index: 1, EncapHeader: &aftpb.Afts_NextHop_EncapHeader{Type: enums.OpenconfigAftTypesEncapsulationHeaderType_OPENCONFIGAFTTYPESENCAPSULATIONHEADERTYPE_MPLS, Mpls: &aftpb.Afts_NextHop_EncapHeader_Mpls{MplsLabelStack: []*aftpb.Afts_NextHop_EncapHeader_Mpls_MplsLabelStackUnion{{MplsLabelStackUint64: 100}}, TrafficClass: u(3)}}}}}))
	try(t, "nh encaphdr udpv6", nh(&aftpb.Afts_NextHop{EncapHeader: []*aftpb.Afts_NextHop_EncapHeaderKey{{Index: 2, EncapHeader: &aftpb.Afts_NextHop_EncapHeader{Type: enums.OpenconfigAftTypesEncapsulationHeaderType_OPENCONFIGAFTTYPESENCAPSULATIONHEADERTYPE_UDPV6, UdpV6: &aftpb.Afts_NextHop_EncapHeader_UdpV6{Dscp: u(10), DstIp: s("2001:db8::2"), SrcIp: s("2001:db8::1"), DstUdpPort: u(6635), SrcUdpPort: u(49152), IpTtl: u(64)}}}}}))
	try(t, "nh encaphdr idx0", nh(&aftpb.Afts_NextHop{EncapHeader: []*aftpb.Afts_NextHop_EncapHeaderKey{{Index: 0, EncapHeader: &aftpb.Afts_NextHop_EncapHeader{}}}}))
	try(t, "nh encaphdr idx256", nh(&aftpb.Afts_NextHop{EncapHeader: []*aftpb.Afts_NextHop_EncapHeaderKey{{Index: 256, EncapHeader: &aftpb.Afts_NextHop_EncapHeader{}}}}))
	try(t, "nh encaphdr nil body", nh(&aftpb.Afts_NextHop{EncapHeader: []*aftpb.Afts_NextHop_EncapHeaderKey{{Index: 1}}}))
	try(t, "nh encaphdr dup idx", nh(&aftpb.Afts_NextHop{EncapHeader: []*aftpb.Afts_NextHop_EncapHeaderKey{{Index: 1, EncapHeader: &aftpb.Afts_NextHop_EncapHeader{Gre: &aftpb.Afts_NextHop_EncapHeader_Gre{Ttl: u(1)}}}, {Index: 1, EncapHeader: &aftpb.Afts_NextHop_EncapHeader{Gre: &aftpb.Afts_NextHop_EncapHeader_Gre{Ttl: u(2)}}}}}))
	try(t, "nh encaphdr udpv4+gre+ipv4", nh(&aftpb.Afts_NextHop{EncapHeader: []*aftpb.Afts_NextHop_EncapHeaderKey{{Index: 3, EncapHeader: &aftpb.Afts_NextHop_EncapHeader{UdpV4: &aftpb.Afts_NextHop_EncapHeader_UdpV4{Dscp: u(63), DstIp: s("1.1.1.1")}, Gre: &aftpb.Afts_NextHop_EncapHeader_Gre{SrcIp: s("3.3.3.3")}, Ipv4: &aftpb.Afts_NextHop_EncapHeader_Ipv4{DstIp: s("1.2.3.4")}, Ipv6: &aftpb.Afts_NextHop_EncapHeader_Ipv6{SrcIp: s("::1")}}}}}))
	try(t, "nh udpv6 dscp 64", nh(&aftpb.Afts_NextHop{EncapHeader: []*aftpb.Afts_NextHop_EncapHeaderKey{{Index: 2, EncapHeader: &aftpb.Afts_NextHop_EncapHeader{UdpV6: &aftpb.Afts_NextHop_EncapHeader_UdpV6{Dscp: u(64)}}}}}))

	try(t, "v4 plain", v4("10.0.0.0/8", &aftpb.Afts_Ipv4Entry{NextHopGroup: u(1)}))
	try(t, "v4 hostbits", v4("10.0.0.1/8", &aftpb.Afts_Ipv4Entry{NextHopGroup: u(1)}))
	try(t, "v4 /0", v4("0.0.0.0/0", &aftpb.Afts_Ipv4Entry{NextHopGroup: u(1)}))
	try(t, "v4 /32", v4("1.2.3.4/32", &aftpb.Afts_Ipv4Entry{NextHopGroup: u(1)}))
	try(t, "v4 /33", v4("1.2.3.4/33", &aftpb.Afts_Ipv4Entry{NextHopGroup: u(1)}))
	try(t, "v4 noprefixlen", v4("1.2.3.4", &aftpb.Afts_Ipv4Entry{NextHopGroup: u(1)}))
	try(t, "v4 empty", v4("", &aftpb.Afts_Ipv4Entry{NextHopGroup: u(1)}))
	try(t, "v4 v6pfx", v4("2001:db8::/32", &aftpb.Afts_Ipv4Entry{NextHopGroup: u(1)}))
	try(t, "v4 nil payload", v4("10.0.0.0/8", nil))
	try(t, "v4 empty payload", v4("10.0.0.0/8", &aftpb.Afts_Ipv4Entry{}))
	for _, n := range []int{0, 1, 7, 8, 9, 16} {
		try(t, fmt.Sprintf("v4 md len %d", n), v4("10.0.0.0/8", &aftpb.Afts_Ipv4Entry{NextHopGroup: u(1), EntryMetadata: &wpb.BytesValue{Value: make([]byte, n)}}))
	}
	try(t, "v4 nhgni", v4("10.0.0.0/8", &aftpb.Afts_Ipv4Entry{NextHopGroup: u(1), NextHopGroupNetworkInstance: s("VRF1")}))
	try(t, "v4 nhgni empty", v4("10.0.0.0/8", &aftpb.Afts_Ipv4Entry{NextHopGroup: u(1), NextHopGroupNetworkInstance: s("")}))
	try(t, "v4 decap", v4("10.0.0.0/8", &aftpb.Afts_Ipv4Entry{NextHopGroup: u(1), DecapsulateHeader: enums.OpenconfigAftTypesEncapsulationHeaderType_OPENCONFIGAFTTYPESENCAPSULATIONHEADERTYPE_IPV4}))
	try(t, "v6 plain", v6("2001:db8::/32", &aftpb.Afts_Ipv6Entry{NextHopGroup: u(1)}))
	try(t, "v6 upper", v6("2001:DB8::/32", &aftpb.Afts_Ipv6Entry{NextHopGroup: u(1)}))
	try(t, "v6 ::/0", v6("::/0", &aftpb.Afts_Ipv6Entry{NextHopGroup: u(1)}))
	try(t, "v6 /129", v6("::/129", &aftpb.Afts_Ipv6Entry{NextHopGroup: u(1)}))
	try(t, "v6 v4pfx", v6("10.0.0.0/8", &aftpb.Afts_Ipv6Entry{NextHopGroup: u(1)}))
	try(t, "v6 md", v6("2001:db8::/32", &aftpb.Afts_Ipv6Entry{NextHopGroup: u(1), EntryMetadata: &wpb.BytesValue{Value: []byte{1, 2, 3}}}))
	for _, l := range []uint64{0, 3, 15, 16, 100, 1048575, 1048576, 1<<32 - 1, 1 << 32, 1<<32 + 100} {
		try(t, fmt.Sprintf("mpls label %d", l), mpls(l, &aftpb.Afts_LabelEntry{NextHopGroup: u(1)}))
	}
	try(t, "mpls popped", mpls(100, &aftpb.Afts_LabelEntry{NextHopGroup: u(1), PoppedMplsLabelStack: []*aftpb.Afts_LabelEntry_PoppedMplsLabelStackUnion{{PoppedMplsLabelStackUint64: 100}, {PoppedMplsLabelStackUint64: 300}}}))
	try(t, "mpls md+ni", mpls(100, &aftpb.Afts_LabelEntry{NextHopGroup: u(1), NextHopGroupNetworkInstance: s("VRF1"), EntryMetadata: &wpb.BytesValue{Value: []byte{9}}}))
	try(t, "mpls enum label", &spb.AFTOperation{Op: spb.AFTOperation_ADD, Entry: &spb.AFTOperation_Mpls{Mpls: &aftpb.Afts_LabelEntryKey{Label: &aftpb.Afts_LabelEntryKey_LabelOpenconfigmplstypesmplslabelenum{LabelOpenconfigmplstypesmplslabelenum: enums.OpenconfigMplsTypesMplsLabelEnum_OPENCONFIGMPLSTYPESMPLSLABELENUM_IPV4_EXPLICIT_NULL}, LabelEntry: &aftpb.Afts_LabelEntry{NextHopGroup: u(1)}}}})
	try(t, "mpls nil label", &spb.AFTOperation{Op: spb.AFTOperation_ADD, Entry: &spb.AFTOperation_Mpls{Mpls: &aftpb.Afts_LabelEntryKey{LabelEntry: &aftpb.Afts_LabelEntry{NextHopGroup: u(1)}}}})
	try(t, "nhg plain", nhg(1, &aftpb.Afts_NextHopGroup{NextHop: []*aftpb.Afts_NextHopGroup_NextHopKey{{Index: 1, NextHop: &aftpb.Afts_NextHopGroup_NextHop{Weight: u(3)}}, {Index: 2}}}))
	try(t, "nhg w/ empty nh payload", nhg(1, &aftpb.Afts_NextHopGroup{NextHop: []*aftpb.Afts_NextHopGroup_NextHopKey{{Index: 1, NextHop: &aftpb.Afts_NextHopGroup_NextHop{}}}}))
	try(t, "nhg backup color", nhg(1, &aftpb.Afts_NextHopGroup{BackupNextHopGroup: u(10), Color: u(7), NextHop: []*aftpb.Afts_NextHopGroup_NextHopKey{{Index: 1}}}))
	try(t, "nhg empty", nhg(1, &aftpb.Afts_NextHopGroup{}))
	try(t, "nhg nil", nhg(1, nil))
	try(t, "nhg id0", nhg(0, &aftpb.Afts_NextHopGroup{NextHop: []*aftpb.Afts_NextHopGroup_NextHopKey{{Index: 1}}}))
	try(t, "nhg dup nh", nhg(1, &aftpb.Afts_NextHopGroup{NextHop: []*aftpb.Afts_NextHopGroup_NextHopKey{{Index: 1, NextHop: &aftpb.Afts_NextHopGroup_NextHop{Weight: u(3)}}, {Index: 1, NextHop: &aftpb.Afts_NextHopGroup_NextHop{Weight: u(5)}}}}))
	try(t, "nhg nh idx0", nhg(1, &aftpb.Afts_NextHopGroup{NextHop: []*aftpb.Afts_NextHopGroup_NextHopKey{{Index: 0}}}))
	try(t, "nhg weight 2^64-1", nhg(1, &aftpb.Afts_NextHopGroup{NextHop: []*aftpb.Afts_NextHopGroup_NextHopKey{{Index: 1, NextHop: &aftpb.Afts_NextHopGroup_NextHop{Weight: u(1<<64 - 1)}}}}))
	try(t, "nh idx0", &spb.AFTOperation{Op: spb.AFTOperation_ADD, Entry: &spb.AFTOperation_NextHop{NextHop: &aftpb.Afts_NextHopKey{Index: 0, NextHop: &aftpb.Afts_NextHop{}}}})
}
