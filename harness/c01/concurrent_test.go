package c01

import (
	"fmt"
	"sort"
	"sync"
	"sync/atomic"
	"time"

	"github.com/openconfig/gribigo/constants"
	"github.com/openconfig/gribigo/rib"
	"github.com/openconfig/gribigo/server"
	"github.com/openconfig/ygot/ygot"

	aftpb "github.com/openconfig/gribi/v1/proto/gribi_aft"
	spb "github.com/openconfig/gribi/v1/proto/service"

	"verifharness/canon"
	"verifharness/drv"
	"verifharness/ev"
	"verifharness/gen"
	"verifharness/mon"
)

func nhOp(id uint64, ni string, idx uint64, elec *spb.Uint128) *spb.AFTOperation {
	return &spb.AFTOperation{Id: id, NetworkInstance: ni, Op: spb.AFTOperation_ADD, ElectionId: elec,
		Entry: &spb.AFTOperation_NextHop{NextHop: &aftpb.Afts_NextHopKey{Index: idx, NextHop: &aftpb.Afts_NextHop{IpAddress: gen.S("192.0.2.1")}}}}
}

func installedNHs(srv *server.Server) (map[string]bool, string) {
	resps, err, wd := drv.Get(srv, &spb.GetRequest{NetworkInstance: &spb.GetRequest_All{All: &spb.Empty{}}, Aft: spb.AFTType_NEXTHOP}, 0)
	if wd != nil {
		return nil, "INCONCLUSIVE|Get did not return within the watchdog"
	}
	if err != nil {
		return nil, "get-error|" + err.Error()
	}
	got, _ := canon.FromGet(resps)
	out := map[string]bool{}
	for ni, m := range got {
		for k := range m {
			out[ni+"/"+k.String()] = true
		}
	}
	return out, ""
}

// electionDuringOperation: another session wins the election at a chosen point INSIDE a
// batch of the primary (the point is the k-th change notification of the batch: the
// post-change hook makes the second session announce and waits for the answer). Whatever
// the server then does with the rest of the batch, the property's statement stands: what
// Get reports is exactly what was acknowledged as programmed - an operation answered FAILED
// (or not at all) leaves no trace, an acknowledged one is there.
func electionDuringOperation(run *ev.Run) {
	n := run.Pick(300, 5000)
	ev.Parallel(n, ev.Workers(), func(i int) {
		caseID := fmt.Sprintf("election-inside-batch-%d", i)
		if !run.Want(caseID) {
			return
		}
		r := run.Rand(caseID)
		var armed atomic.Int64 // the number of notifications until the take-over; 0 = disarmed
		var takeover func()
		hook := func(_ constants.OpType, _ int64, _ string, _ ygot.ValidatedGoStruct) {
			if armed.Load() > 0 && armed.Add(-1) == 0 {
				takeover()
			}
		}
		srv, err := drv.NewServer([]string{"VRF1", "VRF2"}, server.WithPostChangeRIBHook(rib.RIBHookFn(hook)))
		if err != nil {
			run.Fatal(err.Error())
			return
		}
		fib := i%2 == 0
		// (one after the other: a session that is connected but has not negotiated yet counts
		// as one with default parameters and would keep the other out)
		a := &drv.Session{Stream: drv.OpenModify(srv), Name: "A", DefaultNI: "VRF2"}
		if _, err := a.Params(drv.SinglePrimary(fib)); err != nil {
			run.Fatal(caseID + ": " + err.Error())
			return
		}
		b := &drv.Session{Stream: drv.OpenModify(srv), Name: "B", DefaultNI: "VRF2"}
		if _, err := b.Params(drv.SinglePrimary(fib)); err != nil {
			run.Fatal(caseID + ": " + err.Error())
			return
		}
		defer a.CloseSend()
		defer b.CloseSend()
		ea := &spb.Uint128{High: uint64(r.Intn(2)), Low: 5}
		eb := &spb.Uint128{High: ea.High, Low: 5 + uint64(r.Intn(2))} // equal or higher
		var trace []string
		var probs []string
		if _, err := a.Elect(ea); err != nil {
			run.Fatal(caseID + ": " + err.Error())
			return
		}
		nOps := 2 + r.Intn(6)
		at := int64(1 + r.Intn(nOps))
		var bRep *spb.Uint128
		var bErr error
		takeover = func() { bRep, bErr = b.Elect(eb) }
		var ops []*spb.AFTOperation
		nis := []string{server.DefaultNetworkInstanceName, "VRF1"}
		for k := 0; k < nOps; k++ {
			ops = append(ops, nhOp(uint64(k+1), nis[r.Intn(2)], uint64(10+k), ea))
		}
		armed.Store(at)
		res := a.Ops(ops, ea)
		armed.Store(0)
		trace = append(trace, fmt.Sprintf("A (primary, %s) sends %d ADDs of next-hops 10..%d in one request; at change notification %d B announces %s -> %s %v", mon.IDStr(ea), nOps, 9+nOps, at, mon.IDStr(eb), mon.IDStr(bRep), bErr))
		if res.RPCErr == drv.ErrWatchdog {
			probs = append(probs, "INCONCLUSIVE|A's batch was not answered within the watchdog")
		}
		acked := map[string]bool{}
		perID := map[uint64][]spb.AFTResult_Status{}
		for _, ar := range res.Results {
			perID[ar.GetId()] = append(perID[ar.GetId()], ar.GetStatus())
		}
		for k, op := range ops {
			sts := perID[op.Id]
			progr := false
			for _, st := range sts {
				progr = progr || st == spb.AFTResult_RIB_PROGRAMMED
			}
			trace = append(trace, fmt.Sprintf("  #%d ADD %s/nh:%d -> %v", op.Id, op.NetworkInstance, 10+k, sts))
			if progr {
				acked[fmt.Sprintf("%s/nh:%d", op.NetworkInstance, 10+k)] = true
			}
		}
		if bErr != nil || bRep == nil {
			probs = append(probs, fmt.Sprintf("HARNESS|B's announcement inside the hook failed: %v", bErr))
		}
		// B, now the primary, programs one more
		if len(probs) == 0 {
			rb := b.Ops([]*spb.AFTOperation{nhOp(1, "VRF1", 99, eb)}, eb)
			ok := false
			for _, ar := range rb.Results {
				ok = ok || (ar.GetId() == 1 && ar.GetStatus() == spb.AFTResult_RIB_PROGRAMMED)
			}
			trace = append(trace, fmt.Sprintf("B (primary now) ADDs VRF1/nh:99 -> %v", rb.Results))
			if ok {
				acked["VRF1/nh:99"] = true
			} else {
				probs = append(probs, fmt.Sprintf("rejected-but-must-succeed:new-primary|B announced %s, was told %s, and its operation was answered %v (rpcErr=%v)", mon.IDStr(eb), mon.IDStr(bRep), rb.Results, rb.RPCErr))
			}
		}
		if len(probs) == 0 {
			got, p := installedNHs(srv)
			if p != "" {
				probs = append(probs, p)
			}
			var extra, missing []string
			for k := range got {
				if !acked[k] {
					extra = append(extra, k)
				}
			}
			for k := range acked {
				if got != nil && !got[k] {
					missing = append(missing, k)
				}
			}
			sort.Strings(extra)
			sort.Strings(missing)
			if len(extra) > 0 {
				probs = append(probs, fmt.Sprintf("contents:extra:nh|installed although not acknowledged as programmed (answered FAILED or not at all): %v", extra))
			}
			if len(missing) > 0 {
				probs = append(probs, fmt.Sprintf("contents:missing:nh|acknowledged as programmed but not installed: %v", missing))
			}
		}
		mon.Report(run, caseID, trace, probs)
		run.Eval(1)
		run.Count("elections_inside_a_batch", 1)
		run.Distinct(caseID)
	})
}

// flushAllAtomicity: one session programs next-hops with distinct indices, one at a time
// (each acknowledged before the next is sent), over three network instances; at some point
// ONE Flush of all instances runs concurrently (scheduling perturbed at the yield points
// inside Flush and before the writes). The Flush is one operation of the history, at one
// position: the entries that survive must be exactly the operations after that position,
// i.e. if operation i survives then every later operation survives too.
func flushAllAtomicity(run *ev.Run) {
	n := run.Pick(200, 4000)
	y := mon.NewYielder(run.Seed+11, 2, 150)
	rib.VerifSetPoint(y.Point)
	server.VerifSetPoint(y.Point)
	defer rib.VerifSetPoint(nil)
	defer server.VerifSetPoint(nil)
	ev.Parallel(n, ev.Workers(), func(i int) {
		caseID := fmt.Sprintf("flush-all-atomic-%d", i)
		if !run.Want(caseID) {
			return
		}
		r := run.Rand(caseID)
		nis := []string{server.DefaultNetworkInstanceName, "VRF1", "VRF2"}
		// every instance holds a few entries beforehand, and the consumer of the removal
		// notifications is slow: the Flush spends a while in each instance
		slow := time.Duration(50+r.Intn(250)) * time.Microsecond
		hook := func(op constants.OpType, _ int64, _ string, _ ygot.ValidatedGoStruct) {
			if op == constants.Delete {
				time.Sleep(slow)
			}
		}
		srv, err := drv.NewServer(nis[1:], server.WithPostChangeRIBHook(rib.RIBHookFn(hook)))
		if err != nil {
			run.Fatal(err.Error())
			return
		}
		s := &drv.Session{Stream: drv.OpenModify(srv), Name: "writer", DefaultNI: nis[r.Intn(3)]}
		if _, err := s.Params(drv.SinglePrimary(false)); err != nil {
			run.Fatal(caseID + ": " + err.Error())
			return
		}
		defer s.CloseSend()
		el := &spb.Uint128{Low: 3}
		s.Elect(el)
		var pre []*spb.AFTOperation
		for k, ni := range nis {
			for q := 0; q < 3+r.Intn(6); q++ {
				pre = append(pre, nhOp(uint64(5000+10*k+q), ni, uint64(1+q), el))
			}
		}
		if res := s.Ops(pre, el); res.RPCErr != nil {
			run.Fatal(caseID + ": " + res.RPCErr.Error())
			return
		}
		nOps := 12 + r.Intn(30)
		flushAfter := int64(1 + r.Intn(nOps-2))
		var done atomic.Int64
		var wg sync.WaitGroup
		var ferr error
		var fwd error
		fired := make(chan struct{})
		wg.Add(1)
		go func() {
			defer wg.Done()
			<-fired
			_, ferr, fwd = drv.Flush(srv, &spb.FlushRequest{NetworkInstance: &spb.FlushRequest_All{All: &spb.Empty{}}, Election: &spb.FlushRequest_Override{Override: &spb.Empty{}}})
		}()
		var keys []string
		var probs []string
		var once sync.Once
		for k := 0; k < nOps && len(probs) == 0; k++ {
			ni := nis[r.Intn(3)]
			if done.Load() >= flushAfter {
				once.Do(func() { close(fired) })
			}
			res := s.Ops([]*spb.AFTOperation{nhOp(uint64(k+1), ni, uint64(100+k), el)}, el)
			if res.RPCErr == drv.ErrWatchdog {
				probs = append(probs, "INCONCLUSIVE|an operation was not answered within the watchdog")
				break
			}
			ok := false
			for _, ar := range res.Results {
				ok = ok || (ar.GetId() == uint64(k+1) && ar.GetStatus() == spb.AFTResult_RIB_PROGRAMMED)
			}
			if !ok {
				probs = append(probs, fmt.Sprintf("rejected-but-must-succeed|ADD %s/nh:%d answered %v (rpcErr=%v)", ni, 100+k, res.Results, res.RPCErr))
				break
			}
			keys = append(keys, fmt.Sprintf("%s/nh:%d", ni, 100+k))
			done.Add(1)
		}
		once.Do(func() { close(fired) })
		wg.Wait()
		if fwd != nil {
			probs = append(probs, "INCONCLUSIVE|the Flush did not return within the watchdog")
		} else if ferr != nil {
			probs = append(probs, "flush-error|"+ferr.Error())
		}
		if len(probs) == 0 {
			got, p := installedNHs(srv)
			if p != "" {
				probs = append(probs, p)
			}
			first := -1
			for k, key := range keys {
				switch {
				case got[key] && first < 0:
					first = k
				case !got[key] && first >= 0:
					probs = append(probs, fmt.Sprintf("flush-all-not-one-point-of-the-history|operation %d (%s) survived the Flush of all instances although operation %d (%s), sent after it had been acknowledged, did not: no position of the Flush in the history explains the state", first+1, keys[first], k+1, key))
				}
				if len(probs) > 0 {
					break
				}
			}
			surv := 0
			for _, key := range keys {
				if got[key] {
					surv++
				}
			}
			if surv > 0 && surv < len(keys) {
				run.Count("flushes_that_cut_the_history_in_the_middle", 1)
			}
		}
		mon.Report(run, caseID, []string{fmt.Sprintf("%d sequential ADDs of distinct next-hops over %v, one concurrent Flush(all) released after operation %d; keys in order: %v", nOps, nis, flushAfter, keys)}, probs)
		run.Eval(1)
		run.Count("concurrent_flush_all_histories", 1)
		run.Distinct(caseID)
	})
	for k, v := range y.Hits() {
		run.Set("yield_point:"+k, v)
	}
}

// halfCloseAfterBatch: a session sends a batch and half-closes at once, on a stream whose
// writes are slow; it then reads whatever the server sends until the RPC ends. What Get
// reports afterwards must be exactly what was acknowledged as programmed on that stream:
// an operation whose acknowledgement was never delivered must have left no trace.
func halfCloseAfterBatch(run *ev.Run) {
	n := run.Pick(300, 5000)
	ev.Parallel(n, ev.Workers(), func(i int) {
		caseID := fmt.Sprintf("half-close-after-batch-%d", i)
		if !run.Want(caseID) {
			return
		}
		r := run.Rand(caseID)
		srv, err := drv.NewServer([]string{"VRF1"})
		if err != nil {
			run.Fatal(err.Error())
			return
		}
		st := drv.OpenModify(srv)
		st.SendDelay = time.Duration(5+r.Intn(60)) * time.Microsecond
		s := &drv.Session{Stream: st, Name: "s", DefaultNI: "VRF1"}
		fib := i%2 == 0
		if _, err := s.Params(drv.SinglePrimary(fib)); err != nil {
			run.Fatal(caseID + ": " + err.Error())
			return
		}
		el := &spb.Uint128{Low: 9}
		if _, err := s.Elect(el); err != nil {
			run.Fatal(caseID + ": " + err.Error())
			return
		}
		nOps := 5 + r.Intn(150)
		nReq := 1 + r.Intn(3)
		var ops []*spb.AFTOperation
		for k := 0; k < nOps; k++ {
			ops = append(ops, nhOp(uint64(k+1), server.DefaultNetworkInstanceName, uint64(100+k), el))
		}
		for q := 0; q < nReq; q++ {
			lo, hi := q*nOps/nReq, (q+1)*nOps/nReq
			if !st.Write(&spb.ModifyRequest{Operation: ops[lo:hi]}) {
				run.Fatal(caseID + ": the stream did not take the request")
				return
			}
		}
		st.CloseSend()
		acked := map[string]bool{}
		nRes := 0
		var probs []string
		for {
			resp, err := st.Read()
			if err == drv.ErrWatchdog {
				probs = append(probs, "INCONCLUSIVE|the RPC did not end within the watchdog after the half-close")
				break
			}
			if err != nil {
				break // end of the RPC (EOF = clean)
			}
			for _, ar := range resp.GetResult() {
				nRes++
				if ar.GetStatus() == spb.AFTResult_RIB_PROGRAMMED {
					acked[fmt.Sprintf("%s/nh:%d", server.DefaultNetworkInstanceName, 99+ar.GetId())] = true
				}
			}
		}
		if len(probs) == 0 {
			st.WaitEnd()
			got, p := installedNHs(srv)
			if p != "" {
				probs = append(probs, p)
			}
			var extra, missing []string
			for k := range got {
				if !acked[k] {
					extra = append(extra, k)
				}
			}
			for k := range acked {
				if got != nil && !got[k] {
					missing = append(missing, k)
				}
			}
			sort.Strings(extra)
			sort.Strings(missing)
			if len(extra) > 0 {
				probs = append(probs, fmt.Sprintf("contents:extra:nh|%d of %d operations are installed although their acknowledgement was never delivered before the RPC ended (%d results received): %v", len(extra), nOps, nRes, extra[:min(len(extra), 8)]))
			}
			if len(missing) > 0 {
				probs = append(probs, fmt.Sprintf("contents:missing:nh|acknowledged as programmed but not installed: %v", missing[:min(len(missing), 8)]))
			}
		}
		mon.Report(run, caseID, []string{fmt.Sprintf("%d ADDs of distinct next-hops in %d requests, half-close at once, server-side writes take %s each; %d results read until the RPC ended", nOps, nReq, st.SendDelay, nRes)}, probs)
		run.Eval(1)
		run.Count("batches_followed_by_an_immediate_half_close", 1)
		run.Distinct(caseID)
	})
}
