// Package model holds the executable reference models the monitors compare the
// implementation with. rib.go is the RIB model: gRIBI ADD/REPLACE/DELETE/Flush
// semantics, reference resolution, held (forward-referencing) operations and
// reference counts, written from the property statements, not from rib.go.
package model

import (
	"fmt"
	"sort"
	"strings"

	spb "github.com/openconfig/gribi/v1/proto/service"

	"verifharness/canon"
	"verifharness/gen"
)

// Outcome classifies what must happen to an operation in the current state.
type Outcome int

const (
	Install Outcome = iota // takes effect now, answered programmed
	Hold                   // valid but unresolved: held (or FAILED if forward refs are disallowed)
	Fail                   // answered FAILED, no effect
	Either                 // the properties leave FAILED or success-without-effect open
)

func (o Outcome) String() string { return [...]string{"install", "hold", "fail", "either"}[o] }

// Entry is one installed entry.
type Entry struct {
	Key     canon.Key
	Payload string
	// Top-level entries: the group referenced and the NI it is resolved in.
	RefNHG uint64
	RefNI  string
	// Groups: the distinct next-hop indices contained.
	NHs []uint64
	// Backup group id (0 = none), never resolved.
	Backup uint64
}

// HeldOp is an operation waiting for its references.
type HeldOp struct {
	Spec gen.OpSpec
	Seq  int
}

// RIB is the reference model of a rib.RIB.
type RIB struct {
	Default  string
	NI       map[string]map[canon.Key]*Entry
	Held     map[uint64]*HeldOp
	NoFwdRef bool
	seq      int
}

// NewRIB returns an empty model with the given network instances.
func NewRIB(def string, nis []string, noFwdRef bool) *RIB {
	m := &RIB{Default: def, NI: map[string]map[canon.Key]*Entry{}, Held: map[uint64]*HeldOp{}, NoFwdRef: noFwdRef}
	for _, ni := range nis {
		m.NI[ni] = map[canon.Key]*Entry{}
	}
	if m.NI[def] == nil {
		m.NI[def] = map[canon.Key]*Entry{}
	}
	return m
}

// Clone deep-copies the model.
func (m *RIB) Clone() *RIB {
	c := &RIB{Default: m.Default, NI: map[string]map[canon.Key]*Entry{}, Held: map[uint64]*HeldOp{}, NoFwdRef: m.NoFwdRef, seq: m.seq}
	for ni, es := range m.NI {
		mm := make(map[canon.Key]*Entry, len(es))
		for k, e := range es {
			ee := *e
			mm[k] = &ee
		}
		c.NI[ni] = mm
	}
	for id, h := range m.Held {
		hh := *h
		c.Held[id] = &hh
	}
	return c
}

// Contents returns the canonical contents.
func (m *RIB) Contents() canon.Contents {
	c := canon.Contents{}
	for ni, es := range m.NI {
		mm := make(map[canon.Key]string, len(es))
		for k, e := range es {
			mm[k] = e.Payload
		}
		c[ni] = mm
	}
	return c
}

// entryOf derives the model entry an ADD/REPLACE would install.
func entryOf(ni string, op *spb.AFTOperation) (*Entry, bool) {
	k, p, ok := canon.OpKey(op)
	if !ok {
		return nil, false
	}
	e := &Entry{Key: k, Payload: p}
	top := func(nhg uint64, nhgNI string) {
		e.RefNHG = nhg
		e.RefNI = nhgNI
		if e.RefNI == "" {
			e.RefNI = ni
		}
	}
	switch t := op.Entry.(type) {
	case *spb.AFTOperation_Ipv4:
		top(t.Ipv4.GetIpv4Entry().GetNextHopGroup().GetValue(), t.Ipv4.GetIpv4Entry().GetNextHopGroupNetworkInstance().GetValue())
	case *spb.AFTOperation_Ipv6:
		top(t.Ipv6.GetIpv6Entry().GetNextHopGroup().GetValue(), t.Ipv6.GetIpv6Entry().GetNextHopGroupNetworkInstance().GetValue())
	case *spb.AFTOperation_Mpls:
		top(t.Mpls.GetLabelEntry().GetNextHopGroup().GetValue(), t.Mpls.GetLabelEntry().GetNextHopGroupNetworkInstance().GetValue())
	case *spb.AFTOperation_NextHopGroup:
		seen := map[uint64]bool{}
		for _, nh := range t.NextHopGroup.GetNextHopGroup().GetNextHop() {
			if !seen[nh.GetIndex()] {
				seen[nh.GetIndex()] = true
				e.NHs = append(e.NHs, nh.GetIndex())
			}
		}
		e.Backup = t.NextHopGroup.GetNextHopGroup().GetBackupNextHopGroup().GetValue()
	}
	return e, true
}

// keyInvalid reports whether the invalid class makes the *key* invalid.
func keyInvalid(class string) bool {
	switch class {
	case "bad-v4-prefix", "bad-v6-prefix", "label-out-of-range", "label-above-uint32":
		return true
	}
	return false
}

// Classify says what must happen to spec in the current state, with the reason.
func (m *RIB) Classify(spec gen.OpSpec) (Outcome, string) {
	op := spec.Op
	nis, ok := m.NI[spec.NI]
	if !ok {
		return Fail, "unknown network instance"
	}
	switch op.GetOp() {
	case spb.AFTOperation_ADD, spb.AFTOperation_REPLACE:
		if spec.Invalid != "" {
			return Fail, "invalid content: " + spec.Invalid
		}
		e, ok := entryOf(spec.NI, op)
		if !ok {
			return Fail, "no entry"
		}
		if op.GetOp() == spb.AFTOperation_REPLACE {
			if _, exists := nis[e.Key]; !exists {
				return Fail, "REPLACE of a key that is not installed"
			}
		}
		switch e.Key.T {
		case canon.NH:
			if e.Key.K == "0" {
				return Fail, "zero next-hop index"
			}
			return Install, ""
		case canon.NHG:
			if e.Key.K == "0" {
				return Fail, "zero group id"
			}
			if len(e.NHs) == 0 {
				return Fail, "empty group"
			}
			for _, nh := range e.NHs {
				if nh == 0 {
					return Fail, "zero next-hop index in group"
				}
			}
			for _, nh := range e.NHs {
				if _, ok := nis[canon.Key{T: canon.NH, K: fmt.Sprint(nh)}]; !ok {
					return Hold, fmt.Sprintf("next-hop %d not installed in %s", nh, spec.NI)
				}
			}
			return Install, ""
		default:
			if e.RefNHG == 0 {
				return Fail, "zero/missing group id"
			}
			tgt, ok := m.NI[e.RefNI]
			if !ok {
				return Fail, "unknown group network instance " + e.RefNI
			}
			if _, ok := tgt[canon.Key{T: canon.NHG, K: fmt.Sprint(e.RefNHG)}]; !ok {
				return Hold, fmt.Sprintf("group %d not installed in %s", e.RefNHG, e.RefNI)
			}
			return Install, ""
		}
	case spb.AFTOperation_DELETE:
		k, _, ok := canon.OpKey(op)
		if !ok {
			return Fail, "no entry"
		}
		if spec.Invalid == "label-above-uint32" {
			return Fail, "label does not fit 32 bits"
		}
		if keyInvalid(spec.Invalid) {
			return Either, "syntactically invalid key"
		}
		switch k.T {
		case canon.NHG:
			if k.K == "0" {
				return Fail, "zero group id"
			}
			if _, inst := nis[k]; inst && m.NHGReferrers(spec.NI, k.K) > 0 {
				return Fail, "group is referenced"
			}
		case canon.NH:
			if k.K == "0" {
				return Fail, "zero next-hop index"
			}
			if _, inst := nis[k]; inst && m.NHReferrers(spec.NI, k.K) > 0 {
				return Fail, "next-hop is referenced"
			}
		}
		return Install, ""
	}
	return Fail, "unsupported operation type"
}

// NHGReferrers counts installed top-level entries, in any NI, pointing at group id of ni.
func (m *RIB) NHGReferrers(ni, id string) int {
	n := 0
	for _, es := range m.NI {
		for k, e := range es {
			if k.T <= canon.MPLS && e.RefNI == ni && fmt.Sprint(e.RefNHG) == id {
				n++
			}
		}
	}
	return n
}

// NHReferrers counts installed groups of ni containing next-hop idx.
func (m *RIB) NHReferrers(ni, idx string) int {
	n := 0
	for k, e := range m.NI[ni] {
		if k.T != canon.NHG {
			continue
		}
		for _, nh := range e.NHs {
			if fmt.Sprint(nh) == idx {
				n++
				break
			}
		}
	}
	return n
}

// RefCounts returns referrer counts derived from contents: ni -> "nhg:<id>"/"nh:<idx>" -> n (>0 only).
func (m *RIB) RefCounts() map[string]map[string]int {
	out := map[string]map[string]int{}
	add := func(ni, k string) {
		if out[ni] == nil {
			out[ni] = map[string]int{}
		}
		out[ni][k]++
	}
	for ni, es := range m.NI {
		for k, e := range es {
			switch {
			case k.T <= canon.MPLS:
				add(e.RefNI, fmt.Sprintf("nhg:%d", e.RefNHG))
			case k.T == canon.NHG:
				for _, nh := range e.NHs {
					add(ni, fmt.Sprintf("nh:%d", nh))
				}
			}
		}
	}
	return out
}

func (m *RIB) apply(spec gen.OpSpec) {
	switch spec.Op.GetOp() {
	case spb.AFTOperation_ADD, spb.AFTOperation_REPLACE:
		e, _ := entryOf(spec.NI, spec.Op)
		m.NI[spec.NI][e.Key] = e
	case spb.AFTOperation_DELETE:
		k, _, _ := canon.OpKey(spec.Op)
		delete(m.NI[spec.NI], k)
	}
}

// Flush empties the named network instances (held operations are untouched).
func (m *RIB) Flush(nis []string) {
	for _, ni := range nis {
		if _, ok := m.NI[ni]; ok {
			m.NI[ni] = map[canon.Key]*Entry{}
		}
	}
}

// HeldIDs returns the sorted ids of held operations.
func (m *RIB) HeldIDs() []uint64 {
	ids := make([]uint64, 0, len(m.Held))
	for id := range m.Held {
		ids = append(ids, id)
	}
	sort.Slice(ids, func(i, j int) bool { return ids[i] < ids[j] })
	return ids
}

// DropHeld forgets every held operation (primary change).
func (m *RIB) DropHeld() { m.Held = map[uint64]*HeldOp{} }

// StepResult describes how the implementation's answer related to the model.
type StepResult struct {
	// Problems lists discrepancies, each as "signature|description".
	Problems []string
	// Expected outcome of the operation itself.
	Expected Outcome
	// Cascade is the number of held operations that resolved in this step.
	Cascade int
	// CascadeFails is the number of held operations that failed in this step.
	CascadeFails int
}

func (s *StepResult) problem(sig, format string, a ...any) {
	s.Problems = append(s.Problems, sig+"|"+fmt.Sprintf(format, a...))
}

// Step feeds one operation and the implementation's verdicts (ids answered
// programmed, in order; ids answered FAILED) to the model. It checks the verdicts
// against the model, follows the implementation's cascade order and applies the
// resulting state change to the model.
func (m *RIB) Step(spec gen.OpSpec, oks, fails []uint64) *StepResult {
	res := &StepResult{}
	id := spec.Op.GetId()
	exp, why := m.Classify(spec)
	res.Expected = exp

	seen := map[uint64]int{}
	for _, x := range oks {
		seen[x]++
	}
	for _, x := range fails {
		seen[x]++
	}
	for x, n := range seen {
		if n > 1 {
			res.problem("duplicate-verdict-in-one-step", "operation %d answered %d times in one step (oks=%v fails=%v)", x, n, oks, fails)
		}
	}

	isDelete := spec.Op.GetOp() == spb.AFTOperation_DELETE
	selfOK := len(oks) > 0 && oks[0] == id
	selfFail := false
	for _, x := range fails {
		if x == id {
			selfFail = true
		}
	}

	switch exp {
	case Either:
		// FAILED, or success without effect on any *other* key. An invalid key can
		// never be installed, so there is nothing to remove either way.
		if !selfOK && !selfFail {
			res.problem("no-verdict", "%s: neither programmed nor failed (oks=%v fails=%v)", spec, oks, fails)
		}
		if len(oks)+len(fails) != 1 {
			res.problem("extra-verdicts", "%s: verdicts for other operations oks=%v fails=%v", spec, oks, fails)
		}
		return res
	case Fail:
		if selfOK || !selfFail {
			sig := "accepted-but-must-fail"
			if spec.Invalid != "" {
				sig += ":" + spec.Invalid
			} else {
				sig += ":" + strings.ReplaceAll(why, " ", "-")
			}
			if isDelete {
				sig = "delete-" + sig
			}
			res.problem(sig, "%s must be FAILED (%s) but oks=%v fails=%v", spec, why, oks, fails)
			if selfOK {
				// Follow the implementation so that later steps are judged on their own.
				m.forceApply(spec)
			}
		}
		if len(oks)+len(fails) > 1 {
			res.problem("extra-verdicts", "%s failed, yet other verdicts oks=%v fails=%v", spec, oks, fails)
		}
		// A failed operation that was previously held under the same id is not our concern here.
		return res
	case Hold:
		if m.NoFwdRef {
			if selfOK || !selfFail {
				res.problem("forward-reference-not-failed", "%s is unresolved (%s) and forward references are disallowed: must be FAILED at once, oks=%v fails=%v", spec, why, oks, fails)
			}
			return res
		}
		if selfOK {
			res.problem("programmed-while-unresolved", "%s acknowledged as programmed although %s", spec, why)
			m.forceApply(spec)
			return res
		}
		if selfFail {
			res.problem("failed-while-holdable", "%s answered FAILED although it is valid and merely unresolved (%s)", spec, why)
			return res
		}
		if len(oks)+len(fails) > 0 {
			res.problem("extra-verdicts", "%s held, yet verdicts oks=%v fails=%v", spec, oks, fails)
		}
		m.seq++
		m.Held[id] = &HeldOp{Spec: spec, Seq: m.seq}
		return res
	}

	// exp == Install.
	if !selfOK {
		sig := "rejected-but-must-succeed"
		if isDelete {
			sig = "delete-" + sig
		}
		if selfFail {
			res.problem(sig, "%s must succeed but was answered FAILED (oks=%v fails=%v)", spec, oks, fails)
		} else {
			res.problem("no-verdict", "%s must succeed but got no verdict (oks=%v fails=%v)", spec, oks, fails)
		}
		return res
	}
	delete(m.Held, id) // an id can be held at most once; a re-sent id supersedes
	m.apply(spec)
	if isDelete {
		if len(oks)+len(fails) > 1 {
			res.problem("extra-verdicts", "%s: a DELETE answered more than itself: oks=%v fails=%v", spec, oks, fails)
		}
		return res
	}

	// Cascade: follow the implementation's install order.
	everFail := map[uint64]string{}
	noteFails := func() {
		for hid, h := range m.Held {
			if o, w := m.Classify(h.Spec); o == Fail {
				everFail[hid] = w
			}
		}
	}
	noteFails()
	for _, x := range oks[1:] {
		h, held := m.Held[x]
		if !held {
			res.problem("programmed-result-for-unheld-operation", "operation %d reported programmed during %s, but it is not held (held=%v)", x, spec, m.HeldIDs())
			continue
		}
		if o, w := m.Classify(h.Spec); o != Install {
			res.problem("held-operation-programmed-while-"+o.String(), "held %s reported programmed during %s although it must %s (%s)", h.Spec, spec, o, w)
		}
		m.apply(h.Spec)
		delete(m.Held, x)
		res.Cascade++
		noteFails()
	}
	for _, x := range fails {
		h, held := m.Held[x]
		if !held {
			res.problem("failed-result-for-unheld-operation", "operation %d reported FAILED during %s, but it is not held (held=%v)", x, spec, m.HeldIDs())
			continue
		}
		if _, ok := everFail[x]; !ok {
			res.problem("held-operation-failed-without-cause", "held %s reported FAILED during %s although it was never unsatisfiable", h.Spec, spec)
		}
		delete(m.Held, x)
		res.CascadeFails++
	}
	// Completeness: nothing resolvable may remain held.
	for _, hid := range m.HeldIDs() {
		h := m.Held[hid]
		if o, _ := m.Classify(h.Spec); o == Install {
			res.problem("resolvable-operation-left-held", "after %s, held %s is resolvable but was not acknowledged", spec, h.Spec)
		}
	}
	return res
}

// forceApply mirrors an effect the implementation (wrongly) produced.
func (m *RIB) forceApply(spec gen.OpSpec) {
	if _, ok := m.NI[spec.NI]; !ok {
		return
	}
	switch spec.Op.GetOp() {
	case spb.AFTOperation_ADD, spb.AFTOperation_REPLACE:
		if e, ok := entryOf(spec.NI, spec.Op); ok {
			m.NI[spec.NI][e.Key] = e
		}
	case spb.AFTOperation_DELETE:
		if k, _, ok := canon.OpKey(spec.Op); ok {
			delete(m.NI[spec.NI], k)
		}
	}
}

// Dangling lists installed entries whose reference does not resolve.
func (m *RIB) Dangling() []string {
	var out []string
	for ni, es := range m.NI {
		for k, e := range es {
			switch {
			case k.T <= canon.MPLS:
				if _, ok := m.NI[e.RefNI][canon.Key{T: canon.NHG, K: fmt.Sprint(e.RefNHG)}]; !ok {
					out = append(out, fmt.Sprintf("%s/%s -> group %d in %s", ni, k, e.RefNHG, e.RefNI))
				}
			case k.T == canon.NHG:
				for _, nh := range e.NHs {
					if _, ok := es[canon.Key{T: canon.NH, K: fmt.Sprint(nh)}]; !ok {
						out = append(out, fmt.Sprintf("%s/%s -> next-hop %d", ni, k, nh))
					}
				}
			}
		}
	}
	sort.Strings(out)
	return out
}

// StateHash is a short digest of contents + held ids, for counting distinct states.
func (m *RIB) StateHash() string {
	return m.Contents().String() + fmt.Sprint(m.HeldIDs())
}

// Predict applies spec as the model itself would (no implementation verdicts):
// Install -> apply and release held operations in ascending id order until a fixed
// point; Hold -> hold (or nothing if forward references are disallowed); Fail -> nothing.
// Used where the implementation's answer was not observed (a client cut off mid-RPC).
func (m *RIB) Predict(spec gen.OpSpec) Outcome {
	o, _ := m.Classify(spec)
	switch o {
	case Install:
		delete(m.Held, spec.Op.GetId())
		m.apply(spec)
		if spec.Op.GetOp() == spb.AFTOperation_DELETE {
			return o
		}
		for changed := true; changed; {
			changed = false
			for _, id := range m.HeldIDs() {
				h := m.Held[id]
				switch c, _ := m.Classify(h.Spec); c {
				case Install:
					m.apply(h.Spec)
					delete(m.Held, id)
					changed = true
				case Fail:
					delete(m.Held, id)
				}
			}
		}
	case Hold:
		if !m.NoFwdRef {
			m.seq++
			m.Held[spec.Op.GetId()] = &HeldOp{Spec: spec, Seq: m.seq}
		}
	}
	return o
}
