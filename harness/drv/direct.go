// Package drv holds the transports and fault injectors used to drive the real
// server: direct in-process streams (no gRPC in between: minimal accidental
// synchronisation, exact control over Recv/Send failures) and bufconn-based real
// gRPC connections (one per session).
package drv

import (
	"context"
	"errors"
	"fmt"
	"io"
	"sync"
	"time"
	"verifharness/ev"

	"github.com/openconfig/gribigo/server"
	"google.golang.org/grpc/metadata"

	spb "github.com/openconfig/gribi/v1/proto/service"
)

// ErrWatchdog is returned when a wait exceeded the (generous) watchdog; it is
// never by itself a verdict about the property.
var ErrWatchdog = errors.New("watchdog fired")

// Watchdog is the default wait bound.
var Watchdog = 60 * time.Second

type baseStream struct {
	ctx    context.Context
	cancel context.CancelFunc
}

func (b *baseStream) SetHeader(metadata.MD) error  { return nil }
func (b *baseStream) SendHeader(metadata.MD) error { return nil }
func (b *baseStream) SetTrailer(metadata.MD)       {}
func (b *baseStream) Context() context.Context     { return b.ctx }
func (b *baseStream) SendMsg(any) error            { return errors.New("SendMsg unsupported") }
func (b *baseStream) RecvMsg(any) error            { return errors.New("RecvMsg unsupported") }

// ModStream is a direct Modify stream: the harness is the client side.
type ModStream struct {
	baseStream
	in      chan *spb.ModifyRequest
	recvErr chan error

	mu       sync.Mutex
	cond     *sync.Cond
	out      []*spb.ModifyResponse
	sendErr  error // when set, Send fails
	failSend int   // fail the n-th Send from now (1 = next); 0 = never
	nSent    int
	// SendDelay makes every Send of the server take this long (a stream whose writes are
	// slower than the server produces results: flow control, a slow reader). Set before use.
	SendDelay time.Duration

	done   chan struct{}
	result error // what Modify returned
}

// OpenModify starts s.Modify on a fresh direct stream.
func OpenModify(s spb.GRIBIServer) *ModStream {
	ctx, cancel := context.WithCancel(context.Background())
	m := &ModStream{baseStream: baseStream{ctx, cancel}, in: make(chan *spb.ModifyRequest), recvErr: make(chan error, 1), done: make(chan struct{})}
	m.cond = sync.NewCond(&m.mu)
	go func() {
		err := s.Modify(m)
		m.mu.Lock()
		m.result = err
		m.mu.Unlock()
		close(m.done)
		m.cond.Broadcast()
	}()
	return m
}

// Recv implements the server side's Recv.
func (m *ModStream) Recv() (*spb.ModifyRequest, error) {
	// Once the handler has returned the stream is dead (as with gRPC, whose Recv fails
	// as soon as the handler returns): a message must never reach a handler goroutine
	// that outlived its RPC.
	select {
	case <-m.done:
		return nil, context.Canceled
	default:
	}
	select {
	case r, ok := <-m.in:
		if !ok {
			return nil, io.EOF
		}
		select {
		case <-m.done:
			return nil, context.Canceled
		default:
		}
		return r, nil
	case err := <-m.recvErr:
		return nil, err
	case <-m.done:
		return nil, context.Canceled
	}
}

// AwaitEnd waits for the RPC to end and returns its status (nil = OK); ok is false
// if it did not end within the watchdog.
func (m *ModStream) AwaitEnd() (error, bool) {
	err, wd := m.WaitEnd()
	return err, wd == nil
}

// Send implements the server side's Send.
func (m *ModStream) Send(r *spb.ModifyResponse) error {
	if m.SendDelay > 0 {
		time.Sleep(m.SendDelay)
	}
	m.mu.Lock()
	defer m.mu.Unlock()
	m.nSent++
	if m.failSend > 0 {
		m.failSend--
		if m.failSend == 0 {
			m.sendErr = errors.New("injected send failure")
		}
	}
	if m.sendErr != nil {
		return m.sendErr
	}
	m.out = append(m.out, r)
	m.cond.Broadcast()
	return nil
}

// Write sends a request to the server (client -> server); false if the RPC ended first.
func (m *ModStream) Write(r *spb.ModifyRequest) bool {
	select {
	case m.in <- r:
		return true
	case <-m.done:
		return false
	case <-time.After(Watchdog):
		return false
	}
}

// CloseSend half-closes the stream (the server's Recv sees io.EOF).
func (m *ModStream) CloseSend() {
	defer func() { recover() }()
	close(m.in)
}

// Abort makes the server's Recv fail with err (cancellation / transport failure).
func (m *ModStream) Abort(err error) {
	m.cancel()
	// as with gRPC, a stream whose RPC was cancelled / whose transport failed takes no more
	// messages from the server either
	m.mu.Lock()
	if m.sendErr == nil {
		m.sendErr = err
	}
	m.mu.Unlock()
	select {
	case m.recvErr <- err:
	default:
	}
}

// FailSendAfter makes the n-th Send from now (and all later ones) fail.
func (m *ModStream) FailSendAfter(n int) {
	m.mu.Lock()
	m.failSend = n
	m.mu.Unlock()
}

// Read returns the next response; (nil, status error) once the RPC has ended and
// everything was read (nil error = clean end); ErrWatchdog if nothing arrived.
func (m *ModStream) Read() (*spb.ModifyResponse, error) {
	deadline := time.Now().Add(Watchdog)
	m.mu.Lock()
	defer m.mu.Unlock()
	for {
		if len(m.out) > 0 {
			r := m.out[0]
			m.out = m.out[1:]
			return r, nil
		}
		select {
		case <-m.done:
			if m.result == nil {
				return nil, io.EOF
			}
			return nil, m.result
		default:
		}
		if time.Now().After(deadline) {
			ev.NoteWatchdog("a Modify stream produced no response")
			return nil, ErrWatchdog
		}
		// wait with a periodic wake-up (cond has no timeout)
		t := time.AfterFunc(50*time.Millisecond, m.cond.Broadcast)
		m.cond.Wait()
		t.Stop()
	}
}

// Pending returns the responses received and not yet read, without blocking.
func (m *ModStream) Pending() []*spb.ModifyResponse {
	m.mu.Lock()
	defer m.mu.Unlock()
	out := m.out
	m.out = nil
	return out
}

// Ended reports whether Modify returned, and with what.
func (m *ModStream) Ended() (bool, error) {
	select {
	case <-m.done:
		m.mu.Lock()
		defer m.mu.Unlock()
		return true, m.result
	default:
		return false, nil
	}
}

// WaitEnd waits for Modify to return.
func (m *ModStream) WaitEnd() (error, error) {
	select {
	case <-m.done:
		m.mu.Lock()
		defer m.mu.Unlock()
		return m.result, nil
	case <-time.After(Watchdog):
		ev.NoteWatchdog("a Modify stream produced no response")
		return nil, ErrWatchdog
	}
}

// GetStream is a direct Get stream.
type GetStream struct {
	baseStream
	mu     sync.Mutex
	Got    []*spb.GetResponse
	FailAt int // Send number (1-based) at which Send starts failing; 0 = never
	OnSend func(n int)
	nSent  int
}

func (g *GetStream) Send(r *spb.GetResponse) error {
	g.mu.Lock()
	g.nSent++
	n := g.nSent
	fail := g.FailAt > 0 && n >= g.FailAt
	if !fail {
		g.Got = append(g.Got, r)
	}
	cb := g.OnSend
	g.mu.Unlock()
	if cb != nil {
		cb(n)
	}
	if fail {
		return errors.New("injected send failure (client went away)")
	}
	return nil
}

// Get runs s.Get on a direct stream; failAt > 0 makes the failAt-th Send fail.
// It returns what was received and what Get returned; ErrWatchdog if it never returned.
func Get(s spb.GRIBIServer, req *spb.GetRequest, failAt int) ([]*spb.GetResponse, error, error) {
	ctx, cancel := context.WithCancel(context.Background())
	defer cancel()
	g := &GetStream{baseStream: baseStream{ctx, cancel}, FailAt: failAt}
	done := make(chan error, 1)
	go func() { done <- s.Get(req, g) }()
	select {
	case err := <-done:
		g.mu.Lock()
		defer g.mu.Unlock()
		return g.Got, err, nil
	case <-time.After(Watchdog):
		ev.NoteWatchdog("a Get / Flush RPC did not return")
		return nil, nil, ErrWatchdog
	}
}

// Flush calls s.Flush with the watchdog.
func Flush(s spb.GRIBIServer, req *spb.FlushRequest) (*spb.FlushResponse, error, error) {
	type res struct {
		r   *spb.FlushResponse
		err error
	}
	done := make(chan res, 1)
	go func() {
		r, err := s.Flush(context.Background(), req)
		done <- res{r, err}
	}()
	select {
	case x := <-done:
		return x.r, x.err, nil
	case <-time.After(Watchdog):
		ev.NoteWatchdog("a Get / Flush RPC did not return")
		return nil, nil, ErrWatchdog
	}
}

// NewServer builds a server whose RIB has the given VRFs.
func NewServer(vrfs []string, opts ...server.ServerOpt) (*server.Server, error) {
	if len(vrfs) > 0 {
		opts = append(opts, server.WithVRFs(vrfs))
	}
	s, err := server.New(opts...)
	if err != nil {
		return nil, fmt.Errorf("cannot create server: %v", err)
	}
	return s, nil
}

// StalledGet starts s.Get on a direct stream whose stallAt-th Send blocks until release is
// called (a reader that has stopped reading for a while). stalled is closed when the
// stream is blocked there; done receives what Get returned.
func StalledGet(s spb.GRIBIServer, req *spb.GetRequest, stallAt int) (g *GetStream, stalled <-chan struct{}, release func(), done <-chan error) {
	ctx, cancel := context.WithCancel(context.Background())
	st := make(chan struct{})
	rel := make(chan struct{})
	var once, relOnce sync.Once
	g = &GetStream{baseStream: baseStream{ctx, cancel}}
	g.OnSend = func(n int) {
		if n == stallAt {
			once.Do(func() { close(st) })
			<-rel
		}
	}
	d := make(chan error, 1)
	go func() { d <- s.Get(req, g); cancel() }()
	return g, st, func() { relOnce.Do(func() { close(rel) }) }, d
}

// Received returns a copy of what the stream has received so far.
func (g *GetStream) Received() []*spb.GetResponse {
	g.mu.Lock()
	defer g.mu.Unlock()
	return append([]*spb.GetResponse{}, g.Got...)
}
