// Package gen holds the seeded generators of AFT operations, payloads and
// histories used by the RIB-level and server-level checks.
package gen

import (
	"fmt"
	"math/rand"

	aftpb "github.com/openconfig/gribi/v1/proto/gribi_aft"
	enums "github.com/openconfig/gribi/v1/proto/gribi_aft/enums"
	spb "github.com/openconfig/gribi/v1/proto/service"
	wpb "github.com/openconfig/ygot/proto/ywrapper"

	"verifharness/canon"
)

func S(v string) *wpb.StringValue { return &wpb.StringValue{Value: v} }
func U(v uint64) *wpb.UintValue   { return &wpb.UintValue{Value: v} }
func B(v bool) *wpb.BoolValue     { return &wpb.BoolValue{Value: v} }

// Space is the small key space histories are drawn from.
type Space struct {
	Default   string
	NIs       []string // includes Default
	UnknownNI string
	V4        []string
	V6        []string
	Labels    []uint64
	NHGs      []uint64
	NHs       []uint64
}

// DefaultSpace returns the usual tiny key space (few keys => many collisions).
func DefaultSpace() Space {
	return Space{
		Default:   "DEFAULT",
		NIs:       []string{"DEFAULT", "VRF1", "VRF2"},
		UnknownNI: "NOSUCH",
		V4:        []string{"10.0.0.0/8", "10.0.0.1/8", "192.0.2.0/24", "0.0.0.0/0"},
		V6:        []string{"2001:db8::/32", "2001:DB8::/32", "::/0"},
		Labels:    []uint64{100, 101, 1048575},
		NHGs:      []uint64{1, 2, 3},
		NHs:       []uint64{1, 2, 3},
	}
}

// OpSpec is one generated operation.
type OpSpec struct {
	NI string
	Op *spb.AFTOperation
	// Invalid names the class of content-invalid input this operation belongs to
	// ("" = content-valid). Semantic failures (missing key for REPLACE, referenced
	// delete, zero ids, unknown group NI ...) are computed by the model, not tagged.
	Invalid string
}

func (o OpSpec) String() string {
	k, p, _ := canon.OpKey(o.Op)
	inv := ""
	if o.Invalid != "" {
		inv = " INVALID(" + o.Invalid + ")"
	}
	return fmt.Sprintf("#%d %s %s/%s %s%s", o.Op.GetId(), o.Op.GetOp(), o.NI, k, p, inv)
}

// Gen generates operations.
type Gen struct {
	R      *rand.Rand
	S      Space
	NextID uint64
	// PInvalid is the probability of drawing a content-invalid operation.
	PInvalid float64
	// PUnknownNHGNI is the probability that a top-level entry names an unknown group NI.
	PUnknownNHGNI float64
	// DupNH allows duplicate next-hop indices inside a group.
	DupNH bool
	// Rich draws payloads from every field (otherwise a compact subset).
	Rich bool
	// Weights of ADD / REPLACE / DELETE.
	WAdd, WReplace, WDelete int
	// Table weights: v4, v6, mpls, nhg, nh.
	WTable [5]int
	// ElectionID is stamped on every operation when non-nil.
	ElectionID *spb.Uint128
}

// New returns a generator with the usual mix.
func New(r *rand.Rand) *Gen {
	return &Gen{R: r, S: DefaultSpace(), NextID: 1, PInvalid: 0.04, PUnknownNHGNI: 0.03, Rich: true,
		WAdd: 6, WReplace: 2, WDelete: 3, WTable: [5]int{3, 2, 2, 4, 4}}
}

func (g *Gen) id() uint64 {
	v := g.NextID
	g.NextID++
	return v
}

func pick[T any](r *rand.Rand, xs []T) T { return xs[r.Intn(len(xs))] }

func (g *Gen) chance(p float64) bool { return g.R.Float64() < p }

// num draws a number below n, with an explicit zero in about one case out of seven:
// a leaf that is SET to zero is different from an unset leaf and must survive as such.
func (g *Gen) num(n int) uint64 {
	if g.R.Intn(7) == 0 {
		return 0
	}
	return uint64(g.R.Intn(n))
}

var v4addrs = []string{"192.0.2.1", "198.51.100.7", "203.0.113.255", "10.1.2.3"}
// (legal spellings that are not the canonical RFC 5952 text are part of the pool: what was
// programmed is what must come back)
var v6addrs = []string{"2001:db8::1", "2001:db8:0:1::2", "fe80::1", "::1", "2001:DB8::3", "2001:db8:0:0:0:0:0:4", "2001:0db8::5"}
var macs = []string{"00:11:22:33:44:55", "AA:BB:CC:DD:EE:FF", "02:00:5e:10:00:01"}
var ifnames = []string{"eth0", "Ethernet1/1", "port-channel 7"}

func (g *Gen) ip() string {
	if g.chance(0.5) {
		return pick(g.R, v4addrs)
	}
	return pick(g.R, v6addrs)
}

func (g *Gen) label() uint64 {
	switch g.R.Intn(5) {
	case 0:
		return 16
	case 1:
		return 1048575
	default:
		return 16 + uint64(g.R.Intn(5000))
	}
}

func (g *Gen) hdr() enums.OpenconfigAftTypesEncapsulationHeaderType {
	return enums.OpenconfigAftTypesEncapsulationHeaderType(1 + g.R.Intn(8))
}

func (g *Gen) metadata() *wpb.BytesValue {
	n := 1 + g.R.Intn(8)
	b := make([]byte, n)
	g.R.Read(b)
	return &wpb.BytesValue{Value: b}
}

// NHPayload draws a next-hop payload; every field is independently present.
func (g *Gen) NHPayload() *aftpb.Afts_NextHop {
	p := &aftpb.Afts_NextHop{}
	pr := 0.22
	if !g.Rich {
		pr = 0.08
	}
	if g.chance(0.6) {
		p.IpAddress = S(g.ip())
	}
	if g.chance(pr) {
		p.MacAddress = S(pick(g.R, macs))
	}
	if g.chance(pr) {
		p.InterfaceRef = &aftpb.Afts_NextHop_InterfaceRef{Interface: S(pick(g.R, ifnames))}
		if g.chance(0.5) {
			p.InterfaceRef.Subinterface = U(g.num(4096))
		}
	}
	if g.chance(pr) {
		p.IpInIp = &aftpb.Afts_NextHop_IpInIp{}
		if g.chance(0.8) {
			p.IpInIp.SrcIp = S(g.ip())
		}
		if g.chance(0.8) {
			p.IpInIp.DstIp = S(g.ip())
		}
	}
	if g.chance(pr) {
		p.NetworkInstance = S(pick(g.R, g.S.NIs))
	}
	if g.chance(pr) {
		p.PopTopLabel = B(g.chance(0.8))
	}
	if g.chance(pr) {
		n := 1 + g.R.Intn(3)
		for i := 0; i < n; i++ {
			if g.chance(0.15) {
				p.PushedMplsLabelStack = append(p.PushedMplsLabelStack, &aftpb.Afts_NextHop_PushedMplsLabelStackUnion{
					PushedMplsLabelStackOpenconfigmplstypesmplslabelenum: pick(g.R, []enums.OpenconfigMplsTypesMplsLabelEnum{1, 2, 3, 4, 8, 9})})
			} else {
				p.PushedMplsLabelStack = append(p.PushedMplsLabelStack, &aftpb.Afts_NextHop_PushedMplsLabelStackUnion{PushedMplsLabelStackUint64: g.label()})
			}
		}
	}
	if g.chance(pr) {
		p.EncapsulateHeader = g.hdr()
	}
	if g.chance(pr) {
		p.DecapsulateHeader = g.hdr()
	}
	if g.chance(pr) {
		p.Gre = &aftpb.Afts_NextHop_Gre{}
		if g.chance(0.7) {
			p.Gre.SrcIp = S(g.ip())
		}
		if g.chance(0.7) {
			p.Gre.DstIp = S(g.ip())
		}
		if g.chance(0.5) {
			p.Gre.Ttl = U(g.num(256))
		}
	}
	if g.chance(pr) {
		p.TunnelSrcIpAddress = S(g.ip())
	}
	if g.chance(pr) {
		p.VniLabel = U(1 + uint64(g.R.Intn(1<<24-1))) // 0 is outside the schema range
	}
	if g.chance(pr) {
		n := 1 + g.R.Intn(3)
		used := map[uint64]bool{}
		for i := 0; i < n; i++ {
			idx := uint64(1 + g.R.Intn(6))
			if used[idx] {
				continue
			}
			used[idx] = true
			eh := &aftpb.Afts_NextHop_EncapHeader{}
			switch g.R.Intn(5) {
			case 0:
				eh.Type = enums.OpenconfigAftTypesEncapsulationHeaderType_OPENCONFIGAFTTYPESENCAPSULATIONHEADERTYPE_MPLS
				eh.Mpls = &aftpb.Afts_NextHop_EncapHeader_Mpls{}
				for j := 0; j <= g.R.Intn(3); j++ {
					eh.Mpls.MplsLabelStack = append(eh.Mpls.MplsLabelStack, &aftpb.Afts_NextHop_EncapHeader_Mpls_MplsLabelStackUnion{MplsLabelStackUint64: g.label()})
				}
				if g.chance(0.4) {
					eh.Mpls.TrafficClass = U(g.num(8))
				}
			case 1:
				eh.Type = enums.OpenconfigAftTypesEncapsulationHeaderType_OPENCONFIGAFTTYPESENCAPSULATIONHEADERTYPE_UDPV6
				eh.UdpV6 = &aftpb.Afts_NextHop_EncapHeader_UdpV6{}
				if g.chance(0.6) {
					eh.UdpV6.Dscp = U(g.num(64))
				}
				if g.chance(0.6) {
					eh.UdpV6.DstIp = S(pick(g.R, v6addrs))
				}
				if g.chance(0.6) {
					eh.UdpV6.SrcIp = S(pick(g.R, v6addrs))
				}
				if g.chance(0.6) {
					eh.UdpV6.DstUdpPort = U(g.num(65536))
				}
				if g.chance(0.6) {
					eh.UdpV6.SrcUdpPort = U(g.num(65536))
				}
				if g.chance(0.6) {
					eh.UdpV6.IpTtl = U(g.num(256))
				}
			case 2:
				eh.Type = enums.OpenconfigAftTypesEncapsulationHeaderType_OPENCONFIGAFTTYPESENCAPSULATIONHEADERTYPE_UDPV4
				eh.UdpV4 = &aftpb.Afts_NextHop_EncapHeader_UdpV4{DstIp: S(pick(g.R, v4addrs))}
				if g.chance(0.5) {
					eh.UdpV4.SrcUdpPort = U(g.num(65536))
				}
			case 3:
				eh.Type = enums.OpenconfigAftTypesEncapsulationHeaderType_OPENCONFIGAFTTYPESENCAPSULATIONHEADERTYPE_GRE
				eh.Gre = &aftpb.Afts_NextHop_EncapHeader_Gre{SrcIp: S(g.ip())}
				if g.chance(0.5) {
					eh.Gre.Ttl = U(g.num(256))
				}
			default:
				// header with only a type, or entirely empty
				if g.chance(0.5) {
					eh.Type = g.hdr()
				}
			}
			p.EncapHeader = append(p.EncapHeader, &aftpb.Afts_NextHop_EncapHeaderKey{Index: idx, EncapHeader: eh})
		}
	}
	return p
}

// NHGPayload draws a group payload over the space's next-hop indices.
func (g *Gen) NHGPayload() *aftpb.Afts_NextHopGroup {
	p := &aftpb.Afts_NextHopGroup{}
	n := 1 + g.R.Intn(len(g.S.NHs))
	perm := g.R.Perm(len(g.S.NHs))
	for i := 0; i < n; i++ {
		m := &aftpb.Afts_NextHopGroup_NextHopKey{Index: g.S.NHs[perm[i]], NextHop: &aftpb.Afts_NextHopGroup_NextHop{}}
		if g.chance(0.6) {
			m.NextHop.Weight = U(g.num(65))
		}
		p.NextHop = append(p.NextHop, m)
	}
	if g.DupNH && g.chance(0.3) {
		d := p.NextHop[g.R.Intn(len(p.NextHop))]
		// An identical duplicate member: which of two differing duplicates wins is not
		// specified, so the duplicate repeats the member verbatim.
		dup := &aftpb.Afts_NextHopGroup_NextHopKey{Index: d.Index, NextHop: &aftpb.Afts_NextHopGroup_NextHop{}}
		if d.NextHop.GetWeight() != nil {
			dup.NextHop.Weight = U(d.NextHop.GetWeight().GetValue())
		}
		p.NextHop = append(p.NextHop, dup)
	}
	if g.chance(0.25) {
		// Backup groups are not resolved: may name an installed, a missing or this group.
		p.BackupNextHopGroup = U(pick(g.R, append(append([]uint64{}, g.S.NHGs...), 10, 99)))
	}
	if g.Rich && g.chance(0.15) {
		p.Color = U(g.num(1000))
	}
	return p
}

func (g *Gen) nhgRef() (*wpb.UintValue, *wpb.StringValue) {
	id := U(pick(g.R, g.S.NHGs))
	var ni *wpb.StringValue
	switch {
	case g.chance(g.PUnknownNHGNI):
		ni = S(g.S.UnknownNI)
	case g.chance(0.45):
		ni = S(pick(g.R, g.S.NIs))
	}
	return id, ni
}

// V4Payload / V6Payload / MPLSPayload draw top-level payloads.
func (g *Gen) V4Payload() *aftpb.Afts_Ipv4Entry {
	id, ni := g.nhgRef()
	p := &aftpb.Afts_Ipv4Entry{NextHopGroup: id, NextHopGroupNetworkInstance: ni}
	if g.chance(0.3) {
		p.EntryMetadata = g.metadata()
	}
	if g.Rich && g.chance(0.15) {
		p.DecapsulateHeader = g.hdr()
	}
	return p
}

func (g *Gen) V6Payload() *aftpb.Afts_Ipv6Entry {
	id, ni := g.nhgRef()
	p := &aftpb.Afts_Ipv6Entry{NextHopGroup: id, NextHopGroupNetworkInstance: ni}
	if g.chance(0.3) {
		p.EntryMetadata = g.metadata()
	}
	if g.Rich && g.chance(0.15) {
		p.DecapsulateHeader = g.hdr()
	}
	return p
}

func (g *Gen) MPLSPayload() *aftpb.Afts_LabelEntry {
	id, ni := g.nhgRef()
	p := &aftpb.Afts_LabelEntry{NextHopGroup: id, NextHopGroupNetworkInstance: ni}
	if g.chance(0.3) {
		p.EntryMetadata = g.metadata()
	}
	if g.chance(0.3) {
		for j := 0; j <= g.R.Intn(3); j++ {
			p.PoppedMplsLabelStack = append(p.PoppedMplsLabelStack, &aftpb.Afts_LabelEntry_PoppedMplsLabelStackUnion{PoppedMplsLabelStackUint64: g.label()})
		}
	}
	return p
}

func weighted(r *rand.Rand, ws ...int) int {
	t := 0
	for _, w := range ws {
		t += w
	}
	x := r.Intn(t)
	for i, w := range ws {
		if x < w {
			return i
		}
		x -= w
	}
	return len(ws) - 1
}

// MkOp assembles an operation for the given table/key with a fresh payload.
func (g *Gen) MkOp(kind spb.AFTOperation_Operation, t canon.Table, ni string, keyIdx int, withPayload bool) OpSpec {
	op := &spb.AFTOperation{Id: g.id(), NetworkInstance: ni, Op: kind, ElectionId: g.ElectionID}
	switch t {
	case canon.V4:
		e := &aftpb.Afts_Ipv4EntryKey{Prefix: g.S.V4[keyIdx%len(g.S.V4)]}
		if withPayload {
			e.Ipv4Entry = g.V4Payload()
		} else {
			e.Ipv4Entry = &aftpb.Afts_Ipv4Entry{}
		}
		op.Entry = &spb.AFTOperation_Ipv4{Ipv4: e}
	case canon.V6:
		e := &aftpb.Afts_Ipv6EntryKey{Prefix: g.S.V6[keyIdx%len(g.S.V6)]}
		if withPayload {
			e.Ipv6Entry = g.V6Payload()
		} else {
			e.Ipv6Entry = &aftpb.Afts_Ipv6Entry{}
		}
		op.Entry = &spb.AFTOperation_Ipv6{Ipv6: e}
	case canon.MPLS:
		e := &aftpb.Afts_LabelEntryKey{Label: &aftpb.Afts_LabelEntryKey_LabelUint64{LabelUint64: g.S.Labels[keyIdx%len(g.S.Labels)]}}
		if withPayload {
			e.LabelEntry = g.MPLSPayload()
		} else {
			e.LabelEntry = &aftpb.Afts_LabelEntry{}
		}
		op.Entry = &spb.AFTOperation_Mpls{Mpls: e}
	case canon.NHG:
		e := &aftpb.Afts_NextHopGroupKey{Id: g.S.NHGs[keyIdx%len(g.S.NHGs)]}
		if withPayload {
			e.NextHopGroup = g.NHGPayload()
		} else {
			e.NextHopGroup = &aftpb.Afts_NextHopGroup{}
		}
		op.Entry = &spb.AFTOperation_NextHopGroup{NextHopGroup: e}
	case canon.NH:
		e := &aftpb.Afts_NextHopKey{Index: g.S.NHs[keyIdx%len(g.S.NHs)]}
		if withPayload {
			e.NextHop = g.NHPayload()
		} else {
			e.NextHop = &aftpb.Afts_NextHop{}
		}
		op.Entry = &spb.AFTOperation_NextHop{NextHop: e}
	}
	return OpSpec{NI: ni, Op: op}
}

// Op draws one operation from the configured mix.
func (g *Gen) Op() OpSpec {
	if g.chance(g.PInvalid) {
		return g.InvalidOp()
	}
	kind := []spb.AFTOperation_Operation{spb.AFTOperation_ADD, spb.AFTOperation_REPLACE, spb.AFTOperation_DELETE}[weighted(g.R, g.WAdd, g.WReplace, g.WDelete)]
	t := canon.Table(weighted(g.R, g.WTable[:]...))
	ni := pick(g.R, g.S.NIs)
	// Deletes carry a payload only sometimes (it must be ignored either way).
	withPayload := kind != spb.AFTOperation_DELETE || g.chance(0.3)
	return g.MkOp(kind, t, ni, g.R.Intn(16), withPayload)
}

// History draws n operations.
func (g *Gen) History(n int) []OpSpec {
	out := make([]OpSpec, n)
	for i := range out {
		out[i] = g.Op()
	}
	return out
}

// InvalidClasses lists the names of the content-invalid classes InvalidOp draws from.
var InvalidClasses = []string{
	"nil-payload", "bad-v4-prefix", "bad-v6-prefix", "label-out-of-range", "label-above-uint32",
	"metadata-too-long", "bad-ip-address", "bad-mac", "subinterface-above-uint32", "vni-out-of-range",
	"gre-ttl-out-of-range", "dscp-out-of-range", "pushed-label-out-of-range", "pushed-label-zero",
	"nhg-member-nil-payload", "encap-header-nil-body", "encap-header-index-above-uint8",
}

// InvalidOp draws an operation of a named content-invalid class. The key is
// otherwise drawn from the normal key space so that a wrongly accepted operation
// would collide with valid state.
func (g *Gen) InvalidOp() OpSpec {
	class := pick(g.R, InvalidClasses)
	return g.InvalidOpOf(class)
}

// InvalidOpOf builds an operation of the named invalid class.
func (g *Gen) InvalidOpOf(class string) OpSpec {
	kind := []spb.AFTOperation_Operation{spb.AFTOperation_ADD, spb.AFTOperation_REPLACE, spb.AFTOperation_DELETE}[weighted(g.R, 6, 2, 2)]
	ni := pick(g.R, g.S.NIs)
	var o OpSpec
	switch class {
	case "nil-payload":
		t := canon.Table(g.R.Intn(5))
		o = g.MkOp(kind, t, ni, g.R.Intn(16), true)
		switch e := o.Op.Entry.(type) {
		case *spb.AFTOperation_Ipv4:
			e.Ipv4.Ipv4Entry = nil
		case *spb.AFTOperation_Ipv6:
			e.Ipv6.Ipv6Entry = nil
		case *spb.AFTOperation_Mpls:
			e.Mpls.LabelEntry = nil
		case *spb.AFTOperation_NextHopGroup:
			e.NextHopGroup.NextHopGroup = nil
		case *spb.AFTOperation_NextHop:
			e.NextHop.NextHop = nil
		}
	case "bad-v4-prefix":
		o = g.MkOp(kind, canon.V4, ni, 0, true)
		o.Op.GetIpv4().Prefix = pick(g.R, []string{"1.2.3.4/33", "1.2.3.4", "", "2001:db8::/32", "300.0.0.0/8", "10.0.0.0/8 ", "10.0.0.0//8", "ten/8"})
	case "bad-v6-prefix":
		o = g.MkOp(kind, canon.V6, ni, 0, true)
		o.Op.GetIpv6().Prefix = pick(g.R, []string{"::/129", "10.0.0.0/8", "", "2001:db8::", "g::/8", ":::/8"})
	case "label-out-of-range":
		o = g.MkOp(kind, canon.MPLS, ni, 0, true)
		o.Op.GetMpls().Label = &aftpb.Afts_LabelEntryKey_LabelUint64{LabelUint64: pick(g.R, []uint64{0, 3, 15, 1048576, 1<<32 - 1})}
	case "label-above-uint32":
		o = g.MkOp(kind, canon.MPLS, ni, 0, true)
		// Aliases of valid labels under uint32 truncation, including labels in the key space.
		o.Op.GetMpls().Label = &aftpb.Afts_LabelEntryKey_LabelUint64{LabelUint64: 1<<32 + pick(g.R, append([]uint64{0, 16}, g.S.Labels...))}
	case "metadata-too-long":
		o = g.MkOp(kind, canon.V4, ni, g.R.Intn(16), true)
		o.Op.GetIpv4().Ipv4Entry.EntryMetadata = &wpb.BytesValue{Value: make([]byte, 9+g.R.Intn(8))}
	case "bad-ip-address":
		o = g.MkOp(kind, canon.NH, ni, g.R.Intn(16), true)
		o.Op.GetNextHop().NextHop.IpAddress = S(pick(g.R, []string{"not-an-ip", "", "1.2.3", "1.2.3.4/32", "::g"}))
	case "bad-mac":
		o = g.MkOp(kind, canon.NH, ni, g.R.Intn(16), true)
		o.Op.GetNextHop().NextHop.MacAddress = S(pick(g.R, []string{"zz", "00:11:22:33:44", "001122334455", ""}))
	case "subinterface-above-uint32":
		o = g.MkOp(kind, canon.NH, ni, g.R.Intn(16), true)
		o.Op.GetNextHop().NextHop.InterfaceRef = &aftpb.Afts_NextHop_InterfaceRef{Interface: S("eth0"), Subinterface: U(1 << 32)}
	case "vni-out-of-range":
		o = g.MkOp(kind, canon.NH, ni, g.R.Intn(16), true)
		o.Op.GetNextHop().NextHop.VniLabel = U(pick(g.R, []uint64{1 << 24, 1 << 32, 1<<64 - 1}))
	case "gre-ttl-out-of-range":
		o = g.MkOp(kind, canon.NH, ni, g.R.Intn(16), true)
		o.Op.GetNextHop().NextHop.Gre = &aftpb.Afts_NextHop_Gre{Ttl: U(256)}
	case "dscp-out-of-range":
		o = g.MkOp(kind, canon.NH, ni, g.R.Intn(16), true)
		o.Op.GetNextHop().NextHop.EncapHeader = []*aftpb.Afts_NextHop_EncapHeaderKey{{Index: 1, EncapHeader: &aftpb.Afts_NextHop_EncapHeader{UdpV6: &aftpb.Afts_NextHop_EncapHeader_UdpV6{Dscp: U(64)}}}}
	case "pushed-label-out-of-range":
		o = g.MkOp(kind, canon.NH, ni, g.R.Intn(16), true)
		o.Op.GetNextHop().NextHop.PushedMplsLabelStack = []*aftpb.Afts_NextHop_PushedMplsLabelStackUnion{{PushedMplsLabelStackUint64: pick(g.R, []uint64{15, 1048576, 1 << 32})}}
	case "pushed-label-zero":
		o = g.MkOp(kind, canon.NH, ni, g.R.Intn(16), true)
		o.Op.GetNextHop().NextHop.PushedMplsLabelStack = []*aftpb.Afts_NextHop_PushedMplsLabelStackUnion{{PushedMplsLabelStackUint64: 100}, {}}
	case "nhg-member-nil-payload":
		o = g.MkOp(kind, canon.NHG, ni, g.R.Intn(16), true)
		nhs := o.Op.GetNextHopGroup().NextHopGroup.NextHop
		nhs[g.R.Intn(len(nhs))].NextHop = nil
	case "encap-header-nil-body":
		o = g.MkOp(kind, canon.NH, ni, g.R.Intn(16), true)
		o.Op.GetNextHop().NextHop.EncapHeader = []*aftpb.Afts_NextHop_EncapHeaderKey{{Index: 1}}
	case "encap-header-index-above-uint8":
		o = g.MkOp(kind, canon.NH, ni, g.R.Intn(16), true)
		o.Op.GetNextHop().NextHop.EncapHeader = []*aftpb.Afts_NextHop_EncapHeaderKey{{Index: 256, EncapHeader: &aftpb.Afts_NextHop_EncapHeader{}}}
	default:
		panic("unknown invalid class " + class)
	}
	o.Invalid = class
	return o
}

// Closed generates ADD operations, in dependency order, that build a
// reference-closed RIB (no operation is ever held) over the given NIs.
func (g *Gen) Closed(nis []string, density float64) []OpSpec {
	var out []OpSpec
	type inst struct {
		ni string
		id uint64
	}
	nhs := map[string][]uint64{}
	var nhgs []inst
	for _, ni := range nis {
		for k, idx := range g.S.NHs {
			if g.chance(density) {
				out = append(out, g.MkOp(spb.AFTOperation_ADD, canon.NH, ni, k, true))
				nhs[ni] = append(nhs[ni], idx)
			}
		}
	}
	for _, ni := range nis {
		if len(nhs[ni]) == 0 {
			continue
		}
		for k, id := range g.S.NHGs {
			if !g.chance(density) {
				continue
			}
			o := g.MkOp(spb.AFTOperation_ADD, canon.NHG, ni, k, false)
			p := &aftpb.Afts_NextHopGroup{}
			perm := g.R.Perm(len(nhs[ni]))
			for i := 0; i < 1+g.R.Intn(len(nhs[ni])); i++ {
				m := &aftpb.Afts_NextHopGroup_NextHopKey{Index: nhs[ni][perm[i]], NextHop: &aftpb.Afts_NextHopGroup_NextHop{}}
				if g.chance(0.6) {
					m.NextHop.Weight = U(g.num(9))
				}
				p.NextHop = append(p.NextHop, m)
			}
			if g.chance(0.2) {
				p.BackupNextHopGroup = U(pick(g.R, g.S.NHGs))
			}
			o.Op.GetNextHopGroup().NextHopGroup = p
			out = append(out, o)
			nhgs = append(nhgs, inst{ni, id})
		}
	}
	if len(nhgs) == 0 {
		return out
	}
	for _, ni := range nis {
		for _, t := range []canon.Table{canon.V4, canon.V6, canon.MPLS} {
			n := len(g.S.V4)
			if t == canon.V6 {
				n = len(g.S.V6)
			} else if t == canon.MPLS {
				n = len(g.S.Labels)
			}
			for k := 0; k < n; k++ {
				if !g.chance(density) {
					continue
				}
				tgt := nhgs[g.R.Intn(len(nhgs))]
				o := g.MkOp(spb.AFTOperation_ADD, t, ni, k, true)
				var niRef *wpb.StringValue
				if tgt.ni != ni || g.chance(0.3) {
					niRef = S(tgt.ni)
				}
				switch t {
				case canon.V4:
					o.Op.GetIpv4().Ipv4Entry.NextHopGroup = U(tgt.id)
					o.Op.GetIpv4().Ipv4Entry.NextHopGroupNetworkInstance = niRef
				case canon.V6:
					o.Op.GetIpv6().Ipv6Entry.NextHopGroup = U(tgt.id)
					o.Op.GetIpv6().Ipv6Entry.NextHopGroupNetworkInstance = niRef
				case canon.MPLS:
					o.Op.GetMpls().LabelEntry.NextHopGroup = U(tgt.id)
					o.Op.GetMpls().LabelEntry.NextHopGroupNetworkInstance = niRef
				}
				out = append(out, o)
			}
		}
	}
	return out
}
