package smoke

import (
	"fmt"
	"testing"

	aftpb "github.com/openconfig/gribi/v1/proto/gribi_aft"
	spb "github.com/openconfig/gribi/v1/proto/service"

	"verifharness/canon"
	"verifharness/drv"
	"verifharness/gen"
)

// TestHalfCloseRealGRPC: over real gRPC, a batch followed by an immediate half-close: is
// every installed operation acknowledged before the RPC ends?
func TestHalfCloseRealGRPC(t *testing.T) {
	lost := 0
	const rounds = 3000
	for i := 0; i < rounds; i++ {
		srv, _ := drv.NewServer(nil)
		gs := drv.Serve(srv)
		st, err := gs.OpenModify()
		if err != nil {
			t.Fatal(err)
		}
		s := &drv.Session{Stream: st, Name: "s", DefaultNI: "DEFAULT"}
		s.Params(drv.SinglePrimary(i%2 == 0))
		el := &spb.Uint128{Low: 9}
		s.Elect(el)
		n := 1 + i%7
		var ops []*spb.AFTOperation
		for k := 0; k < n; k++ {
			ops = append(ops, &spb.AFTOperation{Id: uint64(k + 1), NetworkInstance: "DEFAULT", Op: spb.AFTOperation_ADD, ElectionId: el,
				Entry: &spb.AFTOperation_NextHop{NextHop: &aftpb.Afts_NextHopKey{Index: uint64(100 + k), NextHop: &aftpb.Afts_NextHop{IpAddress: gen.S("192.0.2.1")}}}})
		}
		st.Write(&spb.ModifyRequest{Operation: ops})
		st.CloseSend()
		acked := 0
		for {
			r, err := st.Read()
			if err != nil {
				break
			}
			for _, ar := range r.GetResult() {
				if ar.GetStatus() == spb.AFTResult_RIB_PROGRAMMED {
					acked++
				}
			}
		}
		resps, _, _ := drv.Get(srv, &spb.GetRequest{NetworkInstance: &spb.GetRequest_All{All: &spb.Empty{}}, Aft: spb.AFTType_NEXTHOP}, 0)
		got, _ := canon.FromGet(resps)
		if got.Count() != acked {
			lost++
			if lost <= 3 {
				fmt.Printf("round %d: %d operations installed, %d acknowledged before the RPC ended\n", i, got.Count(), acked)
			}
		}
		st.Close()
		gs.Stop()
	}
	fmt.Printf("rounds with an installed but unacknowledged operation: %d of %d\n", lost, rounds)
}
