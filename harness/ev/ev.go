// Package ev implements the verdict, evidence, replay and known-finding plumbing
// shared by every property check.
package ev

import (
	"bufio"
	"crypto/sha256"
	"encoding/binary"
	"encoding/json"
	"fmt"
	"math/rand"
	"os"
	"path/filepath"
	"sort"
	"strconv"
	"strings"
	"sync"
	"sync/atomic"
	"testing"
	"time"
)

// Root returns the /verif directory (VERIF_ROOT, defaulting to the parent of the
// harness module).
func Root() string {
	if r := os.Getenv("VERIF_ROOT"); r != "" {
		return r
	}
	wd, _ := os.Getwd()
	for d := wd; d != "/"; d = filepath.Dir(d) {
		if _, err := os.Stat(filepath.Join(d, "properties.jsonl")); err == nil {
			return d
		}
	}
	return "/verif"
}

// Run collects what one check execution observed.
type Run struct {
	T     *testing.T
	Prop  string
	Level string
	Tier  string
	Seed  int64
	// OnlyCase restricts execution to the named case (replay).
	OnlyCase string

	start time.Time
	mu    sync.Mutex

	evaluations  int64
	distinct     map[[16]byte]struct{}
	samples      []any
	maxSamples   int
	counters     map[string]int64
	sets         map[string]map[string]struct{}
	extra        map[string]any
	assumptions  []string
	known        map[string]string // sig -> text of known: lines for this property
	knownHit     map[string]int
	violations   map[string]string // sig -> replay path
	violCount    int
	inconclusive []string
	fatal        []string
}

// Start creates the Run for property prop at the claimed level.
func Start(t *testing.T, prop, level string) *Run {
	r := &Run{
		T: t, Prop: prop, Level: level,
		Tier:       os.Getenv("VERIF_TIER"),
		OnlyCase:   os.Getenv("VERIF_CASE"),
		start:      time.Now(),
		distinct:   map[[16]byte]struct{}{},
		counters:   map[string]int64{},
		sets:       map[string]map[string]struct{}{},
		extra:      map[string]any{},
		known:      map[string]string{},
		knownHit:   map[string]int{},
		violations: map[string]string{},
		maxSamples: 4,
	}
	if r.Tier == "" {
		r.Tier = "quick"
	}
	r.Seed = 1
	if s := os.Getenv("VERIF_SEED"); s != "" {
		if v, err := strconv.ParseInt(s, 10, 64); err == nil {
			r.Seed = v
		}
	}
	r.loadKnown()
	return r
}

// Thorough reports whether the thorough tier was requested.
func (r *Run) Thorough() bool { return r.Tier == "thorough" }

// Pick returns q in the quick tier and th in the thorough tier.
func (r *Run) Pick(q, th int) int {
	if r.Thorough() {
		return th
	}
	return q
}

func (r *Run) loadKnown() {
	f, err := os.Open(filepath.Join(Root(), "known_findings.txt"))
	if err != nil {
		return
	}
	defer f.Close()
	sc := bufio.NewScanner(f)
	for sc.Scan() {
		line := strings.TrimSpace(sc.Text())
		if !strings.HasPrefix(line, "known:") {
			continue
		}
		fields := strings.Fields(strings.TrimPrefix(line, "known:"))
		var prop, sig string
		rest := []string{}
		for _, f := range fields {
			switch {
			case strings.HasPrefix(f, "property=") && prop == "":
				prop = strings.TrimPrefix(f, "property=")
			case strings.HasPrefix(f, "sig=") && sig == "":
				sig = strings.TrimPrefix(f, "sig=")
			default:
				rest = append(rest, f)
			}
		}
		if prop == r.Prop && sig != "" {
			r.known[sig] = strings.Join(rest, " ")
		}
	}
}

// Rand returns the deterministic PRNG for the named case.
func (r *Run) Rand(caseID string) *rand.Rand {
	h := sha256.Sum256([]byte(fmt.Sprintf("%s|%d|%s", r.Prop, r.Seed, caseID)))
	return rand.New(rand.NewSource(int64(binary.LittleEndian.Uint64(h[:8]))))
}

// Want reports whether the named case is to be executed (always, unless replaying).
func (r *Run) Want(caseID string) bool {
	return r.OnlyCase == "" || r.OnlyCase == caseID
}

// Eval counts n executed cases.
func (r *Run) Eval(n int) {
	r.mu.Lock()
	r.evaluations += int64(n)
	r.mu.Unlock()
}

// Distinct records the canonical description of a non-trivial case.
func (r *Run) Distinct(canonical string) {
	h := sha256.Sum256([]byte(canonical))
	var k [16]byte
	copy(k[:], h[:16])
	r.mu.Lock()
	r.distinct[k] = struct{}{}
	r.mu.Unlock()
}

// Sample keeps v as one of the written-out sample cases (the first few only).
func (r *Run) Sample(v any) {
	r.mu.Lock()
	if len(r.samples) < r.maxSamples {
		r.samples = append(r.samples, v)
	}
	r.mu.Unlock()
}

// Count adds n to the named measured counter.
func (r *Run) Count(name string, n int64) {
	r.mu.Lock()
	r.counters[name] += n
	r.mu.Unlock()
}

// Counter returns the current value of a counter.
func (r *Run) Counter(name string) int64 {
	r.mu.Lock()
	defer r.mu.Unlock()
	return r.counters[name]
}

// Seen adds member to the named set; the evidence reports the set's size.
func (r *Run) Seen(set, member string) {
	r.mu.Lock()
	s := r.sets[set]
	if s == nil {
		s = map[string]struct{}{}
		r.sets[set] = s
	}
	s[member] = struct{}{}
	r.mu.Unlock()
}

// SeenCount returns the size of a set.
func (r *Run) SeenCount(set string) int {
	r.mu.Lock()
	defer r.mu.Unlock()
	return len(r.sets[set])
}

// Set stores an extra measured key in the coverage object.
func (r *Run) Set(name string, v any) {
	r.mu.Lock()
	r.extra[name] = v
	r.mu.Unlock()
}

// Assume records an assumption in the evidence.
func (r *Run) Assume(s string) {
	r.mu.Lock()
	r.assumptions = append(r.assumptions, s)
	r.mu.Unlock()
}

// Witness is the content of a replay file.
type Witness struct {
	Property string `json:"property"`
	Tier     string `json:"tier"`
	Seed     int64  `json:"seed"`
	Case     string `json:"case"`
	Sig      string `json:"signature"`
	What     string `json:"what"`
	Detail   any    `json:"detail,omitempty"`
	Replay   string `json:"replay_cmd"`
}

// Violation reports a refuting observation. sig is the canonical signature of the
// failure mode; a signature listed as known: in known_findings.txt is downgraded
// to KNOWN-FINDING. Each signature is reported once per run.
func (r *Run) Violation(caseID, sig, what string, detail any) {
	// monitors report a wait that exceeded the watchdog, and harness failures, as problems
	// with these reserved signatures: they are never violations (see Finish)
	switch sig {
	case "INCONCLUSIVE":
		r.Inconclusive(caseID + ": " + what)
		return
	case "HARNESS":
		r.Fatal(caseID + ": " + what)
		return
	}
	r.mu.Lock()
	defer r.mu.Unlock()
	r.violCount++
	if txt, ok := r.known[sig]; ok {
		if r.knownHit[sig] == 0 {
			fmt.Printf("KNOWN-FINDING: property=%s sig=%s %s\n", r.Prop, sig, txt)
		}
		r.knownHit[sig]++
		return
	}
	if _, dup := r.violations[sig]; dup {
		return
	}
	dir := filepath.Join(Root(), "replays", r.Prop)
	if os.Getenv("VERIF_NO_EVIDENCE") != "" {
		dir = filepath.Join(os.TempDir(), "verif-selftest-replays", r.Prop)
	}
	os.MkdirAll(dir, 0o755)
	name := sanitize(sig)
	if len(name) > 80 {
		name = name[:80]
	}
	path := filepath.Join(dir, fmt.Sprintf("%s-seed%d-%s.json", r.Tier, r.Seed, name))
	w := Witness{Property: r.Prop, Tier: r.Tier, Seed: r.Seed, Case: caseID, Sig: sig, What: what, Detail: detail,
		Replay: fmt.Sprintf("./check %s --replay %s", r.Prop, path)}
	b, _ := json.MarshalIndent(w, "", " ")
	os.WriteFile(path, b, 0o644)
	r.violations[sig] = path
	fmt.Printf("VIOLATION property=%s replay=%s\n", r.Prop, path)
	fmt.Printf("  signature: %s\n  what: %s\n", sig, what)
}

// Violations returns the number of unlisted violation signatures so far.
func (r *Run) Violations() int {
	r.mu.Lock()
	defer r.mu.Unlock()
	return len(r.violations)
}

// Inconclusive records a case that produced no verdict.
func (r *Run) Inconclusive(msg string) {
	r.mu.Lock()
	r.inconclusive = append(r.inconclusive, msg)
	n := len(r.inconclusive)
	r.mu.Unlock()
	if n <= 5 {
		fmt.Printf("INCONCLUSIVE property=%s %s\n", r.Prop, msg)
	}
}

// Fatal records a harness failure (not a verdict about the property).
func (r *Run) Fatal(msg string) {
	r.mu.Lock()
	r.fatal = append(r.fatal, msg)
	r.mu.Unlock()
	fmt.Printf("HARNESS-ERROR property=%s %s\n", r.Prop, msg)
}

func sanitize(s string) string {
	var b strings.Builder
	for _, c := range s {
		switch {
		case c >= 'a' && c <= 'z', c >= 'A' && c <= 'Z', c >= '0' && c <= '9', c == '-', c == '_', c == '.':
			b.WriteRune(c)
		default:
			b.WriteByte('_')
		}
	}
	return b.String()
}

// Finish writes the evidence file. rule describes generation and the
// non-triviality criterion; minNontrivial is the least number of distinct
// non-trivial cases for the run to count as having observed anything.
func (r *Run) Finish(rule string, minNontrivial int, exhaustive bool) {
	if n := watchdogs.Load(); n > 0 {
		first, _ := watchdogFirst.Load().(string)
		if HangClassifier != nil {
			if ok, sig, desc := HangClassifier(); ok {
				r.Violation("hang", "server-wedged:"+sig, fmt.Sprintf("%d request(s) were never answered (first: %s; %d remaining cases skipped) and, with nothing of the harness running any more, the code under test is permanently blocked: %s", n, first, skippedOnHang.Load(), desc), nil)
			} else {
				r.Inconclusive(fmt.Sprintf("%d request(s) exceeded the watchdog (first: %s; %d remaining cases skipped) without a proven permanent block: %s", n, first, skippedOnHang.Load(), desc))
			}
		} else {
			r.Inconclusive(fmt.Sprintf("%d request(s) exceeded the watchdog (first: %s)", n, first))
		}
	}
	r.mu.Lock()
	defer r.mu.Unlock()
	cov := map[string]any{
		"evaluations":         r.evaluations,
		"distinct_nontrivial": len(r.distinct),
		"rule":                rule,
		"samples":             r.samples,
		"inconclusive":        len(r.inconclusive),
	}
	if exhaustive {
		cov["exhaustive"] = true
	}
	for k, v := range r.counters {
		cov[k] = v
	}
	for k, s := range r.sets {
		cov["distinct_"+k] = len(s)
		if len(s) <= 40 {
			m := make([]string, 0, len(s))
			for x := range s {
				m = append(m, x)
			}
			sort.Strings(m)
			cov["set_"+k] = m
		}
	}
	for k, v := range r.extra {
		cov[k] = v
	}
	if len(r.inconclusive) > 0 {
		n := len(r.inconclusive)
		if n > 10 {
			n = 10
		}
		cov["inconclusive_samples"] = r.inconclusive[:n]
	}
	if len(r.knownHit) > 0 {
		cov["known_findings_reproduced"] = r.knownHit
	}
	if cov["samples"] == nil || len(r.samples) == 0 {
		cov["samples"] = []any{}
	}
	if r.assumptions == nil {
		r.assumptions = []string{}
	}
	evd := map[string]any{
		"property_id": r.Prop,
		"tier":        r.Tier,
		"seed":        r.Seed,
		"level":       r.Level,
		"coverage":    cov,
		"assumptions": r.assumptions,
		"wall_s":      time.Since(r.start).Seconds(),
		"violations":  len(r.violations),
	}
	if r.OnlyCase == "" && os.Getenv("VERIF_NO_EVIDENCE") == "" {
		dir := filepath.Join(Root(), "evidence")
		os.MkdirAll(dir, 0o755)
		b, _ := json.MarshalIndent(evd, "", " ")
		if err := os.WriteFile(filepath.Join(dir, r.Prop+".json"), b, 0o644); err != nil {
			fmt.Printf("HARNESS-ERROR property=%s cannot write evidence: %v\n", r.Prop, err)
			r.fatal = append(r.fatal, err.Error())
		}
	}
	fmt.Printf("SUMMARY property=%s tier=%s seed=%d evaluations=%d distinct_nontrivial=%d violations=%d known=%d inconclusive=%d wall=%.1fs\n",
		r.Prop, r.Tier, r.Seed, r.evaluations, len(r.distinct), len(r.violations), len(r.knownHit), len(r.inconclusive), time.Since(r.start).Seconds())
	if len(r.fatal) > 0 {
		r.T.Errorf("harness errors: %v", r.fatal)
	}
	if r.OnlyCase == "" && len(r.distinct) < minNontrivial {
		fmt.Printf("HARNESS-ERROR property=%s observed only %d distinct non-trivial cases (< %d): nothing was decided\n", r.Prop, len(r.distinct), minNontrivial)
		r.T.Errorf("observed nothing")
	}
	if len(r.violations) > 0 {
		r.T.Errorf("%d violation signature(s)", len(r.violations))
	}
}

// Watchdog bookkeeping for checks that run the code under test inside this process: the
// transports (package drv) note every firing of their wait bound. Once a few have fired
// the remaining jobs of Parallel are skipped (a wedged server would otherwise cost one
// watchdog period per request), and Finish decides - when nothing of the harness runs any
// more - whether the code under test is provably blocked for good (violation) or not
// (inconclusive). Child-process checks do their own classification per workload.
var (
	watchdogs      atomic.Int64
	watchdogFirst  atomic.Value // string
	skippedOnHang  atomic.Int64
	HangClassifier func() (proven bool, signature, description string)
)

// NoteWatchdog records that a wait on the code under test exceeded its bound.
func NoteWatchdog(what string) {
	if watchdogs.Add(1) == 1 {
		watchdogFirst.Store(what)
	}
}

// WatchdogsFired returns how many waits exceeded their bound in this process.
func WatchdogsFired() int64 { return watchdogs.Load() }

// Parallel runs fn(i) for i in [0,n) on workers goroutines.
func Parallel(n, workers int, fn func(i int)) {
	if workers < 1 {
		workers = 1
	}
	var wg sync.WaitGroup
	ch := make(chan int)
	for w := 0; w < workers; w++ {
		wg.Add(1)
		go func() {
			defer wg.Done()
			for i := range ch {
				if watchdogs.Load() >= 3 {
					skippedOnHang.Add(1)
					continue
				}
				fn(i)
			}
		}()
	}
	for i := 0; i < n; i++ {
		ch <- i
	}
	close(ch)
	wg.Wait()
}

// Workers is the default parallelism (VERIF_WORKERS, default 16).
func Workers() int {
	if s := os.Getenv("VERIF_WORKERS"); s != "" {
		if v, err := strconv.Atoi(s); err == nil && v > 0 {
			return v
		}
	}
	return 16
}

// CollectRaces turns the race detector's log files (GORACE log_path=$VERIF_RACE_LOG)
// into violations: one signature per pair of outermost in-repo frames. Reports
// whose both stacks lie outside github.com/openconfig/gribigo are counted only.
func (r *Run) CollectRaces() {
	base := os.Getenv("VERIF_RACE_LOG")
	if base == "" {
		return
	}
	files, _ := filepath.Glob(base + "*")
	total, inRepo := 0, 0
	sigs := map[string]string{}
	for _, f := range files {
		b, err := os.ReadFile(f)
		if err != nil {
			continue
		}
		for _, blk := range strings.Split(string(b), "==================") {
			if !strings.Contains(blk, "WARNING: DATA RACE") {
				continue
			}
			total++
			sig := raceSig(blk)
			if sig == "" {
				continue
			}
			inRepo++
			if _, ok := sigs[sig]; !ok {
				sigs[sig] = blk
			}
		}
	}
	r.Set("race_reports_total", total)
	r.Set("race_reports_in_repo", inRepo)
	r.Set("race_report_signatures", len(sigs))
	for sig, blk := range sigs {
		if len(blk) > 6000 {
			blk = blk[:6000]
		}
		r.Violation("race", "data-race:"+sig, "the race detector reported a data race in the code under test", map[string]any{"report": strings.Split(blk, "\n")})
	}
}

// raceSig extracts, for the two accesses of a report, the innermost frame that
// belongs to the repository (not the harness), and joins them in sorted order.
func raceSig(blk string) string {
	var accs []string
	sections := strings.Split(blk, "\n\n")
	for _, s := range sections {
		s = strings.TrimSpace(s)
		if !(strings.HasPrefix(s, "Write at") || strings.HasPrefix(s, "Read at") || strings.HasPrefix(s, "Previous write at") || strings.HasPrefix(s, "Previous read at") || strings.HasPrefix(s, "WARNING: DATA RACE")) {
			continue
		}
		for _, l := range strings.Split(s, "\n") {
			l = strings.TrimSpace(l)
			if strings.HasPrefix(l, "github.com/openconfig/gribigo/") {
				fn := strings.TrimPrefix(l, "github.com/openconfig/gribigo/")
				if i := strings.Index(fn, "("); i > 0 && !strings.HasPrefix(fn[i:], "(*") {
					fn = fn[:i]
				} else if j := strings.LastIndex(fn, "("); j > 0 {
					fn = fn[:j]
				}
				accs = append(accs, fn)
				break
			}
		}
	}
	if len(accs) == 0 {
		return ""
	}
	sort.Strings(accs)
	// dedupe
	out := accs[:1]
	for _, a := range accs[1:] {
		if a != out[len(out)-1] {
			out = append(out, a)
		}
	}
	return strings.Join(out, "~")
}
