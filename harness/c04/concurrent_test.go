package c04

import (
	"fmt"
	"sync"

	"github.com/openconfig/gribigo/server"

	aftpb "github.com/openconfig/gribi/v1/proto/gribi_aft"
	spb "github.com/openconfig/gribi/v1/proto/service"

	"verifharness/drv"
	"verifharness/ev"
	"verifharness/gen"
	"verifharness/mon"
)

// concurrentPhase: the "schedules" half of the property in its smallest form. Several
// negotiated sessions announce DIFFERENT ids at the same moment (scheduling perturbed at
// the election's yield points), round after round with rising ids. When the round is over
// the server's highest learnt id must be the highest id announced (hooked state), and of
// one operation per session - each stamped with its session's own last id - exactly the
// one of the session that announced the maximum may be programmed: an operation changes
// the RIB only on the session of the primary and with the highest id the server learnt.
func concurrentPhase(run *ev.Run) {
	n := run.Pick(150, 4000)
	y := mon.NewYielder(run.Seed+4, 2, 40)
	server.VerifSetPoint(y.Point)
	defer server.VerifSetPoint(nil)
	ev.Parallel(n, ev.Workers(), func(i int) {
		caseID := fmt.Sprintf("concurrent-%d", i)
		if !run.Want(caseID) {
			return
		}
		r := run.Rand(caseID)
		srv, err := drv.NewServer([]string{"VRF1"})
		if err != nil {
			run.Fatal(err.Error())
			return
		}
		nS := 2 + r.Intn(5)
		ss := make([]*drv.Session, nS)
		for k := range ss {
			ss[k] = &drv.Session{Stream: drv.OpenModify(srv), Name: fmt.Sprintf("s%d", k), DefaultNI: server.DefaultNetworkInstanceName}
			if _, err := ss[k].Params(drv.SinglePrimary(false)); err != nil {
				run.Fatal(caseID + ": negotiation: " + err.Error())
				return
			}
		}
		defer func() {
			for _, s := range ss {
				s.CloseSend()
			}
		}()
		var trace []string
		var probs []string
		hi, lo := uint64(r.Intn(2)), uint64(1+r.Intn(5))
		opID := uint64(0)
		lastIDs := make([]*spb.Uint128, nS)
		for round := 0; round < 2+r.Intn(4) && len(probs) == 0; round++ {
			// distinct ids above everything announced so far; every other round the order of the
			// ids is decided by the high word while the low words run the other way
			ids := make([]*spb.Uint128, nS)
			perm := r.Perm(nS)
			for k := range ids {
				if round%2 == 1 {
					ids[k] = &spb.Uint128{High: hi + 1 + uint64(perm[k]), Low: lo + uint64(nS-perm[k])}
				} else {
					ids[k] = &spb.Uint128{High: hi, Low: lo + 1 + uint64(perm[k])}
				}
			}
			maxK := 0
			for k := range ids {
				if mon.Big128(ids[k]).Cmp(mon.Big128(ids[maxK])) > 0 {
					maxK = k
				}
			}
			hi, lo = ids[maxK].High, ids[maxK].Low
			copy(lastIDs, ids)
			reps := make([]*spb.Uint128, nS)
			errs := make([]error, nS)
			start := make(chan struct{})
			var wg sync.WaitGroup
			for k := range ss {
				wg.Add(1)
				go func(k int) {
					defer wg.Done()
					<-start
					reps[k], errs[k] = ss[k].Elect(ids[k])
				}(k)
			}
			close(start)
			wg.Wait()
			line := fmt.Sprintf("round %d:", round)
			for k := range ss {
				line += fmt.Sprintf(" %s announces %s -> %s;", ss[k].Name, mon.IDStr(ids[k]), mon.IDStr(reps[k]))
			}
			trace = append(trace, line)
			run.Count("concurrent_announcements", int64(nS))
			for k := range ss {
				if errs[k] == drv.ErrWatchdog {
					probs = append(probs, "INCONCLUSIVE|an announcement was not answered within the watchdog")
					continue
				}
				if errs[k] != nil {
					probs = append(probs, fmt.Sprintf("announcement-rejected-under-concurrency|%s announcing %s: %v", ss[k].Name, mon.IDStr(ids[k]), errs[k]))
					continue
				}
				if mon.Big128(reps[k]).Cmp(mon.Big128(ids[k])) < 0 || mon.Big128(reps[k]).Cmp(mon.Big128(ids[maxK])) > 0 {
					probs = append(probs, fmt.Sprintf("election-response-not-running-max|%s announced %s and was told %s (the round's maximum is %s)", ss[k].Name, mon.IDStr(ids[k]), mon.IDStr(reps[k]), mon.IDStr(ids[maxK])))
				}
			}
			if len(probs) > 0 {
				break
			}
			if got, _ := srv.VerifElection(); mon.IDStr(got) != mon.IDStr(ids[maxK]) {
				probs = append(probs, fmt.Sprintf("election-id-state|after the concurrent announcements the server's highest learnt id is %s, the highest id announced is %s", mon.IDStr(got), mon.IDStr(ids[maxK])))
				break
			}
			// one operation per session, stamped with its own last id
			for k := range ss {
				opID++
				op := &spb.AFTOperation{Id: opID, NetworkInstance: server.DefaultNetworkInstanceName, Op: spb.AFTOperation_ADD, ElectionId: ids[k],
					Entry: &spb.AFTOperation_NextHop{NextHop: &aftpb.Afts_NextHopKey{Index: 1 + uint64(k), NextHop: &aftpb.Afts_NextHop{IpAddress: gen.S("192.0.2.1")}}}}
				res := ss[k].Ops([]*spb.AFTOperation{op}, ids[k])
				if res.RPCErr == drv.ErrWatchdog {
					probs = append(probs, "INCONCLUSIVE|an operation was not answered within the watchdog")
					break
				}
				programmed := false
				for _, ar := range res.Results {
					programmed = programmed || (ar.GetId() == opID && ar.GetStatus() == spb.AFTResult_RIB_PROGRAMMED)
				}
				trace = append(trace, fmt.Sprintf("  %s operates stamped %s -> programmed=%v (rpcErr=%v)", ss[k].Name, mon.IDStr(ids[k]), programmed, res.RPCErr))
				switch {
				case programmed && k != maxK:
					probs = append(probs, fmt.Sprintf("unauthorised-operation-acknowledged:not-the-primary|%s (last id %s) had an operation programmed although %s announced the maximum %s", ss[k].Name, mon.IDStr(ids[k]), ss[maxK].Name, mon.IDStr(ids[maxK])))
				case !programmed && k == maxK:
					probs = append(probs, fmt.Sprintf("rejected-but-must-succeed:primary|%s announced the maximum %s but its operation was not programmed (%v, rpcErr=%v)", ss[k].Name, mon.IDStr(ids[k]), res.Results, res.RPCErr))
				}
				run.Count("operations", 1)
			}
		}
		// overlap: the primary keeps sending single-operation requests while every other
		// session sends one large request stamped with the primary's id (the server's maximum,
		// but not what those sessions announced): whatever the interleaving of the requests, none
		// of the other sessions' operations may be programmed and every one of the primary's is
		if len(probs) == 0 && i%2 == 0 {
			var maxK int
			for k := range ss {
				if k == 0 || mon.Big128(lastIDs[k]).Cmp(mon.Big128(lastIDs[maxK])) > 0 {
					maxK = k
				}
			}
			pid := lastIDs[maxK]
			var mu sync.Mutex
			var wg sync.WaitGroup
			start := make(chan struct{})
			for k := range ss {
				wg.Add(1)
				go func(k int) {
					defer wg.Done()
					<-start
					if k == maxK {
						for q := 0; q < 120; q++ {
							id := uint64(1000000 + q)
							op := &spb.AFTOperation{Id: id, NetworkInstance: "VRF1", Op: spb.AFTOperation_ADD, ElectionId: pid,
								Entry: &spb.AFTOperation_NextHop{NextHop: &aftpb.Afts_NextHopKey{Index: uint64(5000 + q), NextHop: &aftpb.Afts_NextHop{IpAddress: gen.S("192.0.2.1")}}}}
							res := ss[k].Ops([]*spb.AFTOperation{op}, pid)
							ok := false
							for _, ar := range res.Results {
								ok = ok || (ar.GetId() == id && ar.GetStatus() == spb.AFTResult_RIB_PROGRAMMED)
							}
							if !ok {
								mu.Lock()
								if res.RPCErr == drv.ErrWatchdog {
									probs = append(probs, "INCONCLUSIVE|an operation of the primary was not answered within the watchdog")
								} else {
									probs = append(probs, fmt.Sprintf("rejected-but-must-succeed:primary-while-others-operate|%s is the primary (id %s); its operation %d was answered %v (rpcErr=%v) while other sessions were sending requests", ss[k].Name, mon.IDStr(pid), id, res.Results, res.RPCErr))
								}
								mu.Unlock()
								return
							}
						}
						return
					}
					var ops []*spb.AFTOperation
					base := uint64(2000000 + 1000*k)
					for q := 0; q < 150; q++ {
						ops = append(ops, &spb.AFTOperation{Id: base + uint64(q), NetworkInstance: "VRF1", Op: spb.AFTOperation_ADD, ElectionId: pid,
							Entry: &spb.AFTOperation_NextHop{NextHop: &aftpb.Afts_NextHopKey{Index: uint64(7000 + 200*k + q), NextHop: &aftpb.Afts_NextHop{IpAddress: gen.S("192.0.2.2")}}}})
					}
					res := ss[k].Ops(ops, lastIDs[k])
					n := 0
					for _, ar := range res.Results {
						if ar.GetId() >= base && ar.GetId() < base+150 && ar.GetStatus() == spb.AFTResult_RIB_PROGRAMMED {
							n++
						}
					}
					if n > 0 {
						mu.Lock()
						probs = append(probs, fmt.Sprintf("unauthorised-operation-acknowledged:not-the-primary-while-the-primary-operates|%d of the 150 operations of %s (not the primary; stamped with the primary's id %s) were programmed while the primary was sending requests of its own", n, ss[k].Name, mon.IDStr(pid)))
						mu.Unlock()
					}
				}(k)
			}
			close(start)
			wg.Wait()
			trace = append(trace, "overlap: the primary sends 120 single-operation requests while every other session sends one request of 150 operations stamped with the primary's id")
			run.Count("overlapping_request_rounds", 1)
		}
		mon.Report(run, caseID, trace, probs)
		run.Eval(1)
		run.Distinct(caseID)
	})
	for k, v := range y.Hits() {
		run.Set("yield_point:"+k, v)
	}
}
