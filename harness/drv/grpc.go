package drv

import (
	"context"
	"io"
	"net"
	"sync"
	"time"
	"verifharness/ev"

	"google.golang.org/grpc"
	"google.golang.org/grpc/credentials/insecure"
	"google.golang.org/grpc/test/bufconn"

	spb "github.com/openconfig/gribi/v1/proto/service"
)

// GRPCServer serves a GRIBIServer implementation over an in-memory listener.
type GRPCServer struct {
	Srv *grpc.Server
	lis *bufconn.Listener

	mu    sync.Mutex
	conns []*KillableConn
}

// Serve starts a real gRPC server for impl on a bufconn listener.
func Serve(impl spb.GRIBIServer) *GRPCServer {
	g := &GRPCServer{Srv: grpc.NewServer(), lis: bufconn.Listen(1 << 16)}
	spb.RegisterGRIBIServer(g.Srv, impl)
	go g.Srv.Serve(g.lis)
	return g
}

// Stop stops the server.
func (g *GRPCServer) Stop() { g.Srv.Stop() }

// KillableConn is a net.Conn the harness can cut (transport failure).
type KillableConn struct {
	net.Conn
	once sync.Once
}

// Kill closes the underlying transport abruptly.
func (k *KillableConn) Kill() { k.once.Do(func() { k.Conn.Close() }) }

// Dial opens a new client connection (own transport) and returns it with its killable conn.
func (g *GRPCServer) Dial() (*grpc.ClientConn, func(), error) {
	var kc *KillableConn
	var mu sync.Mutex
	cc, err := grpc.NewClient("passthrough:///bufnet",
		grpc.WithContextDialer(func(ctx context.Context, _ string) (net.Conn, error) {
			c, err := g.lis.DialContext(ctx)
			if err != nil {
				return nil, err
			}
			mu.Lock()
			kc = &KillableConn{Conn: c}
			k := kc
			mu.Unlock()
			return k, nil
		}),
		grpc.WithTransportCredentials(insecure.NewCredentials()))
	if err != nil {
		return nil, nil, err
	}
	kill := func() {
		mu.Lock()
		k := kc
		mu.Unlock()
		if k != nil {
			k.Kill()
		}
	}
	return cc, kill, nil
}

// GRPCModStream is a Modify stream over real gRPC.
type GRPCModStream struct {
	CC     *grpc.ClientConn
	Kill   func()
	Cancel context.CancelFunc
	st     spb.GRIBI_ModifyClient
	ch     chan recvd
}

type recvd struct {
	r   *spb.ModifyResponse
	err error
}

// OpenModify opens a Modify RPC on its own connection.
func (g *GRPCServer) OpenModify() (*GRPCModStream, error) {
	cc, kill, err := g.Dial()
	if err != nil {
		return nil, err
	}
	ctx, cancel := context.WithCancel(context.Background())
	st, err := spb.NewGRIBIClient(cc).Modify(ctx)
	if err != nil {
		cancel()
		cc.Close()
		return nil, err
	}
	m := &GRPCModStream{CC: cc, Kill: kill, Cancel: cancel, st: st, ch: make(chan recvd, 1024)}
	go func() {
		for {
			r, err := st.Recv()
			m.ch <- recvd{r, err}
			if err != nil {
				close(m.ch)
				return
			}
		}
	}()
	return m, nil
}

func (m *GRPCModStream) Write(r *spb.ModifyRequest) bool { return m.st.Send(r) == nil }

func (m *GRPCModStream) Read() (*spb.ModifyResponse, error) {
	select {
	case x, ok := <-m.ch:
		if !ok {
			return nil, io.EOF
		}
		return x.r, x.err
	case <-time.After(Watchdog):
		ev.NoteWatchdog("a Modify stream produced no response")
		return nil, ErrWatchdog
	}
}

func (m *GRPCModStream) CloseSend() { m.st.CloseSend() }

// AwaitEnd reads until the RPC ends and returns its status (nil = OK).
func (m *GRPCModStream) AwaitEnd() (error, bool) {
	for {
		_, err := m.Read()
		switch {
		case err == ErrWatchdog:
			return nil, false
		case err == io.EOF:
			return nil, true
		case err != nil:
			return err, true
		}
	}
}

// Close releases the connection.
func (m *GRPCModStream) Close() {
	m.Cancel()
	m.CC.Close()
}

// GRPCGet performs a Get over a fresh connection; stopAfter > 0 cancels the RPC
// after that many responses were read (abandoned Get).
func (g *GRPCServer) GRPCGet(req *spb.GetRequest, stopAfter int, kill bool) ([]*spb.GetResponse, error, error) {
	cc, killFn, err := g.Dial()
	if err != nil {
		return nil, err, nil
	}
	defer cc.Close()
	ctx, cancel := context.WithCancel(context.Background())
	defer cancel()
	st, err := spb.NewGRIBIClient(cc).Get(ctx, req)
	if err != nil {
		return nil, err, nil
	}
	type res struct {
		out []*spb.GetResponse
		err error
	}
	done := make(chan res, 1)
	go func() {
		var out []*spb.GetResponse
		for {
			r, err := st.Recv()
			if err == io.EOF {
				done <- res{out, nil}
				return
			}
			if err != nil {
				done <- res{out, err}
				return
			}
			out = append(out, r)
			if stopAfter > 0 && len(out) >= stopAfter {
				if kill {
					killFn()
				} else {
					cancel()
				}
				done <- res{out, context.Canceled}
				return
			}
		}
	}()
	select {
	case x := <-done:
		return x.out, x.err, nil
	case <-time.After(Watchdog):
		ev.NoteWatchdog("a Get / Flush RPC did not return")
		return nil, nil, ErrWatchdog
	}
}

// GRPCFlush performs a Flush over a fresh connection.
func (g *GRPCServer) GRPCFlush(req *spb.FlushRequest) (*spb.FlushResponse, error, error) {
	cc, _, err := g.Dial()
	if err != nil {
		return nil, err, nil
	}
	defer cc.Close()
	ctx, cancel := context.WithTimeout(context.Background(), Watchdog)
	defer cancel()
	r, err := spb.NewGRIBIClient(cc).Flush(ctx, req)
	if ctx.Err() != nil {
		ev.NoteWatchdog("a Get / Flush RPC did not return")
		return nil, nil, ErrWatchdog
	}
	return r, err, nil
}
