// C11: concurrent RPCs: no race, deadlock or crash; the quiescent state is consistent.
package c11

import (
	"github.com/golang/glog"

	"encoding/binary"
	"fmt"
	"math/rand"
	"sort"
	"strings"
	"sync"
	"sync/atomic"
	"testing"
	"time"

	"github.com/anishathalye/porcupine"
	"github.com/openconfig/gribigo/rib"
	"github.com/openconfig/gribigo/server"
	"google.golang.org/grpc/codes"
	"google.golang.org/grpc/status"

	aftpb "github.com/openconfig/gribi/v1/proto/gribi_aft"
	spb "github.com/openconfig/gribi/v1/proto/service"
	wpb "github.com/openconfig/ygot/proto/ywrapper"

	"verifharness/canon"
	"verifharness/child"
	"verifharness/drv"
	"verifharness/ev"
	"verifharness/gen"
	"verifharness/mon"
)

const runsPerChild = 5

func TestCheck(t *testing.T) {
	if _, ok := child.IsChild(); ok {
		t.Skip("child process")
	}
	run := ev.Start(t, "C11", "exploration")
	nRuns := run.Pick(60, 1500)
	nChild := (nRuns + runsPerChild - 1) / runsPerChild
	// the race detector multiplies CPU cost: few children at a time, each saturating cores
	ev.Parallel(nChild, 3, func(b int) {
		caseID := fmt.Sprintf("child-%d", b)
		if run.OnlyCase != "" && !strings.HasPrefix(run.OnlyCase, caseID+"/") && run.OnlyCase != caseID {
			return
		}
		o := child.Run(child.Spec{Prop: "C11", Tier: run.Tier, Seed: run.Seed, Case: run.OnlyCase, Arg: fmt.Sprint(b)}, 40*time.Minute)
		for _, rec := range o.Records {
			switch rec["kind"] {
			case "problem":
				run.Violation(fmt.Sprint(rec["case"]), fmt.Sprint(rec["sig"]), fmt.Sprint(rec["text"]), rec["detail"])
			case "inconclusive":
				run.Inconclusive(fmt.Sprint(rec["case"]) + ": " + fmt.Sprint(rec["text"]))
			case "stats":
				for k, v := range rec {
					if f, ok := v.(float64); ok {
						run.Count(k, int64(f))
					}
				}
			case "run":
				run.Eval(1)
				run.Distinct(fmt.Sprint(rec["case"]) + fmt.Sprint(rec["signature"]))
				for k, v := range rec {
					if f, ok := v.(float64); ok {
						run.Count(k, int64(f))
					}
				}
				run.Seen("interleaving_signatures", fmt.Sprint(rec["signature"]))
				if hp, ok := rec["yield_points"].(map[string]any); ok {
					for k, v := range hp {
						run.Count("yield_point:"+k, int64(v.(float64)))
					}
				}
				if b == 0 {
					run.Sample(map[string]any{"case": rec["case"], "sessions": rec["sessions"], "readers": rec["readers"], "flushers": rec["flushers"], "history_head": rec["history_head"]})
				}
			}
		}
		switch {
		case o.Killed:
			run.Inconclusive(caseID + " exceeded the wall-clock watchdog; in flight: " + o.LastLog)
		case !o.ExitOK:
			sig := "crash:" + o.PanicSig
			if o.PanicSig == "" {
				if strings.Contains(o.Stdout, "race detected during execution of test") {
					// with halt_on_error=0 the testing package still fails the child at exit: not a
					// crash; the reports themselves are collected from the race log below
					return
				}
				sig = "crash:child-exited-abnormally"
			}
			run.Violation(caseID, sig, "the server process died under concurrent load: "+strings.SplitN(o.Stderr, "\n", 2)[0], map[string]any{"in_flight": o.LastLog, "stderr_head": o.Stderr})
		}
	})
	run.CollectRaces()
	run.Assume("sessions write disjoint key sets, so the per-key history has a single writer plus Get readers and Flush callers; a FAILED answer is modelled as 'no effect' (whether the failure itself was justified is C04's question)")
	run.Finish("child processes built with -race: 2-16 Modify sessions (own direct stream or own gRPC connection each) looping negotiate -> announce rising/equal/lower ids -> batches of ADD/REPLACE/DELETE on their own keys -> occasional disconnect/reconnect (half of them in the middle of a large batch: unread, after one answer, or after the server ended the RPC on an unstamped operation with the rest of the batch behind it), with 2-4 Get readers and 0-2 override Flush callers running concurrently, scheduling perturbed at the repository's yield points. Deciding monitors: race detector (reports with a frame in the repository), per-RPC watchdog + quiescent goroutine-dump classifier (deadlock), process exit (panic), porcupine over the recorded history - per key a register with writes/deletes/flushes/reads from Get, and the announcements as a max-register - and at quiescence: hooked reference counters == referrers recounted, nothing held, reported id == maximum announced, exactly the entitled session can program. Plus, per child, scenarios with a Get whose reader has stopped part-way through one instance and a Flush of that instance queued behind it: negotiation, election, operations, Get and Flush that do not involve that instance must all be answered before the reader resumes; and scenarios on a server with resolved-entry and post-change hooks registered whose primary programs complete chains into all instances while Flushes of all instances and contents snapshots run continuously (every request answered); two writers adding the same absent prefix / label at the same moment with payloads that set different optional leaves (the installed entry is one of the two acknowledged payloads, never a mixture); an ADD re-pointing an installed entry at a group that another writer deletes at the same moment (if it was not programmed the entry is unchanged). Distinct = by run and its interleaving signature (order in which sessions first became primary)", 5, false)
}

// ---------------------------------------------------------------- child side

type kvIn struct {
	kind  string // "write" "delete" "flush" "read"
	key   string
	value string
	repl  bool
}

type recorder struct {
	mu    sync.Mutex
	start time.Time
	ops   []porcupine.Operation
	anns  []porcupine.Operation
}

func (r *recorder) now() int64 { return time.Since(r.start).Nanoseconds() }
func (r *recorder) add(client int, in kvIn, out string, call, ret int64) {
	r.mu.Lock()
	r.ops = append(r.ops, porcupine.Operation{ClientId: client, Input: in, Output: out, Call: call, Return: ret})
	r.mu.Unlock()
}

type sessKeys struct {
	ni  string
	v4  []string
	nhs []uint64
}

func keysFor(sid int, nis []string) sessKeys {
	return sessKeys{ni: nis[sid%len(nis)], v4: []string{fmt.Sprintf("10.%d.1.0/24", sid), fmt.Sprintf("10.%d.2.0/24", sid)}, nhs: []uint64{uint64(100*(sid+1) + 1), uint64(100*(sid+1) + 2)}}
}

func tag(sid int, ctr uint64) []byte {
	b := make([]byte, 8)
	binary.BigEndian.PutUint16(b, uint16(sid+1))
	binary.BigEndian.PutUint32(b[4:], uint32(ctr))
	return b
}

type problemSink struct {
	mu    sync.Mutex
	probs []string
	inc   []string
	stop  atomic.Bool
}

func (p *problemSink) add(s string) {
	p.mu.Lock()
	p.probs = append(p.probs, s)
	p.mu.Unlock()
	p.stop.Store(true)
}

func TestChild(t *testing.T) {
	sp, ok := child.IsChild()
	if !ok {
		t.Skip("not a child")
	}
	wr, err := child.NewWriter()
	if err != nil {
		t.Fatal(err)
	}
	defer wr.Close()
	drv.Watchdog = 45 * time.Second
	// logging calls are points at which the real code can be held up (format, global
	// mutex, write): the silent stand-in gives that timing back without the mutex
	glog.SetStall(func() { time.Sleep(30 * time.Microsecond) })
	var b int
	fmt.Sscanf(sp.Arg, "%d", &b)
	for k := 0; k < runsPerChild; k++ {
		caseID := fmt.Sprintf("child-%d/run-%d", b, k)
		if sp.Case != "" && sp.Case != caseID {
			continue
		}
		wr.InFlight(caseID)
		if stop := oneRun(wr, caseID, rand.New(rand.NewSource(sp.Seed*1000003+int64(b)*131+int64(k))), sp.Tier == "thorough"); stop {
			return // a watchdog fired: the stuck goroutines would only make later runs slower
		}
	}
	// the thorough tier has 25 times as many children: the scenarios keep their per-child
	// size, except that every 25th child runs two long hooks-and-flush scenarios
	nHF := 1
	longHF := sp.Tier == "thorough" && b%25 == 0
	if longHF {
		nHF = 2
	}
	for k := 0; k < nHF; k++ {
		caseID := fmt.Sprintf("child-%d/hooks-and-flush-%d", b, k)
		if sp.Case != "" && sp.Case != caseID {
			continue
		}
		wr.InFlight(caseID)
		if stop := hookFlushScenario(wr, caseID, rand.New(rand.NewSource(sp.Seed*1000081+int64(b)*139+int64(k))), longHF); stop {
			return
		}
	}
	// (in the thorough tier, with its hundreds of children, every fourth child runs these two)
	twoWriters := sp.Tier != "thorough" || b%4 == 0
	if caseID := fmt.Sprintf("child-%d/same-key-writers", b); twoWriters && (sp.Case == "" || sp.Case == caseID) {
		wr.InFlight(caseID)
		sameKeyScenario(wr, caseID, rand.New(rand.NewSource(sp.Seed*1000099+int64(b)*149)), sp.Tier == "thorough")
	}
	if caseID := fmt.Sprintf("child-%d/repoint-vs-group-delete", b); twoWriters && (sp.Case == "" || sp.Case == caseID) {
		wr.InFlight(caseID)
		replaceVsGroupDelete(wr, caseID, rand.New(rand.NewSource(sp.Seed*1000117+int64(b)*151)), sp.Tier == "thorough")
	}
	for k := 0; k < 4; k++ {
		caseID := fmt.Sprintf("child-%d/stall-%d", b, k)
		if sp.Case != "" && sp.Case != caseID {
			continue
		}
		wr.InFlight(caseID)
		if stop := stallScenario(wr, caseID, rand.New(rand.NewSource(sp.Seed*1000033+int64(b)*137+int64(k)))); stop {
			return
		}
	}
}

func oneRun(wr *child.Writer, caseID string, r *rand.Rand, thorough bool) (stop bool) {
	nis := []string{server.DefaultNetworkInstanceName, "VRF1", "VRF2"}
	srv, err := drv.NewServer(nis[1:])
	if err != nil {
		wr.Record(map[string]any{"kind": "inconclusive", "case": caseID, "text": err.Error()})
		return false
	}
	gs := drv.Serve(srv)
	defer gs.Stop()
	nSess := []int{2, 4, 8, 16}[r.Intn(4)]
	nReaders := 2 + r.Intn(3)
	nFlush := r.Intn(3)
	iters := 10 + r.Intn(30)
	sink := &problemSink{}
	rec := &recorder{start: time.Now()}

	// base content by a setup primary: next-hops 1..3 and group 1 in every NI
	{
		st := drv.OpenModify(srv)
		s := &drv.Session{Stream: st, Name: "setup", DefaultNI: nis[0]}
		s.Params(drv.SinglePrimary(false))
		id := &spb.Uint128{Low: 1}
		s.Elect(id)
		var ops []*spb.AFTOperation
		oid := uint64(1)
		for _, ni := range nis {
			for nh := uint64(1); nh <= 3; nh++ {
				ops = append(ops, &spb.AFTOperation{Id: oid, NetworkInstance: ni, Op: spb.AFTOperation_ADD, ElectionId: id, Entry: &spb.AFTOperation_NextHop{NextHop: &aftpb.Afts_NextHopKey{Index: nh, NextHop: &aftpb.Afts_NextHop{IpAddress: gen.S("192.0.2.1")}}}})
				oid++
			}
			ops = append(ops, &spb.AFTOperation{Id: oid, NetworkInstance: ni, Op: spb.AFTOperation_ADD, ElectionId: id, Entry: &spb.AFTOperation_NextHopGroup{NextHopGroup: &aftpb.Afts_NextHopGroupKey{Id: 1, NextHopGroup: &aftpb.Afts_NextHopGroup{NextHop: []*aftpb.Afts_NextHopGroup_NextHopKey{{Index: 1, NextHop: &aftpb.Afts_NextHopGroup_NextHop{Weight: gen.U(1)}}, {Index: 2, NextHop: &aftpb.Afts_NextHopGroup_NextHop{Weight: gen.U(1)}}}}}}})
			oid++
		}
		s.Ops(ops, id)
		s.CloseSend()
		st.WaitEnd()
	}

	y := mon.NewYielder(r.Int63(), uint64(3+r.Intn(12)), 200)
	server.VerifSetPoint(y.Point)
	rib.VerifSetPoint(y.Point)
	defer server.VerifSetPoint(nil)
	defer rib.VerifSetPoint(nil)

	var idCtr atomic.Uint64
	idCtr.Store(10)
	var maxMu sync.Mutex
	maxAnn := &spb.Uint128{Low: 1}
	noteAnn := func(id *spb.Uint128) {
		maxMu.Lock()
		if mon.Big128(id).Cmp(mon.Big128(maxAnn)) > 0 {
			maxAnn = id
		}
		maxMu.Unlock()
	}
	var primOrder []int
	var primMu sync.Mutex
	var flushOverlapped atomic.Bool
	var writersActive atomic.Int32
	var nOps, nAcked, nFailed, nGets, nFlushes, nReconnects, nAnn, nNegRetries, nHeld, nMidBatch atomic.Int64

	var watchdogFired atomic.Bool
	watchdog := func(what string) {
		watchdogFired.Store(true)
		// stop the other workers, then see whether the server is permanently blocked
		sink.stop.Store(true)
		time.Sleep(2 * time.Second)
		if ok, desc := mon.ProvenBlock("gribigo/", time.Second); ok {
			sink.add(fmt.Sprintf("deadlock:%s|%s never completed and the server is permanently blocked: %s", mon.BlockSignature(desc), what, desc))
		} else {
			sink.mu.Lock()
			sink.inc = append(sink.inc, what+": watchdog fired without a proven block ("+desc+")")
			sink.mu.Unlock()
		}
	}

	type lastState struct {
		sess []*drv.Session
		last []*spb.Uint128
	}
	final := lastState{sess: make([]*drv.Session, nSess), last: make([]*spb.Uint128, nSess)}

	// seeds are drawn before the goroutines start: r itself is not safe for concurrent use
	seeds := make([]int64, nSess+nReaders+nFlush)
	for i := range seeds {
		seeds[i] = r.Int63()
	}
	var wg sync.WaitGroup
	for sid := 0; sid < nSess; sid++ {
		wg.Add(1)
		go func(sid int) {
			defer wg.Done()
			rr := rand.New(rand.NewSource(seeds[sid]))
			ks := keysFor(sid, nis)
			var ctr uint64
			opID := uint64(1000 * (sid + 1))
			useGRPC := sid%2 == 1
			var s *drv.Session
			var closeFn func()
			var last *spb.Uint128
			connect := func() bool {
				attempt := 0
			again:
				if useGRPC {
					st, err := gs.OpenModify()
					if err != nil {
						sink.add("harness|" + err.Error())
						return false
					}
					s = &drv.Session{Stream: st, Name: fmt.Sprintf("s%d", sid), DefaultNI: nis[0]}
					closeFn = st.Close
				} else {
					st := drv.OpenModify(srv)
					s = &drv.Session{Stream: st, Name: fmt.Sprintf("s%d", sid), DefaultNI: nis[0]}
					closeFn = func() {}
				}
				if _, err := s.Params(drv.SinglePrimary(false)); err != nil {
					if err == drv.ErrWatchdog {
						watchdog(fmt.Sprintf("s%d negotiation", sid))
						return false
					}
					// a session that is connected but has not negotiated yet counts as one with
					// default parameters and keeps newcomers out (DESIGN 4.20): concurrent connects
					// can reject each other. Bounded retries; anything else is a violation.
					if status.Code(err) == codes.FailedPrecondition && attempt < 400 {
						closeFn()
						nNegRetries.Add(1)
						time.Sleep(time.Duration(50+rr.Intn(400)) * time.Microsecond)
						attempt++
						goto again
					}
					sink.add(fmt.Sprintf("negotiation-rejected-under-concurrency|s%d after %d attempts: %v", sid, attempt+1, err))
					return false
				}
				last = nil
				return true
			}
			announce := func() bool {
				var id *spb.Uint128
				switch rr.Intn(6) {
				case 0:
					maxMu.Lock()
					id = &spb.Uint128{High: maxAnn.High, Low: maxAnn.Low} // tie with the current maximum
					maxMu.Unlock()
				case 1:
					id = &spb.Uint128{Low: 1 + uint64(rr.Intn(5))} // lower
				default:
					id = &spb.Uint128{High: uint64(rr.Intn(2)), Low: idCtr.Add(1)}
				}
				noteAnn(id)
				call := rec.now()
				rep, err := s.Elect(id)
				ret := rec.now()
				if err != nil {
					if err == drv.ErrWatchdog {
						watchdog(fmt.Sprintf("s%d election", sid))
					} else {
						sink.add(fmt.Sprintf("announcement-rejected-under-concurrency|s%d announcing %s: %v", sid, mon.IDStr(id), err))
					}
					return false
				}
				nAnn.Add(1)
				last = id
				rec.mu.Lock()
				rec.anns = append(rec.anns, porcupine.Operation{ClientId: sid, Input: [2]uint64{id.High, id.Low}, Output: [2]uint64{rep.High, rep.Low}, Call: call, Return: ret})
				rec.mu.Unlock()
				if rep.High == id.High && rep.Low == id.Low {
					primMu.Lock()
					if len(primOrder) == 0 || primOrder[len(primOrder)-1] != sid {
						primOrder = append(primOrder, sid)
					}
					primMu.Unlock()
				}
				return true
			}
			if !connect() || !announce() {
				return
			}
			writersActive.Add(1)
			defer writersActive.Add(-1)
			for it := 0; it < iters && !sink.stop.Load(); it++ {
				// a batch on the session's own keys
				n := 1 + rr.Intn(5)
				var ops []*spb.AFTOperation
				var ins []kvIn
				for k := 0; k < n; k++ {
					opID++
					ctr++
					kind := []spb.AFTOperation_Operation{spb.AFTOperation_ADD, spb.AFTOperation_ADD, spb.AFTOperation_REPLACE, spb.AFTOperation_DELETE}[rr.Intn(4)]
					op := &spb.AFTOperation{Id: opID, NetworkInstance: ks.ni, Op: kind, ElectionId: last}
					var in kvIn
					if nFlush == 0 && rr.Intn(2) == 0 {
						// (entries that reference the base group are used only when nothing flushes it away)
						pfx := ks.v4[rr.Intn(len(ks.v4))]
						e := &aftpb.Afts_Ipv4EntryKey{Prefix: pfx, Ipv4Entry: &aftpb.Afts_Ipv4Entry{NextHopGroup: gen.U(1), EntryMetadata: &wpb.BytesValue{Value: tag(sid, ctr)}}}
						op.Entry = &spb.AFTOperation_Ipv4{Ipv4: e}
						in = kvIn{key: ks.ni + "/ipv4:" + pfx, value: canon.Payload(e.Ipv4Entry)}
					} else {
						idx := ks.nhs[rr.Intn(len(ks.nhs))]
						e := &aftpb.Afts_NextHopKey{Index: idx, NextHop: &aftpb.Afts_NextHop{VniLabel: gen.U(ctr), IpAddress: gen.S("198.51.100.7")}}
						op.Entry = &spb.AFTOperation_NextHop{NextHop: e}
						in = kvIn{key: fmt.Sprintf("%s/nh:%d", ks.ni, idx), value: canon.Payload(e.NextHop)}
					}
					switch kind {
					case spb.AFTOperation_DELETE:
						in.kind = "delete"
					case spb.AFTOperation_REPLACE:
						in.kind, in.repl = "write", true
					default:
						in.kind = "write"
					}
					ops = append(ops, op)
					ins = append(ins, in)
				}
				call := rec.now()
				res := s.Ops(ops, last)
				ret := rec.now()
				nOps.Add(int64(n))
				if res.RPCErr == drv.ErrWatchdog {
					watchdog(fmt.Sprintf("s%d operations", sid))
					return
				}
				per := map[uint64][]spb.AFTResult_Status{}
				for _, ar := range res.Results {
					per[ar.GetId()] = append(per[ar.GetId()], ar.GetStatus())
				}
				for id := range per {
					if id < uint64(1000*(sid+1)) || id >= uint64(1000*(sid+2)) {
						sink.add(fmt.Sprintf("result-for-operation-not-sent-on-this-stream|s%d received a result for operation %d", sid, id))
					}
				}
				if res.RPCErr != nil {
					sink.add(fmt.Sprintf("rpc-ended-under-concurrency|s%d: %v", sid, res.RPCErr))
					return
				}
				for k, op := range ops {
					sts := per[op.Id]
					switch {
					case len(sts) == 1 && sts[0] == spb.AFTResult_RIB_PROGRAMMED:
						nAcked.Add(1)
						rec.add(sid, ins[k], "ok", call, ret)
					case len(sts) == 1 && sts[0] == spb.AFTResult_FAILED:
						nFailed.Add(1)
					default:
						sink.add(fmt.Sprintf("operation-not-answered-exactly-once|s%d operation %d answered %v", sid, op.Id, sts))
					}
				}
				switch rr.Intn(10) {
				case 0:
					// drop and reconnect - half of the time in the MIDDLE of a batch: a request
					// with many operations on a scratch key (not part of the checked history)
					// is written and the session goes away without reading the answers, after
					// reading one, or after the server itself ended the RPC on an operation
					// that carries no election id while the rest of the batch is still queued
					// behind it. Whatever is applied of it, the server must survive.
					if rr.Intn(2) == 0 {
						var batch []*spb.AFTOperation
						nb := 10 + rr.Intn(40)
						variant := rr.Intn(3)
						for k := 0; k < nb; k++ {
							opID++
							op := &spb.AFTOperation{Id: opID, NetworkInstance: ks.ni, Op: spb.AFTOperation_ADD, ElectionId: last,
								Entry: &spb.AFTOperation_NextHop{NextHop: &aftpb.Afts_NextHopKey{Index: uint64(9000 + sid), NextHop: &aftpb.Afts_NextHop{IpAddress: gen.S("198.51.100.9"), VniLabel: gen.U(uint64(k + 1))}}}}
							if variant == 2 && k == 2 {
								op.ElectionId = nil
							}
							batch = append(batch, op)
						}
						if s.Write(&spb.ModifyRequest{Operation: batch}) && variant >= 1 {
							if _, err := s.Read(); err == drv.ErrWatchdog {
								watchdog(fmt.Sprintf("s%d first answer of a large batch", sid))
								return
							}
						}
						nMidBatch.Add(1)
					} else if rr.Intn(2) == 0 {
						s.CloseSend()
					}
					closeFn()
					if st, ok := s.Stream.(*drv.ModStream); ok {
						st.Abort(status.Error(codes.Canceled, "context canceled"))
					}
					nReconnects.Add(1)
					if !connect() || !announce() {
						return
					}
				case 1, 2, 3:
					if !announce() {
						return
					}
				}
			}
			final.sess[sid], final.last[sid] = s, last
		}(sid)
	}
	// readers
	universe := map[string][]string{} // ni -> keys
	for sid := 0; sid < nSess; sid++ {
		ks := keysFor(sid, nis)
		for _, p := range ks.v4 {
			universe[ks.ni] = append(universe[ks.ni], ks.ni+"/ipv4:"+p)
		}
		for _, n := range ks.nhs {
			universe[ks.ni] = append(universe[ks.ni], fmt.Sprintf("%s/nh:%d", ks.ni, n))
		}
	}
	readOnce := func(client int, rr *rand.Rand, viaGRPC bool) bool {
		ni := nis[rr.Intn(len(nis))]
		req := &spb.GetRequest{NetworkInstance: &spb.GetRequest_Name{Name: ni}, Aft: spb.AFTType_ALL}
		call := rec.now()
		var resps []*spb.GetResponse
		var err, wd error
		if viaGRPC {
			resps, err, wd = gs.GRPCGet(req, 0, false)
		} else {
			resps, err, wd = drv.Get(srv, req, 0)
		}
		ret := rec.now()
		if wd != nil {
			watchdog("Get(" + ni + ")")
			return false
		}
		if err != nil {
			sink.add(fmt.Sprintf("get-error-under-concurrency:%s|Get(%s): %v", status.Code(err), ni, err))
			return false
		}
		nGets.Add(1)
		got, dups := canon.FromGet(resps)
		for _, d := range dups {
			sink.add("get-duplicate-under-concurrency|" + d)
		}
		for _, key := range universe[ni] {
			kk := strings.SplitN(key, "/", 2)[1]
			tk := strings.SplitN(kk, ":", 2)
			var ck canon.Key
			if tk[0] == "ipv4" {
				ck = canon.Key{T: canon.V4, K: tk[1]}
			} else {
				ck = canon.Key{T: canon.NH, K: tk[1]}
			}
			v, ok := got[ni][ck]
			out := "absent"
			if ok {
				out = v
			}
			rec.add(client, kvIn{kind: "read", key: key}, out, call, ret)
		}
		return true
	}
	stopAux := make(chan struct{})
	var aux sync.WaitGroup
	for k := 0; k < nReaders; k++ {
		aux.Add(1)
		go func(k int) {
			defer aux.Done()
			rr := rand.New(rand.NewSource(seeds[nSess+k]))
			for {
				select {
				case <-stopAux:
					return
				default:
				}
				if sink.stop.Load() || !readOnce(1000+k, rr, k%2 == 1) {
					return
				}
				time.Sleep(time.Duration(rr.Intn(400)) * time.Microsecond)
			}
		}(k)
	}
	for k := 0; k < nFlush; k++ {
		aux.Add(1)
		go func(k int) {
			defer aux.Done()
			rr := rand.New(rand.NewSource(seeds[nSess+nReaders+k]))
			for {
				select {
				case <-stopAux:
					return
				case <-time.After(time.Duration(2+rr.Intn(15)) * time.Millisecond):
				}
				if sink.stop.Load() {
					return
				}
				req := &spb.FlushRequest{Election: &spb.FlushRequest_Override{Override: &spb.Empty{}}}
				if rr.Intn(2) == 0 {
					// an id above anything the sessions announce: authorised, and it makes the
					// flush path read the election state that the sessions are writing
					req.Election = &spb.FlushRequest_Id{Id: &spb.Uint128{High: 1 << 40}}
				}
				var targets []string
				if rr.Intn(3) == 0 {
					req.NetworkInstance = &spb.FlushRequest_All{All: &spb.Empty{}}
					targets = nis
				} else {
					ni := nis[1+rr.Intn(2)] // never the instance... any VRF; base content there goes too
					req.NetworkInstance = &spb.FlushRequest_Name{Name: ni}
					targets = []string{ni}
				}
				if writersActive.Load() > 0 {
					flushOverlapped.Store(true)
				}
				call := rec.now()
				var resp *spb.FlushResponse
				var err, wd error
				if k%2 == 0 {
					resp, err, wd = drv.Flush(srv, req)
				} else {
					resp, err, wd = gs.GRPCFlush(req)
				}
				ret := rec.now()
				if wd != nil {
					watchdog("Flush")
					return
				}
				if err != nil || resp.GetResult() != spb.FlushResponse_OK {
					sink.add(fmt.Sprintf("flush-error-under-concurrency:%s|Flush(%v): %v %v", status.Code(err), targets, resp, err))
					return
				}
				nFlushes.Add(1)
				for _, ni := range targets {
					for _, key := range universe[ni] {
						rec.add(2000+k, kvIn{kind: "flush", key: key}, "ok", call, ret)
					}
				}
			}
		}(k)
	}
	wg.Wait()
	close(stopAux)
	aux.Wait()
	server.VerifSetPoint(nil)
	rib.VerifSetPoint(nil)

	keyHist := map[string]any{}
	sink.mu.Lock()
	probs := append([]string{}, sink.probs...)
	incs := append([]string{}, sink.inc...)
	sink.mu.Unlock()

	if len(probs) == 0 && len(incs) == 0 {
		// quiescent checks -------------------------------------------------------
		// a final read of everything enters the history
		rrr := rand.New(rand.NewSource(1))
		for range nis {
			// read every NI once
		}
		for i := range nis {
			_ = i
		}
		for _, ni := range nis {
			req := &spb.GetRequest{NetworkInstance: &spb.GetRequest_Name{Name: ni}, Aft: spb.AFTType_ALL}
			call := rec.now()
			resps, err, wd := drv.Get(srv, req, 0)
			ret := rec.now()
			if wd != nil || err != nil {
				probs = append(probs, fmt.Sprintf("final-get-failed|%v %v", err, wd))
				continue
			}
			got, _ := canon.FromGet(resps)
			for _, key := range universe[ni] {
				kk := strings.SplitN(key, "/", 2)[1]
				tk := strings.SplitN(kk, ":", 2)
				ck := canon.Key{T: canon.NH, K: tk[1]}
				if tk[0] == "ipv4" {
					ck = canon.Key{T: canon.V4, K: tk[1]}
				}
				out := "absent"
				if v, ok := got[ni][ck]; ok {
					out = v
				}
				rec.add(3000, kvIn{kind: "read", key: key}, out, call, ret)
			}
		}
		_ = rrr
		// hooked invariants: nothing held is resolvable (nothing should be held at all), counters == recount
		x := &mon.RIBMon{R: srv.VerifRIB()}
		rc, _ := srv.VerifRIB().RIBContents()
		cont := canon.FromYgot(rc)
		refs := map[string]int{}
		for ni, m := range cont {
			for k, v := range m {
				_ = v
				if k.T == canon.V4 {
					refs[ni+"|nhg:1"]++ // every generated entry points at group 1 of its own NI
				}
				if k.T == canon.NHG {
					refs[ni+"|nh:1"]++
					refs[ni+"|nh:2"]++
				}
			}
		}
		for ni, c := range x.R.VerifRefCounts() {
			for id, n := range c.NextHopGroup {
				if int(n) != refs[fmt.Sprintf("%s|nhg:%d", ni, id)] {
					probs = append(probs, fmt.Sprintf("refcount-drift-under-concurrency:nhg|%s group %d: counter %d, referrers %d", ni, id, n, refs[fmt.Sprintf("%s|nhg:%d", ni, id)]))
				}
			}
			for id, n := range c.NextHop {
				if int(n) != refs[fmt.Sprintf("%s|nh:%d", ni, id)] {
					probs = append(probs, fmt.Sprintf("refcount-drift-under-concurrency:nh|%s next-hop %d: counter %d, referrers %d", ni, id, n, refs[fmt.Sprintf("%s|nh:%d", ni, id)]))
				}
			}
		}
		// election: reported id == maximum announced; exactly the entitled session programs
		st := drv.OpenModify(srv)
		ps := &drv.Session{Stream: st, Name: "probe", DefaultNI: nis[0]}
		if _, err := ps.Params(drv.SinglePrimary(false)); err != nil {
			probs = append(probs, fmt.Sprintf("probe-negotiation-rejected|%v", err))
		} else if rep, err := ps.Elect(&spb.Uint128{Low: 1}); err != nil {
			probs = append(probs, fmt.Sprintf("probe-election-rejected|%v", err))
		} else if rep.High != maxAnn.High || rep.Low != maxAnn.Low {
			probs = append(probs, fmt.Sprintf("quiescent-id-not-max|server reports %s, maximum announced %s", mon.IDStr(rep), mon.IDStr(maxAnn)))
		}
		ps.CloseSend()
		accepted := 0
		for sid, s := range final.sess {
			if s == nil || final.last[sid] == nil {
				continue
			}
			op := &spb.AFTOperation{Id: uint64(1000*(sid+1) + 999), NetworkInstance: nis[0], Op: spb.AFTOperation_DELETE, ElectionId: final.last[sid], Entry: &spb.AFTOperation_NextHop{NextHop: &aftpb.Afts_NextHopKey{Index: 999999}}}
			res := s.Ops([]*spb.AFTOperation{op}, final.last[sid])
			for _, ar := range res.Results {
				if ar.GetId() == op.Id && ar.GetStatus() == spb.AFTResult_RIB_PROGRAMMED {
					accepted++
					if final.last[sid].High != maxAnn.High || final.last[sid].Low != maxAnn.Low {
						probs = append(probs, fmt.Sprintf("non-primary-operation-accepted|s%d (last id %s) is served although the maximum is %s", sid, mon.IDStr(final.last[sid]), mon.IDStr(maxAnn)))
					}
				}
			}
		}
		if accepted > 1 {
			probs = append(probs, fmt.Sprintf("two-primaries|%d sessions are served at quiescence", accepted))
		}

		// porcupine: per-key registers
		strictReplace := nFlush == 0
		model := porcupine.Model{
			Partition: func(h []porcupine.Operation) [][]porcupine.Operation {
				m := map[string][]porcupine.Operation{}
				for _, o := range h {
					k := o.Input.(kvIn).key
					m[k] = append(m[k], o)
				}
				keys := make([]string, 0, len(m))
				for k := range m {
					keys = append(keys, k)
				}
				sort.Strings(keys)
				out := make([][]porcupine.Operation, 0, len(m))
				for _, k := range keys {
					out = append(out, m[k])
				}
				return out
			},
			Init: func() any { return "absent" },
			Step: func(st, in, out any) (bool, any) {
				i := in.(kvIn)
				switch i.kind {
				case "write":
					// An acknowledged REPLACE needs an existing entry. Only demanded when no Flush can
					// overlap: the property exempts contents under an overlapping Flush (a REPLACE
					// whose existence check precedes the Flush and whose install follows it re-creates
					// the entry - noted in DESIGN.md as outside C11).
					if i.repl && strictReplace && st.(string) == "absent" {
						return false, st
					}
					return true, i.value
				case "delete", "flush":
					return true, "absent"
				default:
					return out.(string) == st.(string), st
				}
			},
			DescribeOperation: func(in, out any) string {
				i := in.(kvIn)
				return fmt.Sprintf("%s(%s)%s->%v", i.kind, i.key, map[bool]string{true: "!", false: ""}[i.repl], out)
			},
		}
		res, _ := porcupine.CheckOperationsVerbose(model, rec.ops, 3*time.Minute)
		switch res {
		case porcupine.Unknown:
			incs = append(incs, "porcupine timed out on the key history")
		case porcupine.Illegal:
			// find the offending key and write its sub-history out
			single := model
			single.Partition = nil
			for _, part := range model.Partition(rec.ops) {
				if r1, _ := porcupine.CheckOperationsVerbose(single, part, time.Minute); r1 == porcupine.Illegal {
					sort.Slice(part, func(i, j int) bool { return part[i].Call < part[j].Call })
					var hist []string
					for _, o := range part {
						in := o.Input.(kvIn)
						hist = append(hist, fmt.Sprintf("c%d [%d,%d] %s%s %s -> %v", o.ClientId, o.Call, o.Return, in.kind, map[bool]string{true: "(replace)", false: ""}[in.repl], in.value, o.Output))
					}
					if len(hist) > 120 {
						hist = hist[:120]
					}
					keyHist = map[string]any{"key": part[0].Input.(kvIn).key, "history": hist}
					break
				}
			}
			probs = append(probs, "history-not-linearizable|no linearisation of the acknowledged writes, flushes and Get reads exists for key "+fmt.Sprint(keyHist["key"]))
		}
		annModel := porcupine.Model{
			Init: func() any { return [2]uint64{0, 0} },
			Step: func(st, in, out any) (bool, any) {
				c, a := st.([2]uint64), in.([2]uint64)
				if a[0] > c[0] || (a[0] == c[0] && a[1] >= c[1]) {
					c = a
				}
				return out.([2]uint64) == c, c
			},
		}
		// the setup primary announced (0,1) before the history started
		anns := append([]porcupine.Operation{{ClientId: 9999, Input: [2]uint64{0, 1}, Output: [2]uint64{0, 1}, Call: -2, Return: -1}}, rec.anns...)
		switch r2, _ := porcupine.CheckOperationsVerbose(annModel, anns, 2*time.Minute); r2 {
		case porcupine.Unknown:
			incs = append(incs, "porcupine timed out on the announcement history")
		case porcupine.Illegal:
			probs = append(probs, "concurrent-history-not-a-max-register|no linearisation of the announcements explains the reported ids")
		}
	}
	head := []string{}
	for i, o := range rec.ops {
		if i >= 12 {
			break
		}
		in := o.Input.(kvIn)
		head = append(head, fmt.Sprintf("c%d [%d,%d] %s %s -> %v", o.ClientId, o.Call, o.Return, in.kind, in.key, o.Output))
	}
	for _, p := range probs {
		sig, txt := mon.SplitSig(p)
		if sig == "harness" {
			incs = append(incs, txt)
			continue
		}
		wr.Record(map[string]any{"kind": "problem", "case": caseID, "sig": sig, "text": txt, "detail": map[string]any{"sessions": nSess, "readers": nReaders, "flushers": nFlush, "key_history": keyHist}})
	}
	for _, s := range incs {
		wr.Record(map[string]any{"kind": "inconclusive", "case": caseID, "text": s})
	}
	wr.Record(map[string]any{"kind": "run", "case": caseID, "sessions": nSess, "readers": nReaders, "flushers": nFlush,
		"operations": nOps.Load(), "operations_acknowledged": nAcked.Load(), "operations_failed_in_band": nFailed.Load(), "gets": nGets.Load(), "flushes": nFlushes.Load(),
		"reconnects": nReconnects.Load(), "sessions_dropped_in_the_middle_of_a_batch": nMidBatch.Load(), "negotiation_retries": nNegRetries.Load(), "operations_held": nHeld.Load(), "announcements": nAnn.Load(), "history_events": len(rec.ops), "flush_overlapped_runs": b2i(flushOverlapped.Load()),
		"signature": fmt.Sprint(primOrder), "yield_points": y.Hits(), "history_head": head})
	return watchdogFired.Load()
}

func b2i(b bool) int {
	if b {
		return 1
	}
	return 0
}
