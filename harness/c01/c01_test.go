// C01: installed state equals the fold of acknowledged operations.
package c01

import (
	"fmt"
	"strings"
	"testing"

	aftpb "github.com/openconfig/gribi/v1/proto/gribi_aft"
	spb "github.com/openconfig/gribi/v1/proto/service"
	wpb "github.com/openconfig/ygot/proto/ywrapper"

	"github.com/openconfig/gribigo/server"

	"verifharness/drv"
	"verifharness/ev"
	"verifharness/gen"
	"verifharness/mon"
)

func sigOf(p string) (string, string) {
	i := strings.Index(p, "|")
	if i < 0 {
		return p, p
	}
	return p[:i], p[i+1:]
}

func report(run *ev.Run, caseID string, x *mon.RIBMon, problems []string) {
	for _, p := range problems {
		sig, txt := sigOf(p)
		run.Violation(caseID, sig, txt, map[string]any{"history": x.Trace})
	}
}

func TestCheck(t *testing.T) {
	run := ev.Start(t, "C01", "exploration")
	nHist := run.Pick(3000, 100000)
	maxLen := 40
	ev.Parallel(nHist, ev.Workers(), func(i int) {
		caseID := fmt.Sprintf("rib-%d", i)
		if !run.Want(caseID) {
			return
		}
		r := run.Rand(caseID)
		g := gen.New(r)
		noFwd := i%4 == 3
		via := 0
		if i%3 == 2 {
			via = 1
			if i%60 == 2 {
				via = 2
			}
		}
		x, err := mon.NewRIBMonVia(g.S, noFwd, via)
		if err == nil && i%4 == 1 {
			x.WithIdleHooks()
			run.Count("histories_on_a_rib_with_hooks_registered", 1)
		}
		if err != nil {
			run.Fatal(err.Error())
			return
		}
		defer x.Close()
		run.Seen("programmed_via", mon.ViaName(via))
		n := 8 + r.Intn(maxLen-8)
		if run.Thorough() && i%500 == 0 {
			n = 2000
		}
		full := n <= 60
		bad := false
		for step := 0; step < n && !bad; step++ {
			if r.Intn(25) == 0 {
				var nis []string
				if r.Intn(2) == 0 {
					nis = g.S.NIs
				} else {
					nis = []string{g.S.NIs[r.Intn(len(g.S.NIs))]}
				}
				run.Count("flushes", 1)
				// Flush verdicts belong to C08; only the resulting contents are judged here.
				x.Flush(nis)
			} else {
				spec := g.Op()
				res, probs := x.Do(spec)
				run.Count("ops", 1)
				run.Seen("op_kinds", fmt.Sprintf("%s/%s/%s", spec.Op.GetOp(), opTable(spec), res.Expected))
				if res.Cascade > 0 {
					run.Count("held_ops_resolved", int64(res.Cascade))
				}
				if len(probs) > 0 {
					report(run, caseID, x, probs)
					bad = true
				}
			}
			if full || step%16 == 15 || step == n-1 {
				if probs := x.Compare(); len(probs) > 0 {
					report(run, caseID, x, probs)
					bad = true
				}
				run.Count("contents_comparisons", 1)
			}
			if full {
				run.Seen("states", fmt.Sprintf("%x", hash(x.M.StateHash())))
			}
		}
		if !bad {
			if probs := x.CompareGet(); len(probs) > 0 {
				report(run, caseID, x, probs)
			}
			run.Count("get_comparisons", 1)
		}
		run.Eval(1)
		if x.M.Contents().Count() > 0 || len(x.M.Held) > 0 {
			run.Distinct(strings.Join(x.Trace, "\n"))
		}
		if i < 2 {
			run.Sample(map[string]any{"case": caseID, "forward_refs_disallowed": noFwd, "history": x.Trace})
		}
	})
	// Bounded-exhaustive part: every sequence of up to L operations over a 15-symbol alphabet
	// on one chain NH1 <- NHG1 <- ipv4 prefix (two payload variants per key), both
	// forward-reference modes.
	L := run.Pick(3, 4)
	alpha := alphabet()
	alphas := [][]sym{alpha, alphabet2()}
	var seqs [][]int
	var rec func(p []int)
	rec = func(p []int) {
		if len(p) > 0 {
			seqs = append(seqs, append([]int{}, p...))
		}
		if len(p) == L {
			return
		}
		for i := range alpha {
			rec(append(p, i))
		}
	}
	rec(nil)
	ev.Parallel(len(seqs)*2*len(alphas), ev.Workers(), func(i int) {
		ai := i / (len(seqs) * 2)
		i = i % (len(seqs) * 2)
		seq := seqs[i/2]
		noFwd := i%2 == 1
		caseID := fmt.Sprintf("exhaustive:%v:fwd=%v", seq, !noFwd)
		if ai > 0 {
			caseID = fmt.Sprintf("exhaustive%d:%v:fwd=%v", ai+1, seq, !noFwd)
		}
		if !run.Want(caseID) {
			return
		}
		sp := gen.DefaultSpace()
		x, err := mon.NewRIBMonVia(sp, noFwd, (i/2)%2) // alternately through package rib and the Modify RPC
		if err == nil && (i/4)%2 == 1 {
			x.WithIdleHooks()
		}
		if err != nil {
			run.Fatal(err.Error())
			return
		}
		defer x.Close()
		id := uint64(0)
		for _, a := range seq {
			id++
			probs := alphas[ai][a](x, id)
			probs = append(probs, x.Compare()...)
			if len(probs) > 0 {
				report(run, caseID, x, probs)
				break
			}
		}
		if probs := x.CompareGet(); len(probs) > 0 {
			report(run, caseID, x, probs)
		}
		run.Count("exhaustive_sequences", 1)
		run.Eval(1)
		if len(seq) == L {
			run.Distinct(caseID)
		}
	})
	// Hand-over part: operations a superseded primary left unanswered (held for a forward
	// reference) must leave no trace once another session is primary - whatever that
	// session programs afterwards, the contents are the fold of what was acknowledged.
	nHand := run.Pick(400, 8000)
	ev.Parallel(nHand, ev.Workers(), func(i int) {
		caseID := fmt.Sprintf("handover-%d", i)
		if !run.Want(caseID) {
			return
		}
		r := run.Rand(caseID)
		g := gen.New(r)
		g.S.Default = server.DefaultNetworkInstanceName
		g.PInvalid = 0
		g.Rich = false
		g.WTable = [5]int{2, 2, 2, 3, 3} // many top-level entries and groups before their dependencies
		w, err := mon.NewSessWorld(g.S, false, false)
		if err != nil {
			run.Fatal(err.Error())
			return
		}
		defer w.Close()
		a, probs := w.Connect()
		probs = append(probs, w.SendParams(a, drv.SinglePrimary(i%2 == 0))...)
		ea := &spb.Uint128{High: uint64(r.Intn(2)), Low: uint64(1 + r.Intn(3))}
		probs = append(probs, w.SendElection(a, ea)...)
		for k := 0; k < 1+r.Intn(3) && len(probs) == 0; k++ {
			probs = append(probs, w.SendOps(a, g.History(1+r.Intn(5)), ea)...)
			probs = append(probs, w.CompareState()...)
		}
		heldByA := len(w.X.M.Held)
		b, p := w.Connect()
		probs = append(probs, p...)
		probs = append(probs, w.SendParams(b, drv.SinglePrimary(i%2 == 0))...)
		eb := &spb.Uint128{High: ea.High, Low: ea.Low}
		how := "equal-id"
		switch r.Intn(3) {
		case 1:
			eb.Low++
			how = "higher-low"
		case 2:
			eb.High++
			eb.Low = 0
			how = "higher-high"
		}
		if r.Intn(3) == 0 && len(probs) == 0 {
			probs = append(probs, w.Disconnect(a, []string{"close", "cancel"}[r.Intn(2)])...)
			how += "/old-primary-gone"
		}
		if len(probs) == 0 {
			probs = append(probs, w.SendElection(b, eb)...)
			probs = append(probs, w.CompareState()...)
		}
		for k := 0; k < 2+r.Intn(4) && len(probs) == 0 && b.Open; k++ {
			probs = append(probs, w.SendOps(b, g.History(1+r.Intn(5)), eb)...)
			probs = append(probs, w.CompareState()...)
		}
		var real []string
		for _, p := range mon.Quarantine(probs) {
			if strings.HasPrefix(p, "INCONCLUSIVE|") {
				run.Inconclusive(caseID + ": " + p[13:])
				continue
			}
			if strings.HasPrefix(p, "HARNESS|") {
				run.Fatal(caseID + ": " + p[8:])
				continue
			}
			real = append(real, p)
		}
		mon.Report(run, caseID, w.Trace, real)
		run.Eval(1)
		run.Count("handover_scripts", 1)
		if heldByA > 0 {
			run.Count("handovers_with_unanswered_operations_of_the_old_primary", 1)
			run.Seen("handover_variants", how)
			run.Distinct(strings.Join(w.Trace, "\n"))
		}
	})
	electionDuringOperation(run)
	flushAllAtomicity(run)
	halfCloseAfterBatch(run)
	run.Set("exhaustive_alphabet_size", len(alpha))
	run.Set("exhaustive_max_length", L)
	run.Assume("content-validity of generated payloads is decided by the generator's class tag (calibrated against the schema), not re-derived by the model")
	run.Finish("seeded random histories (8-40 ops; a few of 2000 in thorough) of ADD/REPLACE/DELETE over 5 tables x 3 NIs with 3-4 keys per table, rich payloads, cross-NI group refs, 4% content-invalid ops, interleaved flushes; 1 in 4 with forward references disallowed; plus EVERY sequence of up to 3 (quick) / 4 (thorough) operations over a 15-symbol alphabet (ADD with two payloads, REPLACE with two payloads, DELETE, for next-hop 1, group 1 and one IPv4 prefix) in both forward-reference modes, and over a second 15-symbol alphabet (next-hop and group of VRF1, an MPLS label of the default instance pointing at VRF1's group or - unnamed - at its own, an IPv6 prefix, a flush of VRF1, a flush of everything) - exhaustive for those bounded spaces; plus hand-over scripts over real Modify sessions (a primary leaves operations held, another session becomes primary with an equal or higher id and programs on; full state vs model after every batch); plus elections placed INSIDE a batch of the primary (by the post-change hook; Get must report exactly what was acknowledged as programmed) and histories with one concurrent Flush of all instances (the survivors must be a suffix of the sequentially acknowledged operations: the Flush is one point of the history) and batches followed by an immediate half-close on a stream with slow writes (installed == acknowledged when the RPC has ended). Non-trivial = history leaves entries or held operations; distinct = by full history text", 100, false)
}

// alphabet: ADD (2 payloads) / REPLACE (2 payloads) / DELETE for each of NH 1, NHG 1 and one
// IPv4 prefix of the default network instance.
// sym is one symbol of an exhaustive alphabet: an operation (or a flush) applied to the
// real RIB and the model in lock step.
type sym func(x *mon.RIBMon, id uint64) []string

func opSym(f func(id uint64) gen.OpSpec) sym {
	return func(x *mon.RIBMon, id uint64) []string {
		_, probs := x.Do(f(id))
		return probs
	}
}

// alphabet2: the other entry kinds and the cross-instance reference, with flushes as
// symbols: next-hop 1 and group 1 of VRF1, an MPLS label of the default instance that
// points at VRF1's group (or, unnamed, at its own instance's group 1, which never exists),
// an IPv6 prefix of VRF1, a flush of VRF1 and a flush of everything.
func alphabet2() []sym {
	A, R, D := spb.AFTOperation_ADD, spb.AFTOperation_REPLACE, spb.AFTOperation_DELETE
	nh := func(kind spb.AFTOperation_Operation, mac string) sym {
		return opSym(func(id uint64) gen.OpSpec {
			return gen.OpSpec{NI: "VRF1", Op: &spb.AFTOperation{Id: id, NetworkInstance: "VRF1", Op: kind, Entry: &spb.AFTOperation_NextHop{NextHop: &aftpb.Afts_NextHopKey{Index: 1, NextHop: &aftpb.Afts_NextHop{MacAddress: gen.S(mac)}}}}}
		})
	}
	nhg := func(kind spb.AFTOperation_Operation, w uint64) sym {
		return opSym(func(id uint64) gen.OpSpec {
			p := &aftpb.Afts_NextHopGroup{NextHop: []*aftpb.Afts_NextHopGroup_NextHopKey{{Index: 1, NextHop: &aftpb.Afts_NextHopGroup_NextHop{Weight: gen.U(w)}}}}
			return gen.OpSpec{NI: "VRF1", Op: &spb.AFTOperation{Id: id, NetworkInstance: "VRF1", Op: kind, Entry: &spb.AFTOperation_NextHopGroup{NextHopGroup: &aftpb.Afts_NextHopGroupKey{Id: 1, NextHopGroup: p}}}}
		})
	}
	mpls := func(kind spb.AFTOperation_Operation, named bool) sym {
		return opSym(func(id uint64) gen.OpSpec {
			p := &aftpb.Afts_LabelEntry{NextHopGroup: gen.U(1)}
			if named {
				p.NextHopGroupNetworkInstance = gen.S("VRF1")
			}
			return gen.OpSpec{NI: "DEFAULT", Op: &spb.AFTOperation{Id: id, NetworkInstance: "DEFAULT", Op: kind, Entry: &spb.AFTOperation_Mpls{Mpls: &aftpb.Afts_LabelEntryKey{Label: &aftpb.Afts_LabelEntryKey_LabelUint64{LabelUint64: 100}, LabelEntry: p}}}}
		})
	}
	v6 := func(kind spb.AFTOperation_Operation, md bool) sym {
		return opSym(func(id uint64) gen.OpSpec {
			p := &aftpb.Afts_Ipv6Entry{NextHopGroup: gen.U(1)}
			if md {
				p.EntryMetadata = &wpb.BytesValue{Value: []byte{9}}
			}
			return gen.OpSpec{NI: "VRF1", Op: &spb.AFTOperation{Id: id, NetworkInstance: "VRF1", Op: kind, Entry: &spb.AFTOperation_Ipv6{Ipv6: &aftpb.Afts_Ipv6EntryKey{Prefix: "2001:db8::/32", Ipv6Entry: p}}}}
		})
	}
	flush := func(nis ...string) sym {
		return func(x *mon.RIBMon, _ uint64) []string { return x.Flush(nis) }
	}
	return []sym{
		nh(A, "00:11:22:33:44:55"), nh(D, ""),
		nhg(A, 1), nhg(R, 2), nhg(D, 1),
		mpls(A, true), mpls(A, false), mpls(R, true), mpls(D, false),
		v6(A, true), v6(A, false), v6(R, false), v6(D, false),
		flush("VRF1"), flush("DEFAULT", "VRF1", "VRF2"),
	}
}

func alphabet() []sym {
	ni := "DEFAULT"
	nh := func(kind spb.AFTOperation_Operation, ip string) func(uint64) gen.OpSpec {
		return func(id uint64) gen.OpSpec {
			return gen.OpSpec{NI: ni, Op: &spb.AFTOperation{Id: id, NetworkInstance: ni, Op: kind, Entry: &spb.AFTOperation_NextHop{NextHop: &aftpb.Afts_NextHopKey{Index: 1, NextHop: &aftpb.Afts_NextHop{IpAddress: gen.S(ip)}}}}}
		}
	}
	nhg := func(kind spb.AFTOperation_Operation, w uint64, backup bool) func(uint64) gen.OpSpec {
		return func(id uint64) gen.OpSpec {
			p := &aftpb.Afts_NextHopGroup{NextHop: []*aftpb.Afts_NextHopGroup_NextHopKey{{Index: 1, NextHop: &aftpb.Afts_NextHopGroup_NextHop{Weight: gen.U(w)}}}}
			if backup {
				p.BackupNextHopGroup = gen.U(7)
			}
			return gen.OpSpec{NI: ni, Op: &spb.AFTOperation{Id: id, NetworkInstance: ni, Op: kind, Entry: &spb.AFTOperation_NextHopGroup{NextHopGroup: &aftpb.Afts_NextHopGroupKey{Id: 1, NextHopGroup: p}}}}
		}
	}
	v4 := func(kind spb.AFTOperation_Operation, md bool) func(uint64) gen.OpSpec {
		return func(id uint64) gen.OpSpec {
			p := &aftpb.Afts_Ipv4Entry{NextHopGroup: gen.U(1)}
			if md {
				p.EntryMetadata = &wpb.BytesValue{Value: []byte{1, 2, 3}}
			}
			return gen.OpSpec{NI: ni, Op: &spb.AFTOperation{Id: id, NetworkInstance: ni, Op: kind, Entry: &spb.AFTOperation_Ipv4{Ipv4: &aftpb.Afts_Ipv4EntryKey{Prefix: "10.0.0.0/8", Ipv4Entry: p}}}}
		}
	}
	A, R, D := spb.AFTOperation_ADD, spb.AFTOperation_REPLACE, spb.AFTOperation_DELETE
	var out []sym
	for _, f := range []func(uint64) gen.OpSpec{
		nh(A, "192.0.2.1"), nh(A, "192.0.2.2"), nh(R, "192.0.2.1"), nh(R, "192.0.2.2"), nh(D, "192.0.2.1"),
		nhg(A, 1, true), nhg(A, 2, false), nhg(R, 1, true), nhg(R, 2, false), nhg(D, 1, false),
		v4(A, true), v4(A, false), v4(R, true), v4(R, false), v4(D, false),
	} {
		out = append(out, opSym(f))
	}
	return out
}

func opTable(s gen.OpSpec) string {
	str := s.String()
	i := strings.Index(str, "/")
	if i < 0 {
		return "?"
	}
	rest := str[i+1:]
	if j := strings.Index(rest, ":"); j >= 0 {
		return rest[:j]
	}
	return "?"
}

func hash(s string) uint64 {
	var h uint64 = 1469598103934665603
	for i := 0; i < len(s); i++ {
		h ^= uint64(s[i])
		h *= 1099511628211
	}
	return h
}
