package child

import (
	"fmt"
	"strings"
	"sync"

	"verifharness/ev"
)

// Collector gathers, inside a child process, what the parent's ev.Run would have
// gathered; Flush writes it to the result stream and Fold (parent side) replays it.
type Collector struct {
	mu      sync.Mutex
	w       *Writer
	counts  map[string]int64
	seen    map[string]map[string]bool
	samples []any
	evals   int64
	dist    []string
	probs   int
}

// NewCollector returns a collector writing to w.
func NewCollector(w *Writer) *Collector {
	return &Collector{w: w, counts: map[string]int64{}, seen: map[string]map[string]bool{}}
}

func (c *Collector) Violation(caseID, sig, text string, detail any) {
	c.mu.Lock()
	c.probs++
	c.mu.Unlock()
	c.w.Record(map[string]any{"kind": "problem", "case": caseID, "sig": sig, "text": text, "detail": detail})
}
// Problems returns the number of violations recorded so far (a child that has
// reported several stops early: every further one costs watchdog time and adds nothing).
func (c *Collector) Problems() int {
	c.mu.Lock()
	defer c.mu.Unlock()
	return c.probs
}
func (c *Collector) Inconclusive(text string) {
	c.w.Record(map[string]any{"kind": "inconclusive", "text": text})
}
func (c *Collector) Fatal(text string) { c.w.Record(map[string]any{"kind": "fatal", "text": text}) }
func (c *Collector) Count(k string, n int64) {
	c.mu.Lock()
	c.counts[k] += n
	c.mu.Unlock()
}
func (c *Collector) Seen(set, member string) {
	c.mu.Lock()
	if c.seen[set] == nil {
		c.seen[set] = map[string]bool{}
	}
	c.seen[set][member] = true
	c.mu.Unlock()
}
func (c *Collector) Sample(v any) {
	c.mu.Lock()
	if len(c.samples) < 2 {
		c.samples = append(c.samples, v)
	}
	c.mu.Unlock()
}
func (c *Collector) Eval(n int) {
	c.mu.Lock()
	c.evals += int64(n)
	c.mu.Unlock()
}
func (c *Collector) Distinct(s string) {
	c.mu.Lock()
	c.dist = append(c.dist, s)
	c.mu.Unlock()
}

// Flush writes the accumulated counters (and resets them).
func (c *Collector) Flush() {
	c.mu.Lock()
	defer c.mu.Unlock()
	seen := map[string][]string{}
	for k, m := range c.seen {
		for v := range m {
			seen[k] = append(seen[k], v)
		}
	}
	c.w.Record(map[string]any{"kind": "stats", "counts": c.counts, "seen": seen, "samples": c.samples, "evals": c.evals, "distinct": c.dist})
	c.counts, c.seen, c.samples, c.evals, c.dist = map[string]int64{}, map[string]map[string]bool{}, nil, 0, nil
}

// Fold replays a child's records into the parent's run and judges how it ended.
func Fold(run *ev.Run, name string, o *Outcome, raceExitOK bool) {
	for _, rec := range o.Records {
		switch rec["kind"] {
		case "problem":
			run.Violation(fmt.Sprint(rec["case"]), fmt.Sprint(rec["sig"]), fmt.Sprint(rec["text"]), rec["detail"])
		case "inconclusive":
			run.Inconclusive(fmt.Sprint(rec["text"]))
		case "fatal":
			run.Fatal(fmt.Sprint(rec["text"]))
		case "stats":
			if m, ok := rec["counts"].(map[string]any); ok {
				for k, v := range m {
					if f, ok := v.(float64); ok {
						run.Count(k, int64(f))
					}
				}
			}
			if m, ok := rec["seen"].(map[string]any); ok {
				for k, v := range m {
					if l, ok := v.([]any); ok {
						for _, x := range l {
							run.Seen(k, fmt.Sprint(x))
						}
					}
				}
			}
			if l, ok := rec["samples"].([]any); ok {
				for _, x := range l {
					run.Sample(x)
				}
			}
			if f, ok := rec["evals"].(float64); ok {
				run.Eval(int(f))
			}
			if l, ok := rec["distinct"].([]any); ok {
				for _, x := range l {
					run.Distinct(fmt.Sprint(x))
				}
			}
		}
	}
	switch {
	case o.Killed:
		run.Inconclusive(name + " exceeded the wall-clock watchdog; in flight: " + o.LastLog)
	case !o.ExitOK:
		if o.PanicSig == "" && raceExitOK && strings.Contains(o.Stdout, "race detected during execution of test") {
			return
		}
		sig := "crash:" + o.PanicSig
		if o.PanicSig == "" {
			sig = "crash:child-exited-abnormally"
		}
		run.Violation(name, sig, "the process died: "+strings.SplitN(o.Stderr, "\n", 2)[0], map[string]any{"in_flight": o.LastLog, "stderr_head": o.Stderr})
	}
}
