package c09

import (
	"fmt"
	"sync"

	"github.com/openconfig/gribigo/server"

	spb "github.com/openconfig/gribi/v1/proto/service"

	"verifharness/drv"
	"verifharness/ev"
	"verifharness/mon"
)

// concurrentHandshakes: two (or three) connected sessions send their first message - session
// parameters of the supported mode, with the same or with different acknowledgement types -
// at the same moment, next to no, a RIB- or a FIB-acknowledging negotiated session; the
// server's yield points around the session table are perturbed. Whatever the interleaving,
// parameters are accepted "only if identical to those of every other live session": at no
// time may two sessions that were both answered OK hold different parameters (hooked
// session table), and an accepted newcomer must agree with the negotiated bystander.
func concurrentHandshakes(run *ev.Run) {
	n := run.Pick(400, 8000)
	y := mon.NewYielder(run.Seed+9, 2, 30)
	server.VerifSetPoint(y.Point)
	defer server.VerifSetPoint(nil)
	ev.Parallel(n, ev.Workers(), func(i int) {
		caseID := fmt.Sprintf("concurrent-handshake-%d", i)
		if !run.Want(caseID) {
			return
		}
		r := run.Rand(caseID)
		srv, err := drv.NewServer([]string{"VRF1"})
		if err != nil {
			run.Fatal(err.Error())
			return
		}
		var trace []string
		var probs []string
		bystander := r.Intn(3) // 0 none, 1 RIB, 2 FIB
		if bystander > 0 {
			b := &drv.Session{Stream: drv.OpenModify(srv), Name: "bystander", DefaultNI: "DEFAULT"}
			if _, err := b.Params(drv.SinglePrimary(bystander == 2)); err != nil {
				run.Fatal(caseID + ": " + err.Error())
				return
			}
			defer b.CloseSend()
			trace = append(trace, fmt.Sprintf("bystander negotiated fib=%v", bystander == 2))
		}
		k := 2 + r.Intn(2)
		ss := make([]*drv.Session, k)
		fib := make([]bool, k)
		for j := range ss {
			ss[j] = &drv.Session{Stream: drv.OpenModify(srv), Name: fmt.Sprintf("n%d", j), DefaultNI: "DEFAULT"}
			fib[j] = r.Intn(2) == 0
		}
		oks := make([]bool, k)
		errs := make([]error, k)
		start := make(chan struct{})
		var wg sync.WaitGroup
		for j := range ss {
			wg.Add(1)
			go func(j int) {
				defer wg.Done()
				<-start
				resp, err := ss[j].Params(drv.SinglePrimary(fib[j]))
				errs[j] = err
				oks[j] = err == nil && resp.GetSessionParamsResult().GetStatus() == spb.SessionParametersResult_OK
			}(j)
		}
		close(start)
		wg.Wait()
		for j := range ss {
			trace = append(trace, fmt.Sprintf("%s sends params fib=%v -> accepted=%v (%v)", ss[j].Name, fib[j], oks[j], errs[j]))
			if errs[j] == drv.ErrWatchdog {
				probs = append(probs, "INCONCLUSIVE|a handshake was not answered within the watchdog")
			}
		}
		if len(probs) == 0 {
			for a := 0; a < k; a++ {
				if !oks[a] {
					continue
				}
				if bystander > 0 && fib[a] != (bystander == 2) {
					probs = append(probs, fmt.Sprintf("violation-accepted:params-differ-from-live-session|%s was answered OK for fib=%v next to a negotiated session with fib=%v", ss[a].Name, fib[a], bystander == 2))
				}
				for b := a + 1; b < k; b++ {
					if oks[b] && fib[a] != fib[b] {
						probs = append(probs, fmt.Sprintf("violation-accepted:params-differ-between-concurrent-handshakes|%s (fib=%v) and %s (fib=%v) sent their parameters at the same moment and were both answered OK", ss[a].Name, fib[a], ss[b].Name, fib[b]))
					}
				}
			}
			// the hooked table agrees
			seenFIB, seenRIB := false, false
			for _, v := range srv.VerifSessions() {
				if v.ExpectElecID {
					if v.FIBAck {
						seenFIB = true
					} else {
						seenRIB = true
					}
				}
			}
			if seenFIB && seenRIB {
				probs = append(probs, "session-params-state|the server's session table holds negotiated sessions with different acknowledgement types")
			}
		}
		for _, s := range ss {
			s.CloseSend()
		}
		mon.Report(run, caseID, trace, probs)
		run.Eval(1)
		run.Count("concurrent_handshakes", int64(k))
		acc := 0
		for _, o := range oks {
			if o {
				acc++
			}
		}
		run.Seen("concurrent_handshake_outcomes", fmt.Sprintf("%d-of-%d-accepted/bystander=%d", acc, k, bystander))
		run.Distinct(caseID)
	})
}
