package c16

import (
	"fmt"
	"strings"
	"sync"
	"time"

	"github.com/openconfig/gribigo/rib"
	"github.com/openconfig/gribigo/server"

	aftpb "github.com/openconfig/gribi/v1/proto/gribi_aft"
	spb "github.com/openconfig/gribi/v1/proto/service"

	"verifharness/canon"
	"verifharness/drv"
	"verifharness/ev"
	"verifharness/gen"
	"verifharness/mon"
)

// duringRegistration: one more creation order - a network instance is created WHILE the
// hook is being registered. The registration is held up the way it is in a running server:
// a Get reader that has stopped reading holds one instance. Once registration and creation
// have both returned, every instance - the one created meanwhile included - notifies its
// changes: the fold equals RIBContents after a history over all instances.
func duringRegistration(run *ev.Run) {
	n := run.Pick(48, 1000)
	ev.Parallel(n, ev.Workers(), func(i int) {
		caseID := fmt.Sprintf("ni-during-hook-registration-%d", i)
		if !run.Want(caseID) {
			return
		}
		r := run.Rand(caseID)
		g := gen.New(r)
		g.S.Default = server.DefaultNetworkInstanceName
		R := rib.New(g.S.Default)
		for _, ni := range g.S.NIs {
			if ni != g.S.Default {
				R.AddNetworkInstance(ni)
			}
		}
		late := "LATE"
		// something for the reader to read
		busy := g.S.NIs[r.Intn(len(g.S.NIs))]
		for k := uint64(1); k <= 3; k++ {
			op := &spb.AFTOperation{Id: 1000 + k, NetworkInstance: busy, Op: spb.AFTOperation_ADD, Entry: &spb.AFTOperation_NextHop{NextHop: &aftpb.Afts_NextHopKey{Index: 900 + k, NextHop: &aftpb.Afts_NextHop{IpAddress: gen.S("192.0.2.1")}}}}
			if oks, _, err := mon.Apply(R, gen.OpSpec{NI: busy, Op: op}); err != nil || len(oks) != 1 {
				run.Fatal(fmt.Sprintf("%s: set-up: %v %v", caseID, oks, err))
				return
			}
		}
		f := &fold{c: canon.Contents{}}
		// the fold starts from what is installed before the registration
		if c, err := R.RIBContents(); err == nil {
			for ni, m := range canon.FromYgot(c) {
				f.c[ni] = map[canon.Key]string{}
				for k, v := range m {
					f.c[ni][k] = v
				}
			}
		}
		holder, _ := R.NetworkInstanceRIB(busy)
		msgCh := make(chan *spb.GetResponse)
		stopCh := make(chan struct{})
		var wg sync.WaitGroup
		wg.Add(1)
		go func() { defer wg.Done(); holder.GetRIB(map[spb.AFTType]bool{spb.AFTType_ALL: true}, msgCh, stopCh) }()
		<-msgCh // the reader has its first entry: the instance is read-locked from now on
		wg.Add(2)
		go func() { defer wg.Done(); R.SetPostChangeHook(f.hook) }()
		time.Sleep(time.Duration(200+r.Intn(2000)) * time.Microsecond)
		var addErr error
		go func() { defer wg.Done(); addErr = R.AddNetworkInstance(late) }()
		time.Sleep(time.Duration(200+r.Intn(2000)) * time.Microsecond)
		// the reader resumes
		joined := make(chan struct{})
		go func() { wg.Wait(); close(joined) }()
		drained := make(chan struct{})
		go func() {
			defer close(drained)
			for {
				select {
				case <-msgCh:
				case <-joined:
					return
				}
			}
		}()
		select {
		case <-joined:
		case <-time.After(drv.Watchdog):
			ev.NoteWatchdog("hook registration / instance creation behind a stalled reader")
			run.Inconclusive(caseID + ": registration, creation or the reader did not return within the watchdog")
			run.Eval(1)
			close(stopCh)
			return
		}
		<-drained
		if addErr != nil {
			run.Fatal(caseID + ": AddNetworkInstance: " + addErr.Error())
			return
		}
		nis := append(append([]string{}, g.S.NIs...), late)
		var trace, probs []string
		trace = append(trace, fmt.Sprintf("instances %v; a reader holds %s; SetPostChangeHook starts; AddNetworkInstance(%s) starts; the reader resumes; both return", g.S.NIs, busy, late))
		id := uint64(1)
		for step := 0; step < 10 && len(probs) == 0; step++ {
			ni := nis[(step+r.Intn(2))%len(nis)]
			op := &spb.AFTOperation{Id: id, NetworkInstance: ni, Op: spb.AFTOperation_ADD, Entry: &spb.AFTOperation_NextHop{NextHop: &aftpb.Afts_NextHopKey{Index: uint64(1 + step%4), NextHop: &aftpb.Afts_NextHop{IpAddress: gen.S(fmt.Sprintf("192.0.2.%d", 1+step))}}}}
			if step%5 == 4 {
				op.Op = spb.AFTOperation_DELETE
			}
			id++
			oks, fails, err := mon.Apply(R, gen.OpSpec{NI: ni, Op: op})
			trace = append(trace, fmt.Sprintf("%s next-hop %d in %s => ok=%d failed=%d err=%v", op.Op, op.GetNextHop().Index, ni, len(oks), len(fails), err))
			c, err := R.RIBContents()
			if err != nil {
				probs = append(probs, "rib-contents-error|"+err.Error())
				break
			}
			f.mu.Lock()
			probs = append(probs, f.problems...)
			for _, d := range canon.Diff(canon.FromYgot(c), f.c) {
				probs = append(probs, fmt.Sprintf("hook-fold:%s:instance-created-during-registration|%s", strings.Fields(d)[0], d))
			}
			f.mu.Unlock()
			run.Count("fold_comparisons_after_a_creation_during_registration", 1)
		}
		mon.Report(run, caseID, trace, probs)
		run.Eval(1)
		run.Seen("configurations", "ni-created-during-hook-registration")
		run.Distinct(caseID)
	})
}
