package gen

import (
	"fmt"
	"math/rand"
	"strings"

	"google.golang.org/protobuf/proto"
	"google.golang.org/protobuf/reflect/protoreflect"
)

type slot struct {
	m    protoreflect.Message
	fd   protoreflect.FieldDescriptor
	path string
}

func collect(m protoreflect.Message, path string, depth int, out *[]slot) {
	if depth > 8 {
		return
	}
	fds := m.Descriptor().Fields()
	for i := 0; i < fds.Len(); i++ {
		fd := fds.Get(i)
		p := path + "." + string(fd.Name())
		*out = append(*out, slot{m, fd, p})
		if fd.Kind() != protoreflect.MessageKind {
			continue
		}
		switch {
		case fd.IsList():
			l := m.Get(fd).List()
			for j := 0; j < l.Len(); j++ {
				collect(l.Get(j).Message(), fmt.Sprintf("%s[%d]", p, j), depth+1, out)
			}
		case fd.IsMap():
		default:
			if m.Has(fd) {
				collect(m.Get(fd).Message(), p, depth+1, out)
			}
		}
	}
}

var hostileUints = []uint64{0, 1, 15, 16, 255, 256, 1<<20 - 1, 1 << 20, 1<<24 - 1, 1 << 24, 1<<32 - 1, 1 << 32, 1<<32 + 100, 1 << 63, 1<<64 - 1}
var hostileStrings = []string{"", " ", "\x00", "💥", "DEFAULT", "NOSUCH", "10.0.0.0/8", "::/0", "1.2.3.4", "00:11:22:33:44:55", strings.Repeat("a", 70000), "a/b[c=d]", "../..", "%s%n"}
var hostileEnums = []int32{0, 1, 2, 9, 10, 99, -1, 1<<31 - 1, -(1 << 31)}

// Mutate applies n random structural mutations to a clone of msg and returns it
// with a description of what was done. Only mutations representable on the wire
// are produced (no nil list elements, no invalid UTF-8).
func Mutate(r *rand.Rand, msg proto.Message, n int) (proto.Message, []string) {
	out := proto.Clone(msg)
	var desc []string
	for k := 0; k < n; k++ {
		var slots []slot
		collect(out.ProtoReflect(), "", 0, &slots)
		if len(slots) == 0 {
			break
		}
		s := slots[r.Intn(len(slots))]
		desc = append(desc, mutateSlot(r, s))
	}
	return out, desc
}

func mutateSlot(r *rand.Rand, s slot) string {
	fd, m := s.fd, s.m
	if fd.IsMap() {
		return s.path + ": map untouched"
	}
	if fd.IsList() {
		l := m.Mutable(fd).List()
		switch r.Intn(4) {
		case 0:
			m.Clear(fd)
			return s.path + ": list cleared"
		case 1:
			if l.Len() > 0 {
				e := l.Get(r.Intn(l.Len()))
				if fd.Kind() == protoreflect.MessageKind {
					l.Append(protoreflect.ValueOfMessage(proto.Clone(e.Message().Interface()).ProtoReflect()))
				} else {
					l.Append(e)
				}
				return s.path + ": element duplicated"
			}
			fallthrough
		case 2:
			if fd.Kind() == protoreflect.MessageKind {
				l.Append(l.NewElement())
				return s.path + ": empty element appended"
			}
			l.Append(scalarValue(r, fd))
			return s.path + ": hostile element appended"
		default:
			if fd.Kind() == protoreflect.MessageKind {
				for i := 0; i < 50; i++ {
					l.Append(l.NewElement())
				}
				return s.path + ": 50 empty elements appended"
			}
			l.Append(scalarValue(r, fd))
			return s.path + ": hostile element appended"
		}
	}
	if fd.Kind() == protoreflect.MessageKind {
		if m.Has(fd) && r.Intn(2) == 0 {
			m.Clear(fd)
			return s.path + ": message cleared (nil)"
		}
		m.Set(fd, protoreflect.ValueOfMessage(m.NewField(fd).Message()))
		return s.path + ": message set to empty"
	}
	v := scalarValue(r, fd)
	m.Set(fd, v)
	return fmt.Sprintf("%s: set to %.40q", s.path, fmt.Sprint(v.Interface()))
}

func scalarValue(r *rand.Rand, fd protoreflect.FieldDescriptor) protoreflect.Value {
	switch fd.Kind() {
	case protoreflect.EnumKind:
		return protoreflect.ValueOfEnum(protoreflect.EnumNumber(hostileEnums[r.Intn(len(hostileEnums))]))
	case protoreflect.Uint64Kind, protoreflect.Fixed64Kind:
		return protoreflect.ValueOfUint64(hostileUints[r.Intn(len(hostileUints))])
	case protoreflect.Uint32Kind, protoreflect.Fixed32Kind:
		return protoreflect.ValueOfUint32(uint32(hostileUints[r.Intn(len(hostileUints))]))
	case protoreflect.Int64Kind, protoreflect.Sint64Kind, protoreflect.Sfixed64Kind:
		return protoreflect.ValueOfInt64(int64(hostileUints[r.Intn(len(hostileUints))]))
	case protoreflect.Int32Kind, protoreflect.Sint32Kind, protoreflect.Sfixed32Kind:
		return protoreflect.ValueOfInt32(int32(hostileUints[r.Intn(len(hostileUints))]))
	case protoreflect.BoolKind:
		return protoreflect.ValueOfBool(r.Intn(2) == 0)
	case protoreflect.StringKind:
		return protoreflect.ValueOfString(hostileStrings[r.Intn(len(hostileStrings))])
	case protoreflect.BytesKind:
		b := make([]byte, []int{0, 1, 8, 9, 4096}[r.Intn(5)])
		r.Read(b)
		return protoreflect.ValueOfBytes(b)
	case protoreflect.FloatKind:
		return protoreflect.ValueOfFloat32(float32(r.NormFloat64()))
	case protoreflect.DoubleKind:
		return protoreflect.ValueOfFloat64(r.NormFloat64())
	}
	return fd.Default()
}

// WireRoundTrip marshals and unmarshals m; ok is false if the wire cannot carry it.
func WireRoundTrip(m proto.Message) (proto.Message, bool) {
	b, err := proto.Marshal(m)
	if err != nil {
		return nil, false
	}
	out := m.ProtoReflect().New().Interface()
	if err := proto.Unmarshal(b, out); err != nil {
		return nil, false
	}
	return out, true
}
