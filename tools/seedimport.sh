#!/bin/bash
# tools/seedimport.sh <ID> <agent-output-dir> [<first-letter>]
# Copies a seeding agent's two deliverables (a/, b/) into seeded/<ID>-<x>, seeded/<ID>-<y>
# (x = first letter, default c) and confirms each with tools/seedcheck.sh.
set -u
ID="$1"; SRC="$2"; L="${3:-c}"
ROOT="$(cd "$(dirname "${BASH_SOURCE[0]}")/.." && pwd)"
next() { echo "$1" | tr 'a-y' 'b-z'; }
for v in a b; do
  dst="$ROOT/seeded/$ID-$L"
  mkdir -p "$dst"
  cp "$SRC/$v/patch.diff" "$dst/patch.diff"
  cp "$SRC/$v/demo_test.go" "$dst/demo_test.go"
  cp "$SRC/$v/meta.json" "$dst/agent_meta.json"
  echo "== $ID-$L"
  "$ROOT/tools/seedcheck.sh" "$dst" "$ID" 2>&1 | tee "$dst/seedcheck.txt"
  L="$(next "$L")"
done
