package c08

import (
	"fmt"
	"sync"
	"sync/atomic"
	"time"

	"github.com/openconfig/gribigo/aft"
	"github.com/openconfig/gribigo/constants"
	"github.com/openconfig/gribigo/rib"
	"github.com/openconfig/gribigo/server"
	"google.golang.org/grpc/codes"
	"google.golang.org/grpc/status"

	aftpb "github.com/openconfig/gribi/v1/proto/gribi_aft"
	spb "github.com/openconfig/gribi/v1/proto/service"

	"verifharness/canon"
	"verifharness/drv"
	"verifharness/ev"
	"verifharness/gen"
	"verifharness/model"
	"verifharness/mon"
)

// concurrentPhase: a Flush that names one instance runs WHILE deletes of unreferenced groups
// and next-hops of that instance are in progress (four goroutines, scheduling perturbed at
// the yield points before each removal and inside Flush). Everything must be answered - the
// Flush with OK, every DELETE with success (the keys are unreferenced or already gone) -,
// the instance must be empty afterwards, the other instance untouched, deletion protection
// consistent (hooked counters == referrers recounted; a fresh chain can be programmed and
// torn down again). A request that is never answered is decided at the end of the run by
// the goroutine-dump classifier (permanent block = violation).
func concurrentPhase(run *ev.Run) {
	n := run.Pick(120, 3000)
	y := mon.NewYielder(run.Seed+8, 2, 80)
	rib.VerifSetPoint(y.Point)
	defer rib.VerifSetPoint(nil)
	ev.Parallel(n, ev.Workers(), func(i int) {
		caseID := fmt.Sprintf("flush-vs-deletes-%d", i)
		if !run.Want(caseID) {
			return
		}
		r := run.Rand(caseID)
		g := gen.New(r)
		g.S.Default = server.DefaultNetworkInstanceName
		srv, err := drv.NewServer(g.S.NIs[1:])
		if err != nil {
			run.Fatal(err.Error())
			return
		}
		x := &mon.RIBMon{R: srv.VerifRIB(), M: model.NewRIB(g.S.Default, g.S.NIs, false), CheckHeld: true, CheckRefs: true}
		target := g.S.NIs[r.Intn(len(g.S.NIs))]
		other := g.S.NIs[(indexOf(g.S.NIs, target)+1)%len(g.S.NIs)]
		mkNH := func(id uint64, ni string, idx uint64) gen.OpSpec {
			return gen.OpSpec{NI: ni, Op: &spb.AFTOperation{Id: id, NetworkInstance: ni, Op: spb.AFTOperation_ADD, Entry: &spb.AFTOperation_NextHop{NextHop: &aftpb.Afts_NextHopKey{Index: idx, NextHop: &aftpb.Afts_NextHop{IpAddress: gen.S("192.0.2.1")}}}}}
		}
		mkNHG := func(id uint64, ni string, gid, nh uint64) gen.OpSpec {
			return gen.OpSpec{NI: ni, Op: &spb.AFTOperation{Id: id, NetworkInstance: ni, Op: spb.AFTOperation_ADD, Entry: &spb.AFTOperation_NextHopGroup{NextHopGroup: &aftpb.Afts_NextHopGroupKey{Id: gid, NextHopGroup: &aftpb.Afts_NextHopGroup{NextHop: []*aftpb.Afts_NextHopGroup_NextHopKey{{Index: nh, NextHop: &aftpb.Afts_NextHopGroup_NextHop{Weight: gen.U(1)}}}}}}}}
		}
		mkV4 := func(id uint64, ni, pfx string, gid uint64) gen.OpSpec {
			return gen.OpSpec{NI: ni, Op: &spb.AFTOperation{Id: id, NetworkInstance: ni, Op: spb.AFTOperation_ADD, Entry: &spb.AFTOperation_Ipv4{Ipv4: &aftpb.Afts_Ipv4EntryKey{Prefix: pfx, Ipv4Entry: &aftpb.Afts_Ipv4Entry{NextHopGroup: gen.U(gid)}}}}}
		}
		var probs []string
		id := uint64(0)
		add := func(s gen.OpSpec) {
			if len(probs) == 0 {
				_, p := x.Do(s)
				probs = append(probs, p...)
			}
		}
		nNH, nNHG := 12+r.Intn(10), 6+r.Intn(5)
		for _, ni := range []string{target, other} {
			for k := 1; k <= nNH; k++ {
				id++
				add(mkNH(id, ni, uint64(k)))
			}
			for k := 1; k <= nNHG; k++ {
				id++
				add(mkNHG(id, ni, uint64(k), uint64(k)))
			}
			for k := nNHG - 1; k <= nNHG; k++ {
				id++
				add(mkV4(id, ni, fmt.Sprintf("10.%d.0.0/16", k), uint64(k)))
			}
		}
		probs = append(probs, x.Compare()...)
		if len(probs) > 0 {
			mon.Report(run, caseID, x.Trace, probs)
			return
		}
		// the deletes: groups 1..nNHG-2 (unreferenced), next-hops nNHG+1..nNH (in no group)
		var dels []gen.OpSpec
		for k := 1; k <= nNHG-2; k++ {
			id++
			dels = append(dels, g.MkOp(spb.AFTOperation_DELETE, canon.NHG, target, 0, false))
			dels[len(dels)-1].Op.Id = id
			dels[len(dels)-1].Op.GetNextHopGroup().Id = uint64(k)
		}
		for k := nNHG + 1; k <= nNH; k++ {
			id++
			dels = append(dels, g.MkOp(spb.AFTOperation_DELETE, canon.NH, target, 0, false))
			dels[len(dels)-1].Op.Id = id
			dels[len(dels)-1].Op.GetNextHop().Index = uint64(k)
		}
		r.Shuffle(len(dels), func(a, b int) { dels[a], dels[b] = dels[b], dels[a] })
		var mu sync.Mutex
		var wg sync.WaitGroup
		start := make(chan struct{})
		for w := 0; w < 4; w++ {
			wg.Add(1)
			go func(w int) {
				defer wg.Done()
				<-start
				for k := w; k < len(dels); k += 4 {
					oks, fails, err := mon.Apply(x.R, dels[k])
					if err != nil || len(fails) > 0 || len(oks) != 1 {
						mu.Lock()
						probs = append(probs, fmt.Sprintf("delete-rejected-but-must-succeed:concurrent-with-flush|%s (unreferenced, or already gone) answered oks=%v fails=%v err=%v", dels[k], oks, fails, err))
						mu.Unlock()
					}
				}
			}(w)
		}
		var ferr, fwd error
		wg.Add(1)
		go func() {
			defer wg.Done()
			<-start
			time.Sleep(time.Duration(r.Intn(300)) * time.Microsecond)
			_, ferr, fwd = drv.Flush(srv, &spb.FlushRequest{NetworkInstance: &spb.FlushRequest_Name{Name: target}, Election: &spb.FlushRequest_Override{Override: &spb.Empty{}}})
		}()
		close(start)
		joined := make(chan struct{})
		go func() { wg.Wait(); close(joined) }()
		select {
		case <-joined:
		case <-time.After(drv.Watchdog):
			ev.NoteWatchdog("deletes concurrent with a Flush of their instance")
			run.Inconclusive(caseID + ": deletes / Flush did not return within the watchdog")
			run.Eval(1)
			return
		}
		mu.Lock()
		defer mu.Unlock()
		if fwd != nil {
			run.Inconclusive(caseID + ": Flush did not return within the watchdog")
			run.Eval(1)
			return
		}
		if ferr != nil {
			probs = append(probs, fmt.Sprintf("flush-error-but-emptied:concurrent-with-deletes|Flush(%s): %v", target, ferr))
		}
		x.M.Flush([]string{target})
		x.Trace = append(x.Trace, fmt.Sprintf("FLUSH %s concurrently with %d deletes of unreferenced groups / next-hops of %s by 4 goroutines", target, len(dels), target))
		probs = append(probs, x.Compare()...)
		if len(probs) == 0 {
			probs = aftermath(run, g, x, 10)
		}
		mon.Report(run, caseID, x.Trace, probs)
		run.Eval(1)
		run.Count("flushes_concurrent_with_deletes", 1)
		run.Distinct(caseID)
	})
	for k, v := range y.Hits() {
		run.Set("yield_point:"+k, v)
	}
}

func indexOf(xs []string, s string) int {
	for i, x := range xs {
		if x == s {
			return i
		}
	}
	return 0
}

// electionRace: two sessions win the election in turn with rising ids, in quick succession,
// WHILE four goroutines send Flush requests that carry an id read a moment earlier (the
// election's yield points are perturbed). A Flush is authorised only with an id not lower
// than the highest id the server has learnt: a Flush that was ISSUED after an election
// with a higher id had been answered must be rejected (FAILED_PRECONDITION), during the
// run and - most of all - once everything is quiet.
func electionRace(run *ev.Run) {
	n := run.Pick(60, 1500)
	y := mon.NewYielder(run.Seed+13, 2, 20)
	server.VerifSetPoint(y.Point)
	defer server.VerifSetPoint(nil)
	ev.Parallel(n, ev.Workers(), func(i int) {
		caseID := fmt.Sprintf("election-vs-flush-%d", i)
		if !run.Want(caseID) {
			return
		}
		r := run.Rand(caseID)
		srv, err := drv.NewServer([]string{"VRF1"})
		if err != nil {
			run.Fatal(err.Error())
			return
		}
		a := &drv.Session{Stream: drv.OpenModify(srv), Name: "A", DefaultNI: "DEFAULT"}
		if _, err := a.Params(drv.SinglePrimary(false)); err != nil {
			run.Fatal(caseID + ": " + err.Error())
			return
		}
		b := &drv.Session{Stream: drv.OpenModify(srv), Name: "B", DefaultNI: "DEFAULT"}
		if _, err := b.Params(drv.SinglePrimary(false)); err != nil {
			run.Fatal(caseID + ": " + err.Error())
			return
		}
		defer a.CloseSend()
		defer b.CloseSend()
		hi := uint64(r.Intn(3))
		var answered atomicU64 // low word of the highest id whose election was answered
		var mu sync.Mutex
		var probs []string
		stop := make(chan struct{})
		var wg sync.WaitGroup
		nFlush := 0
		for f := 0; f < 4; f++ {
			wg.Add(1)
			go func(f int) {
				defer wg.Done()
				for {
					select {
					case <-stop:
						return
					default:
					}
					known := answered.Load() // read BEFORE the Flush is issued
					if known < 3 {
						continue
					}
					id := known - 1 - uint64(f%2)
					_, err, wd := drv.Flush(srv, &spb.FlushRequest{NetworkInstance: &spb.FlushRequest_Name{Name: "VRF1"}, Election: &spb.FlushRequest_Id{Id: &spb.Uint128{High: hi, Low: id}}})
					mu.Lock()
					nFlush++
					if wd != nil {
						probs = append(probs, "INCONCLUSIVE|a Flush did not return within the watchdog")
					} else if err == nil {
						probs = append(probs, fmt.Sprintf("flush-accepted-but-must-be-rejected:lower-id-during-elections|a Flush with id (%d,%d) was answered OK although the election with id (%d,%d) had been answered before the Flush was issued", hi, id, hi, known))
					}
					stopNow := len(probs) > 0
					mu.Unlock()
					if stopNow {
						return
					}
				}
			}(f)
		}
		rounds := 30 + r.Intn(60)
		for k := 1; k <= rounds; k++ {
			s := a
			if k%2 == 0 {
				s = b
			}
			id := &spb.Uint128{High: hi, Low: uint64(k + 1)}
			rep, err := s.Elect(id)
			if err != nil || rep.GetLow() != id.Low || rep.GetHigh() != id.High {
				mu.Lock()
				if err == drv.ErrWatchdog {
					probs = append(probs, "INCONCLUSIVE|an announcement was not answered within the watchdog")
				} else {
					probs = append(probs, fmt.Sprintf("election-response-not-running-max|%s announced %s and got %v %v", s.Name, mon.IDStr(id), rep, err))
				}
				mu.Unlock()
				break
			}
			answered.Store(id.Low)
			mu.Lock()
			bad := len(probs) > 0
			mu.Unlock()
			if bad {
				break
			}
		}
		close(stop)
		wg.Wait()
		if len(probs) == 0 {
			max := answered.Load()
			if _, err, _ := drv.Flush(srv, &spb.FlushRequest{NetworkInstance: &spb.FlushRequest_Name{Name: "VRF1"}, Election: &spb.FlushRequest_Id{Id: &spb.Uint128{High: hi, Low: max - 1}}}); err == nil {
				probs = append(probs, fmt.Sprintf("flush-accepted-but-must-be-rejected:lower-id-at-quiescence|after %d elections (highest id (%d,%d)) a Flush with id (%d,%d) is answered OK", rounds, hi, max, hi, max-1))
			} else if status.Code(err) != codes.FailedPrecondition {
				probs = append(probs, fmt.Sprintf("flush-wrong-status:lower-id-at-quiescence:%s|%v", status.Code(err), err))
			}
			if _, err, _ := drv.Flush(srv, &spb.FlushRequest{NetworkInstance: &spb.FlushRequest_Name{Name: "VRF1"}, Election: &spb.FlushRequest_Id{Id: &spb.Uint128{High: hi, Low: max}}}); err != nil {
				probs = append(probs, fmt.Sprintf("flush-rejected-but-must-be-accepted:equal-id-at-quiescence|%v", err))
			}
		}
		mon.Report(run, caseID, []string{fmt.Sprintf("%d elections won in turn by two sessions with ids (%d,2..%d), %d Flush requests with a lower id raced with them", rounds, hi, rounds+1, nFlush)}, probs)
		run.Eval(1)
		run.Count("elections_raced_by_flushes", int64(rounds))
		run.Count("flushes_with_a_lower_id_during_elections", int64(nFlush))
		run.Distinct(caseID)
	})
}

type atomicU64 struct{ v atomic.Uint64 }

func (a *atomicU64) Load() uint64   { return a.v.Load() }
func (a *atomicU64) Store(x uint64) { a.v.Store(x) }

// flushAllWithReaders: a server with many network instances and a resolved-entry hook (so
// that the RIB takes whole-RIB snapshots while it is programmed). Two goroutines program
// chains into the instances, two consumers read RIBContents, and a series of authorised
// Flush(all) RPCs is made meanwhile. Every call must return - Flush(all) with OK -, and
// after the programming has stopped one more Flush(all) leaves every instance empty. A call
// that never returns is decided by the goroutine-dump classifier at the end of the run.
func flushAllWithReaders(run *ev.Run) {
	n := run.Pick(6, 120)
	ev.Parallel(n, 3, func(i int) {
		caseID := fmt.Sprintf("flush-all-vs-readers-%d", i)
		if !run.Want(caseID) {
			return
		}
		r := run.Rand(caseID)
		nVRF := 5 + r.Intn(11)
		var vrfs []string
		for k := 0; k < nVRF; k++ {
			vrfs = append(vrfs, fmt.Sprintf("VRF-%02d", k))
		}
		nis := append([]string{server.DefaultNetworkInstanceName}, vrfs...)
		var hookCalls, snapshots, programmed, flushes atomic.Int64
		hook := func(_ map[string]*aft.RIB, _ constants.OpType, _ string, _ constants.AFT, _ any, _ ...rib.ResolvedDetails) {
			hookCalls.Add(1)
		}
		srv, err := drv.NewServer(vrfs, server.WithRIBResolvedEntryHook(hook))
		if err != nil {
			run.Fatal(err.Error())
			return
		}
		R := srv.VerifRIB()
		var nextID atomic.Uint64
		chain := func(ni string, k uint64) []gen.OpSpec {
			mk := func(e func(op *spb.AFTOperation)) gen.OpSpec {
				op := &spb.AFTOperation{Id: nextID.Add(1), NetworkInstance: ni, Op: spb.AFTOperation_ADD}
				e(op)
				return gen.OpSpec{NI: ni, Op: op}
			}
			return []gen.OpSpec{
				mk(func(op *spb.AFTOperation) {
					op.Entry = &spb.AFTOperation_NextHop{NextHop: &aftpb.Afts_NextHopKey{Index: k, NextHop: &aftpb.Afts_NextHop{IpAddress: gen.S("192.0.2.1")}}}
				}),
				mk(func(op *spb.AFTOperation) {
					op.Entry = &spb.AFTOperation_NextHopGroup{NextHopGroup: &aftpb.Afts_NextHopGroupKey{Id: k, NextHopGroup: &aftpb.Afts_NextHopGroup{NextHop: []*aftpb.Afts_NextHopGroup_NextHopKey{{Index: k, NextHop: &aftpb.Afts_NextHopGroup_NextHop{Weight: gen.U(1)}}}}}}
				}),
				mk(func(op *spb.AFTOperation) {
					op.Entry = &spb.AFTOperation_Ipv4{Ipv4: &aftpb.Afts_Ipv4EntryKey{Prefix: fmt.Sprintf("10.%d.0.0/16", k), Ipv4Entry: &aftpb.Afts_Ipv4Entry{NextHopGroup: gen.U(k)}}}
				}),
			}
		}
		var mu sync.Mutex
		var probs []string
		note := func(p string) {
			mu.Lock()
			probs = append(probs, p)
			mu.Unlock()
		}
		stop := make(chan struct{})
		stopped := func() bool {
			select {
			case <-stop:
				return true
			default:
				return false
			}
		}
		var wg sync.WaitGroup
		for w := 0; w < 2; w++ {
			wg.Add(1)
			go func(w int) {
				defer wg.Done()
				for k := 0; !stopped(); k++ {
					ni := nis[(k*(w*2+1)+w)%len(nis)]
					for _, s := range chain(ni, uint64(1+w)) {
						if _, _, err := mon.Apply(R, s); err != nil {
							note(fmt.Sprintf("programming-error-during-flush-all|%s: %v", s, err))
							return
						}
						programmed.Add(1)
					}
				}
			}(w)
		}
		for w := 0; w < 2; w++ {
			wg.Add(1)
			go func() {
				defer wg.Done()
				for !stopped() {
					c, err := R.RIBContents()
					if err != nil || len(c) != len(nis) {
						note(fmt.Sprintf("rib-contents-error-during-flush-all|RIBContents: %d instances, err=%v", len(c), err))
						return
					}
					snapshots.Add(1)
				}
			}()
		}
		flushAll := func() (error, error) {
			_, err, wd := drv.Flush(srv, &spb.FlushRequest{NetworkInstance: &spb.FlushRequest_All{All: &spb.Empty{}}, Election: &spb.FlushRequest_Override{Override: &spb.Empty{}}})
			return err, wd
		}
		nFlush := 40 + r.Intn(60)
		wedged := false
		for k := 0; k < nFlush; k++ {
			err, wd := flushAll()
			if wd != nil {
				wedged = true
				break
			}
			if err != nil {
				note(fmt.Sprintf("flush-error-but-must-succeed:all-instances-under-load|Flush(all) #%d: %v", k, err))
				break
			}
			flushes.Add(1)
			time.Sleep(time.Duration(50+r.Intn(400)) * time.Microsecond)
		}
		close(stop)
		joined := make(chan struct{})
		go func() { wg.Wait(); close(joined) }()
		if !wedged {
			select {
			case <-joined:
			case <-time.After(drv.Watchdog):
				ev.NoteWatchdog("programming / RIBContents concurrent with Flush(all)")
				wedged = true
			}
		}
		trace := []string{fmt.Sprintf("%d instances, resolved-entry hook installed; 2 goroutines program chains, 2 read RIBContents, %d Flush(all) RPCs meanwhile (%d answered; %d operations, %d snapshots, %d hook calls)", len(nis), nFlush, flushes.Load(), programmed.Load(), snapshots.Load(), hookCalls.Load())}
		if wedged {
			run.Inconclusive(caseID + ": a Flush(all) / RIBContents / AddEntry call did not return within the watchdog")
			run.Eval(1)
			return
		}
		mu.Lock()
		defer mu.Unlock()
		if len(probs) == 0 {
			if err, wd := flushAll(); wd != nil {
				run.Inconclusive(caseID + ": the final Flush(all) did not return within the watchdog")
				run.Eval(1)
				return
			} else if err != nil {
				probs = append(probs, fmt.Sprintf("flush-error-but-must-succeed:all-instances-at-quiescence|%v", err))
			}
			c, err := R.RIBContents()
			if err != nil {
				probs = append(probs, fmt.Sprintf("rib-contents-error|%v", err))
			}
			for ni, rc := range c {
				if a := rc.Afts; a != nil && len(a.Ipv4Entry)+len(a.Ipv6Entry)+len(a.LabelEntry)+len(a.NextHopGroup)+len(a.NextHop) > 0 {
					probs = append(probs, fmt.Sprintf("flush-left-entries:all-instances-after-load|%s holds %d ipv4 %d nhg %d nh after Flush(all) at quiescence", ni, len(a.Ipv4Entry), len(a.NextHopGroup), len(a.NextHop)))
				}
			}
		}
		mon.Report(run, caseID, trace, probs)
		run.Eval(1)
		run.Count("flush_all_under_readers", flushes.Load())
		run.Count("rib_snapshots_during_flush_all", snapshots.Load())
		run.Count("operations_during_flush_all", programmed.Load())
		run.Count("resolved_hook_calls_during_flush_all", hookCalls.Load())
		run.Distinct(caseID)
	})
}

// flushAfterPrimaryLeft: the election id that gates Flush is the highest id the server has
// learnt - it does not go down when the session that announced it leaves. A primary (id X)
// and one or two standbys (lower ids) are connected; the primary leaves in one of three
// ways; Flushes with every id from the lowest standby's up to X-1 must be refused with
// FAILED_PRECONDITION and change nothing, a Flush with X must be honoured.
func flushAfterPrimaryLeft(run *ev.Run) {
	n := run.Pick(60, 1500)
	ev.Parallel(n, ev.Workers(), func(i int) {
		caseID := fmt.Sprintf("flush-after-primary-left-%d", i)
		if !run.Want(caseID) {
			return
		}
		r := run.Rand(caseID)
		srv, err := drv.NewServer([]string{"VRF1"})
		if err != nil {
			run.Fatal(err.Error())
			return
		}
		hi := uint64(r.Intn(2))
		x := uint64(10 + r.Intn(10))
		open := func(name string, id uint64) *drv.Session {
			s := &drv.Session{Stream: drv.OpenModify(srv), Name: name, DefaultNI: "DEFAULT"}
			if _, err := s.Params(drv.SinglePrimary(false)); err != nil {
				run.Fatal(caseID + ": " + err.Error())
				return nil
			}
			if _, err := s.Elect(&spb.Uint128{High: hi, Low: id}); err != nil {
				run.Fatal(caseID + ": " + err.Error())
				return nil
			}
			return s
		}
		low := x - uint64(2+r.Intn(5))
		var standbys []*drv.Session
		order := r.Intn(2) // standbys before or after the primary
		var prim *drv.Session
		if order == 0 {
			prim = open("primary", x)
		}
		for k := 0; k < 1+r.Intn(2); k++ {
			if s := open(fmt.Sprintf("standby%d", k), low+uint64(k)); s != nil {
				standbys = append(standbys, s)
				defer s.CloseSend()
			}
		}
		if order == 1 {
			prim = open("primary", x)
		}
		if prim == nil || len(standbys) == 0 {
			return
		}
		// the primary programs an entry, then leaves
		px := &spb.Uint128{High: hi, Low: x}
		op := &spb.AFTOperation{Id: 1, NetworkInstance: "VRF1", Op: spb.AFTOperation_ADD, ElectionId: px, Entry: &spb.AFTOperation_NextHop{NextHop: &aftpb.Afts_NextHopKey{Index: 1, NextHop: &aftpb.Afts_NextHop{IpAddress: gen.S("192.0.2.1")}}}}
		if out := prim.Ops([]*spb.AFTOperation{op}, px); out.RPCErr != nil || len(out.Results) != 1 || out.Results[0].GetStatus() != spb.AFTResult_RIB_PROGRAMMED {
			run.Fatal(fmt.Sprintf("%s: set-up operation: %v %v", caseID, out.Results, out.RPCErr))
			return
		}
		how := []string{"half-close", "cancel", "abort"}[r.Intn(3)]
		switch how {
		case "half-close":
			prim.CloseSend()
		case "cancel":
			prim.Stream.(*drv.ModStream).Abort(status.Error(codes.Canceled, "context canceled"))
		default:
			prim.Stream.(*drv.ModStream).Abort(status.Error(codes.Unavailable, "transport is closing"))
		}
		if _, wd := prim.Stream.(*drv.ModStream).WaitEnd(); wd != nil {
			run.Inconclusive(caseID + ": the primary's RPC did not end within the watchdog")
			run.Eval(1)
			return
		}
		var probs []string
		trace := []string{fmt.Sprintf("primary (%d,%d) and %d standbys (from (%d,%d)) connected; the primary programs a next-hop in VRF1 and leaves by %s", hi, x, len(standbys), hi, low, how)}
		count := func() int {
			c, err := srv.VerifRIB().RIBContents()
			if err != nil || c["VRF1"] == nil || c["VRF1"].Afts == nil {
				return -1
			}
			return len(c["VRF1"].Afts.NextHop)
		}
		for id := low; id < x && len(probs) == 0; id++ {
			_, err, wd := drv.Flush(srv, &spb.FlushRequest{NetworkInstance: &spb.FlushRequest_Name{Name: "VRF1"}, Election: &spb.FlushRequest_Id{Id: &spb.Uint128{High: hi, Low: id}}})
			switch {
			case wd != nil:
				probs = append(probs, "INCONCLUSIVE|a Flush did not return within the watchdog")
			case err == nil:
				probs = append(probs, fmt.Sprintf("flush-accepted-but-must-be-rejected:lower-id-after-the-primary-left|a Flush with id (%d,%d) was answered OK; the highest id the server has learnt is (%d,%d), announced by a session that has left since", hi, id, hi, x))
			case status.Code(err) != codes.FailedPrecondition:
				probs = append(probs, fmt.Sprintf("flush-wrong-status:lower-id-after-the-primary-left:%s|%v", status.Code(err), err))
			case count() != 1:
				probs = append(probs, fmt.Sprintf("rejected-flush-changed-contents:lower-id-after-the-primary-left|VRF1 holds %d next-hops after a refused Flush", count()))
			}
			run.Count("flushes_with_a_lower_id_after_the_primary_left", 1)
		}
		if len(probs) == 0 {
			if _, err, wd := drv.Flush(srv, &spb.FlushRequest{NetworkInstance: &spb.FlushRequest_Name{Name: "VRF1"}, Election: &spb.FlushRequest_Id{Id: px}}); wd != nil {
				probs = append(probs, "INCONCLUSIVE|a Flush did not return within the watchdog")
			} else if err != nil {
				probs = append(probs, fmt.Sprintf("flush-rejected-but-must-be-accepted:highest-id-after-the-primary-left|%v", err))
			} else if count() != 0 {
				probs = append(probs, fmt.Sprintf("flush-left-entries:highest-id-after-the-primary-left|VRF1 holds %d next-hops", count()))
			}
		}
		mon.Report(run, caseID, trace, probs)
		run.Eval(1)
		run.Distinct(caseID)
	})
}
