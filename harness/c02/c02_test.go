// C02: programmed-acknowledgement tracks reference resolvability.
package c02

import (
	"fmt"
	"math/rand"
	"strings"
	"testing"

	aftpb "github.com/openconfig/gribi/v1/proto/gribi_aft"
	spb "github.com/openconfig/gribi/v1/proto/service"

	"verifharness/canon"
	"verifharness/drv"
	"verifharness/ev"
	"verifharness/gen"
	"verifharness/mon"
)

// node of a dependency graph.
type node struct {
	t      canon.Table
	ni     string
	key    int      // index into the space's key list
	nhs    []uint64 // for groups
	nhg    uint64   // for top-level entries
	nhgNI  string   // "" = own
	backup uint64
	// rawID / rawPfx override the key taken from the space (scale jobs)
	rawID  uint64
	rawPfx string
}

func (n node) op(g *gen.Gen, kind spb.AFTOperation_Operation) gen.OpSpec {
	s := g.MkOp(kind, n.t, n.ni, n.key, false)
	switch n.t {
	case canon.NH:
		s.Op.GetNextHop().NextHop = &aftpb.Afts_NextHop{IpAddress: gen.S("192.0.2.1")}
	case canon.NHG:
		p := &aftpb.Afts_NextHopGroup{}
		for _, nh := range n.nhs {
			p.NextHop = append(p.NextHop, &aftpb.Afts_NextHopGroup_NextHopKey{Index: nh, NextHop: &aftpb.Afts_NextHopGroup_NextHop{Weight: gen.U(1)}})
		}
		if n.backup != 0 {
			p.BackupNextHopGroup = gen.U(n.backup)
		}
		s.Op.GetNextHopGroup().NextHopGroup = p
		if n.rawID != 0 {
			s.Op.GetNextHopGroup().Id = n.rawID
		}
	case canon.V4:
		s.Op.GetIpv4().Ipv4Entry = &aftpb.Afts_Ipv4Entry{NextHopGroup: gen.U(n.nhg)}
		if n.rawPfx != "" {
			s.Op.GetIpv4().Prefix = n.rawPfx
		}
		if n.nhgNI != "" {
			s.Op.GetIpv4().Ipv4Entry.NextHopGroupNetworkInstance = gen.S(n.nhgNI)
		}
	case canon.V6:
		s.Op.GetIpv6().Ipv6Entry = &aftpb.Afts_Ipv6Entry{NextHopGroup: gen.U(n.nhg)}
		if n.nhgNI != "" {
			s.Op.GetIpv6().Ipv6Entry.NextHopGroupNetworkInstance = gen.S(n.nhgNI)
		}
	case canon.MPLS:
		s.Op.GetMpls().LabelEntry = &aftpb.Afts_LabelEntry{NextHopGroup: gen.U(n.nhg)}
		if n.nhgNI != "" {
			s.Op.GetMpls().LabelEntry.NextHopGroupNetworkInstance = gen.S(n.nhgNI)
		}
	}
	return s
}

// shapes are the small graphs whose arrival orders are enumerated completely.
// Key indices refer to gen.DefaultSpace (NH 1..3, NHG 1..3).
var shapes = map[string][]node{
	"chain-v4":          {{t: canon.NH, ni: "DEFAULT", key: 0}, {t: canon.NHG, ni: "DEFAULT", key: 0, nhs: []uint64{1}}, {t: canon.V4, ni: "DEFAULT", key: 0, nhg: 1}},
	"chain-v6-mpls":     {{t: canon.NH, ni: "DEFAULT", key: 0}, {t: canon.NHG, ni: "DEFAULT", key: 0, nhs: []uint64{1}}, {t: canon.V6, ni: "DEFAULT", key: 0, nhg: 1}, {t: canon.MPLS, ni: "DEFAULT", key: 0, nhg: 1}},
	"two-nh-group":      {{t: canon.NH, ni: "VRF1", key: 0}, {t: canon.NH, ni: "VRF1", key: 1}, {t: canon.NHG, ni: "VRF1", key: 0, nhs: []uint64{1, 2}}, {t: canon.V4, ni: "VRF1", key: 0, nhg: 1}},
	"cross-ni":          {{t: canon.NH, ni: "DEFAULT", key: 0}, {t: canon.NHG, ni: "DEFAULT", key: 0, nhs: []uint64{1}}, {t: canon.V4, ni: "VRF1", key: 0, nhg: 1, nhgNI: "DEFAULT"}, {t: canon.V6, ni: "VRF2", key: 0, nhg: 1, nhgNI: "DEFAULT"}},
	"own-ni-named":      {{t: canon.NH, ni: "VRF1", key: 0}, {t: canon.NHG, ni: "VRF1", key: 0, nhs: []uint64{1}}, {t: canon.V4, ni: "VRF1", key: 0, nhg: 1, nhgNI: "VRF1"}, {t: canon.MPLS, ni: "VRF1", key: 1, nhg: 1}},
	"same-ids-two-nis":  {{t: canon.NH, ni: "DEFAULT", key: 0}, {t: canon.NHG, ni: "DEFAULT", key: 0, nhs: []uint64{1}}, {t: canon.NH, ni: "VRF1", key: 0}, {t: canon.NHG, ni: "VRF1", key: 0, nhs: []uint64{1}}, {t: canon.V4, ni: "VRF1", key: 0, nhg: 1}},
	"shared-nh":         {{t: canon.NH, ni: "DEFAULT", key: 0}, {t: canon.NHG, ni: "DEFAULT", key: 0, nhs: []uint64{1}}, {t: canon.NHG, ni: "DEFAULT", key: 1, nhs: []uint64{1}}, {t: canon.V4, ni: "DEFAULT", key: 0, nhg: 1}, {t: canon.V4, ni: "DEFAULT", key: 1, nhg: 2}},
	"backup-missing":    {{t: canon.NH, ni: "DEFAULT", key: 0}, {t: canon.NHG, ni: "DEFAULT", key: 0, nhs: []uint64{1}, backup: 99}, {t: canon.V4, ni: "DEFAULT", key: 0, nhg: 1}},
	"backup-present":    {{t: canon.NH, ni: "DEFAULT", key: 0}, {t: canon.NHG, ni: "DEFAULT", key: 1, nhs: []uint64{1}}, {t: canon.NHG, ni: "DEFAULT", key: 0, nhs: []uint64{1}, backup: 2}, {t: canon.V6, ni: "DEFAULT", key: 0, nhg: 1}},
	"dep-never-arrives": {{t: canon.NH, ni: "DEFAULT", key: 0}, {t: canon.NHG, ni: "DEFAULT", key: 0, nhs: []uint64{1, 3}}, {t: canon.V4, ni: "DEFAULT", key: 0, nhg: 1}, {t: canon.V4, ni: "DEFAULT", key: 1, nhg: 3}},
	"two-tops-same-key": {{t: canon.NH, ni: "DEFAULT", key: 0}, {t: canon.NHG, ni: "DEFAULT", key: 0, nhs: []uint64{1}}, {t: canon.NHG, ni: "DEFAULT", key: 1, nhs: []uint64{1}}, {t: canon.V4, ni: "DEFAULT", key: 0, nhg: 1}, {t: canon.V4, ni: "DEFAULT", key: 0, nhg: 2}},
	// a group that grows by a next-hop which may or may not have arrived yet (two writes of the group key)
	"group-grows": {{t: canon.NH, ni: "DEFAULT", key: 0}, {t: canon.NH, ni: "DEFAULT", key: 1}, {t: canon.NHG, ni: "DEFAULT", key: 0, nhs: []uint64{1}}, {t: canon.NHG, ni: "DEFAULT", key: 0, nhs: []uint64{1, 2}}, {t: canon.V4, ni: "DEFAULT", key: 0, nhg: 1}},
	// one prefix written twice: pointing at its own instance's group and at the same id in another instance
	"retarget-cross-ni": {{t: canon.NH, ni: "DEFAULT", key: 0}, {t: canon.NHG, ni: "DEFAULT", key: 0, nhs: []uint64{1}}, {t: canon.NH, ni: "VRF1", key: 0}, {t: canon.NHG, ni: "VRF1", key: 0, nhs: []uint64{1}}, {t: canon.V4, ni: "VRF1", key: 0, nhg: 1}, {t: canon.V4, ni: "VRF1", key: 0, nhg: 1, nhgNI: "DEFAULT"}},
	// one label written twice with different groups, a second entry keeps the first group referenced
	"retarget-mpls":    {{t: canon.NH, ni: "DEFAULT", key: 0}, {t: canon.NHG, ni: "DEFAULT", key: 0, nhs: []uint64{1}}, {t: canon.NHG, ni: "DEFAULT", key: 1, nhs: []uint64{1}}, {t: canon.MPLS, ni: "DEFAULT", key: 0, nhg: 1}, {t: canon.MPLS, ni: "DEFAULT", key: 0, nhg: 2}, {t: canon.V6, ni: "DEFAULT", key: 0, nhg: 1}},
	"three-level-wide": {{t: canon.NH, ni: "VRF2", key: 0}, {t: canon.NH, ni: "VRF2", key: 1}, {t: canon.NHG, ni: "VRF2", key: 0, nhs: []uint64{1}}, {t: canon.NHG, ni: "VRF2", key: 1, nhs: []uint64{2}}, {t: canon.V4, ni: "VRF2", key: 0, nhg: 1}, {t: canon.MPLS, ni: "DEFAULT", key: 0, nhg: 2, nhgNI: "VRF2"}},
}

func permutations(n int, fn func([]int)) {
	p := make([]int, n)
	for i := range p {
		p[i] = i
	}
	var rec func(int)
	rec = func(k int) {
		if k == n {
			fn(p)
			return
		}
		for i := k; i < n; i++ {
			p[k], p[i] = p[i], p[k]
			rec(k + 1)
			p[k], p[i] = p[i], p[k]
		}
	}
	rec(0)
}

type job struct {
	id    string
	nodes []node
	order []int
	noFwd bool
	// extra random perturbations (deletes / re-adds) appended from this PRNG
	perturb bool
	// via: 0 = package rib, 1 = Modify RPC (see mon.NewRIBMonVia)
	via int
}

func runJob(run *ev.Run, j job) {
	r := run.Rand(j.id)
	g := gen.New(r)
	x, err := mon.NewRIBMonVia(g.S, j.noFwd, j.via)
	if err == nil && len(j.id)%3 == 0 {
		x.WithIdleHooks()
	}
	if err != nil {
		run.Fatal(err.Error())
		return
	}
	defer x.Close()
	run.Seen("programmed_via", mon.ViaName(j.via))
	var probs []string
	namedFlush := false
	step := func(s gen.OpSpec) bool {
		if j.via > 0 && r.Intn(6) == 0 {
			// the primary raises its own election id between two operations: it stays the
			// primary, and what is held for it stays held
			probs = append(probs, x.Reannounce()...)
			probs = append(probs, x.Compare()...)
			run.Count("primary_raised_its_own_election_id", 1)
			if len(x.M.Held) > 0 {
				run.Count("primary_raised_its_own_election_id_while_operations_were_held", 1)
			}
		}
		if j.via > 0 && r.Intn(8) == 0 {
			// a standby comes and goes (negotiates, perhaps announces a lower id, half-closes):
			// what is held for the primary is none of its business
			st := drv.OpenModify(x.Srv)
			b := &drv.Session{Stream: st, Name: "standby", DefaultNI: g.S.Default}
			if _, err := b.Params(drv.SinglePrimary(false)); err != nil {
				probs = append(probs, "INCONCLUSIVE|the standby could not negotiate: "+err.Error())
			} else if r.Intn(2) == 0 {
				b.Elect(&spb.Uint128{High: 0, Low: 7})
			}
			b.CloseSend()
			st.WaitEnd()
			x.Trace = append(x.Trace, "a standby session negotiated and left")
			probs = append(probs, x.Compare()...)
			run.Count("standby_sessions_that_came_and_went", 1)
		}
		res, p := x.Do(s)
		probs = append(probs, p...)
		probs = append(probs, x.Compare()...)
		if res.Cascade > 0 {
			run.Count("held_ops_resolved", int64(res.Cascade))
			run.Seen("cascade_sizes", fmt.Sprint(res.Cascade))
			// the order in which held operations were acknowledged
			tr := x.Trace[len(x.Trace)-1]
			run.Seen("cascade_orders", j.id[:strings.LastIndex(j.id, "#")+1]+tr[strings.Index(tr, "=>"):])
		}
		if res.Expected.String() == "hold" {
			run.Count("ops_held_or_failed_as_forward_ref", 1)
		}
		if !namedFlush {
			if d := x.M.Dangling(); len(d) > 0 {
				probs = append(probs, fmt.Sprintf("dangling-reference|installed entries dangle: %v", d))
			}
		}
		run.Count("ops", 1)
		return len(probs) == 0
	}
	for _, idx := range j.order {
		if !step(j.nodes[idx].op(g, spb.AFTOperation_ADD)) {
			break
		}
	}
	if j.perturb && len(probs) == 0 {
		// Delete and re-add dependencies, replace, flush everything, re-send; half of the
		// re-sent writes carry a changed reference (a group with another member set - possibly
		// naming next-hops that are not installed -, an entry pointing at another group or at
		// the same id in another instance).
		for k := 0; k < 6+r.Intn(10) && len(probs) == 0; k++ {
			ix := r.Intn(len(j.nodes))
			n := j.nodes[ix]
			if r.Intn(2) == 0 {
				n = mutate(r, g.S, n)
				run.Count("writes_with_changed_reference", 1)
				if r.Intn(2) == 0 {
					j.nodes[ix] = n
				}
			}
			switch r.Intn(7) {
			case 0, 1:
				step(n.op(g, spb.AFTOperation_DELETE))
			case 2:
				step(n.op(g, spb.AFTOperation_REPLACE))
			case 3:
				x.Flush(g.S.NIs)
				run.Count("full_flushes", 1)
			default:
				step(n.op(g, spb.AFTOperation_ADD))
			}
		}
	}
	// Finally a DELETE of every group and then of every next-hop of the graph: whatever is
	// accepted must not leave an installed entry dangling (the model judges each verdict).
	for _, tbl := range []canon.Table{canon.NHG, canon.NH} {
		seen := map[string]bool{}
		for _, n := range j.nodes {
			k := fmt.Sprintf("%s/%d", n.ni, n.key)
			if n.t != tbl || seen[k] || len(probs) > 0 {
				continue
			}
			seen[k] = true
			step(n.op(g, spb.AFTOperation_DELETE))
			run.Count("sweep_deletes", 1)
		}
	}
	mon.Report(run, j.id, x.Trace, probs)
	run.Eval(1)
	if x.M.Contents().Count() > 0 || len(x.Trace) > 0 {
		run.Distinct(strings.Join(x.Trace, "\n"))
	}
}

// mutate returns n with another reference: another member set for a group, another group /
// group instance for a top-level entry.
func mutate(r *rand.Rand, s gen.Space, n node) node {
	switch n.t {
	case canon.NHG:
		n.nhs = nil
		for _, nh := range s.NHs {
			if r.Intn(2) == 0 {
				n.nhs = append(n.nhs, nh)
			}
		}
		if len(n.nhs) == 0 {
			n.nhs = []uint64{s.NHs[r.Intn(len(s.NHs))]}
		}
	case canon.V4, canon.V6, canon.MPLS:
		n.nhg = s.NHGs[r.Intn(len(s.NHGs))]
		n.nhgNI = ""
		if r.Intn(2) == 0 {
			n.nhgNI = s.NIs[r.Intn(len(s.NIs))]
		}
	}
	return n
}

func randomGraph(r *rand.Rand, s gen.Space) []node {
	var ns []node
	nis := s.NIs[:1+r.Intn(len(s.NIs))]
	for _, ni := range nis {
		for k := range s.NHs {
			if r.Intn(3) > 0 {
				ns = append(ns, node{t: canon.NH, ni: ni, key: k})
			}
		}
		for k := range s.NHGs {
			if r.Intn(3) > 0 {
				n := node{t: canon.NHG, ni: ni, key: k}
				for _, nh := range s.NHs {
					if r.Intn(2) == 0 {
						n.nhs = append(n.nhs, nh)
					}
				}
				if len(n.nhs) == 0 {
					n.nhs = []uint64{s.NHs[r.Intn(len(s.NHs))]}
				}
				if r.Intn(4) == 0 {
					n.backup = []uint64{1, 2, 3, 99}[r.Intn(4)]
				}
				ns = append(ns, n)
			}
		}
		for _, t := range []canon.Table{canon.V4, canon.V6, canon.MPLS} {
			for k := 0; k < 2; k++ {
				if r.Intn(2) == 0 {
					n := node{t: t, ni: ni, key: k, nhg: s.NHGs[r.Intn(len(s.NHGs))]}
					if r.Intn(2) == 0 {
						n.nhgNI = nis[r.Intn(len(nis))]
					}
					ns = append(ns, n)
				}
			}
		}
	}
	return ns
}

func TestCheck(t *testing.T) {
	run := ev.Start(t, "C02", "exploration")
	var jobs []job
	reps := run.Pick(2, 12)
	for name, nodes := range shapes {
		for _, noFwd := range []bool{false, true} {
			permutations(len(nodes), func(p []int) {
				for rep := 0; rep < reps; rep++ {
					jobs = append(jobs, job{id: fmt.Sprintf("shape:%s:fwd=%v:%v#%d", name, !noFwd, p, rep), nodes: nodes, order: append([]int{}, p...), noFwd: noFwd})
				}
			})
		}
	}
	run.Set("exhaustive_orders_of_small_graphs", len(jobs)/reps)
	nRand := run.Pick(1500, 100000)
	for i := 0; i < nRand; i++ {
		id := fmt.Sprintf("rand-%d#0", i)
		r := run.Rand("graph:" + id)
		nodes := randomGraph(r, gen.DefaultSpace())
		if len(nodes) == 0 {
			continue
		}
		jobs = append(jobs, job{id: id, nodes: nodes, order: r.Perm(len(nodes)), noFwd: i%5 == 4, perturb: true})
	}
	// scale: thousands of operations held at the same time (groups waiting for a
	// next-hop that never comes), next to chains whose next-hop arrives last
	for k := 0; k < run.Pick(3, 8); k++ {
		var nodes []node
		for q := 0; q < 3000+400*k; q++ {
			nodes = append(nodes, node{t: canon.NHG, ni: "VRF2", key: 0, nhs: []uint64{3}, rawID: uint64(5000 + q)})
		}
		for c := 0; c < 4; c++ {
			nodes = append(nodes, node{t: canon.V4, ni: "DEFAULT", key: c % 2, nhg: uint64(1 + c%3), rawPfx: fmt.Sprintf("10.%d.0.0/16", 100+c)})
		}
		for c := 0; c < 3; c++ {
			nodes = append(nodes, node{t: canon.NHG, ni: "DEFAULT", key: c, nhs: []uint64{1}})
		}
		nodes = append(nodes, node{t: canon.NH, ni: "DEFAULT", key: 0})
		order := make([]int, len(nodes))
		for q := range order {
			order[q] = q
		}
		jobs = append(jobs, job{id: fmt.Sprintf("scale-%d#0", k), nodes: nodes, order: order, via: k % 2})
	}
	ev.Parallel(len(jobs), ev.Workers(), func(i int) {
		if run.Want(jobs[i].id) {
			if i%3 == 2 {
				jobs[i].via = 1
				if i%90 == 2 {
					jobs[i].via = 2
				}
			}
			runJob(run, jobs[i])
		}
	})
	run.Sample(map[string]any{"shapes": len(shapes), "example_shape": "cross-ni: NH(DEFAULT,1) <- NHG(DEFAULT,1) <- {ipv4 in VRF1 naming DEFAULT, ipv6 in VRF2 naming DEFAULT}; all 24 arrival orders x both forward-reference modes"})
	run.Finish("(a) 12 hand-written dependency graphs of 3-6 operations (chains over all three top-level tables, cross-NI and own-NI-named group refs, shared next-hops, backups present/missing, dependencies that never arrive, two writes of one key): ALL arrival orders, both forward-reference modes, repeated to sample Go's map-iteration order of the retry walk; (b) random graphs over 1-3 NIs in random order followed by random delete/re-add/replace/full-flush perturbations. After every operation: verdict vs model, hooked pending set == model's held set, nothing resolvable left held, no dangling reference. Non-trivial = something installed", 200, false)
}
