// C15: reconciler output converges the target RIB to the intended RIB.
package c15

import (
	"context"
	"fmt"
	"sort"
	"strings"
	"testing"

	"github.com/openconfig/gribigo/rib"
	"github.com/openconfig/gribigo/rib/reconciler"
	"github.com/openconfig/gribigo/server"
	"sync/atomic"

	aftpb "github.com/openconfig/gribi/v1/proto/gribi_aft"
	spb "github.com/openconfig/gribi/v1/proto/service"

	"verifharness/canon"
	"verifharness/drv"
	"verifharness/ev"
	"verifharness/gen"
	"verifharness/mon"
)

func newRIB(def string, nis []string) *rib.RIB {
	r := rib.New(def)
	for _, ni := range nis {
		if ni != def {
			r.AddNetworkInstance(ni)
		}
	}
	return r
}

func build(r *rib.RIB, ops []gen.OpSpec) error {
	for _, o := range ops {
		oks, fails, err := mon.Apply(r, o)
		if err != nil || len(fails) > 0 || len(oks) == 0 {
			return fmt.Errorf("cannot build RIB: %s => oks=%v fails=%v err=%v", o, oks, fails, err)
		}
	}
	if p := r.VerifPendingOps(); len(p) > 0 {
		return fmt.Errorf("built RIB has %d held operations", len(p))
	}
	return nil
}

func contents(r *rib.RIB) canon.Contents {
	rc, _ := r.RIBContents()
	return canon.FromYgot(rc)
}

func describe(op *spb.AFTOperation) string {
	k, p, _ := canon.OpKey(op)
	return fmt.Sprintf("#%d %s %s/%s %s", op.GetId(), op.GetOp(), op.GetNetworkInstance(), k, p)
}

func TestCheck(t *testing.T) {
	run := ev.Start(t, "C15", "exploration")
	n := run.Pick(3000, 60000)
	ev.Parallel(n, ev.Workers(), func(i int) {
		caseID := fmt.Sprintf("pair-%d", i)
		if !run.Want(caseID) {
			return
		}
		r := run.Rand(caseID)
		g := gen.New(r)
		g.S.Default = server.DefaultNetworkInstanceName
		g.Rich = i%2 == 0
		allNIs := g.S.NIs
		// every NI of the intended RIB exists on the target; the target may know more
		intNIs := allNIs[:1+r.Intn(len(allNIs))]
		tgtNIs := allNIs[:len(intNIs)+r.Intn(len(allNIs)-len(intNIs)+1)]
		mode := []string{"independent", "equal", "mutated"}[[]int{0, 0, 0, 1, 2, 2}[r.Intn(6)]]
		intOps := g.Closed(intNIs, 0.3+r.Float64()*0.6)
		var tgtOps []gen.OpSpec
		switch mode {
		case "independent":
			tgtOps = g.Closed(tgtNIs, 0.3+r.Float64()*0.6)
		case "equal":
			tgtOps = intOps
		case "mutated":
			// the intended content plus an independent overlay: payload changes, retargeted
			// references, extra entries (make-before-break swaps)
			tgtOps = append(append([]gen.OpSpec{}, intOps...), g.Closed(tgtNIs, 0.25)...)
		}
		intended := newRIB(g.S.Default, intNIs)
		target := newRIB(g.S.Default, tgtNIs)
		if err := build(intended, intOps); err != nil {
			run.Fatal(caseID + ": intended: " + err.Error())
			return
		}
		if mode == "independent" && i%4 == 2 {
			// a target that was programmed out of dependency order: groups arrive before
			// their next-hops and entries before their groups, are held, and are installed
			// when what they wait for arrives - nothing is held any more when the
			// reconciliation starts, and the contents are those of the in-order build
			sh := append([]gen.OpSpec{}, tgtOps...)
			r.Shuffle(len(sh), func(a, b int) { sh[a], sh[b] = sh[b], sh[a] })
			for _, o := range sh {
				if _, fails, err := mon.Apply(target, o); err != nil || len(fails) > 0 {
					run.Fatal(fmt.Sprintf("%s: target (shuffled build): %s => fails=%v err=%v", caseID, o, fails, err))
					return
				}
			}
			twin := newRIB(g.S.Default, tgtNIs)
			if err := build(twin, tgtOps); err != nil {
				run.Fatal(caseID + ": target twin: " + err.Error())
				return
			}
			if p := target.VerifPendingOps(); len(p) > 0 || contents(target).String() != contents(twin).String() {
				run.Fatal(fmt.Sprintf("%s: target built out of order differs from the in-order build (%d held)", caseID, len(p)))
				return
			}
			run.Count("targets_programmed_out_of_dependency_order", 1)
		} else if err := build(target, tgtOps); err != nil {
			run.Fatal(caseID + ": target: " + err.Error())
			return
		}
		if i%3 == 1 && len(tgtNIs) > 1 {
			// a target whose history contains a Flush of one instance: an instance that nothing
			// outside it refers to (the RIBs stay reference-closed) is flushed - its own entries
			// may well have referred to groups of other instances - and programmed again
			x := tgtNIs[1+r.Intn(len(tgtNIs)-1)]
			referenced := false
			for ni, m := range contents(target) {
				if ni == x {
					continue
				}
				for _, v := range m {
					if strings.Contains(v, fmt.Sprintf("nexthopgroupnetworkinstance:%q", x)) {
						referenced = true
					}
				}
			}
			if !referenced {
				if err := target.Flush([]string{x}); err != nil {
					run.Fatal(caseID + ": flush of the target's " + x + ": " + err.Error())
					return
				}
				if err := build(target, g.Closed(tgtNIs, 0.2)); err != nil {
					run.Fatal(caseID + ": target after flush: " + err.Error())
					return
				}
				run.Count("targets_with_a_flushed_instance_in_their_history", 1)
			}
		}
		var trace []string
		var tgt reconciler.RIBTarget = reconciler.NewLocalRIB(target)
		via := "local"
		if i%10 == 0 {
			// the target is observed through a real Get RPC
			srv, err := server.NewFake()
			if err != nil {
				run.Fatal(err.Error())
				return
			}
			srv.InjectRIB(target)
			gs := drv.Serve(srv.Server)
			defer gs.Stop()
			cc, _, err := gs.Dial()
			if err != nil {
				run.Fatal(err.Error())
				return
			}
			defer cc.Close()
			rr, err := reconciler.NewRemoteRIBWithStub(g.S.Default, spb.NewGRIBIClient(cc))
			if err != nil {
				run.Fatal(err.Error())
				return
			}
			tgt = rr
			via = "remote"
		}
		run.Seen("target_access", via)
		// One reconciliation, or (1 case in 3) a chain of 2-4 on the same live target: the
		// target of a later round carries the history of the earlier ones (groups replaced
		// while keeping members, entries retargeted, deletions).
		rounds := 1
		if i%3 == 1 {
			rounds = 2 + r.Intn(3)
		}
		var probs []string
		for round := 0; round < rounds && len(probs) == 0; round++ {
			if round > 0 {
				prev := intOps
				intOps = g.Closed(intNIs, 0.3+r.Float64()*0.6)
				if r.Intn(2) == 0 {
					// the previous intent plus an overlay: many keys keep part of their payload
					intOps = append(append([]gen.OpSpec{}, prev...), g.Closed(intNIs, 0.3)...)
				}
				intended = newRIB(g.S.Default, intNIs)
				if err := build(intended, intOps); err != nil {
					run.Fatal(caseID + ": intended: " + err.Error())
					return
				}
				run.Count("chained_reconciliations", 1)
			}
			want := contents(intended)
			before := contents(target)
			trace = append(trace, fmt.Sprintf("round %d mode=%s", round+1, mode), "intended:\n"+want.String(), "target before:\n"+before.String())
			base := uint64(r.Intn(1000))
			id := &atomic.Uint64{}
			id.Store(base)
			ops, err := reconciler.New(reconciler.NewLocalRIB(intended), tgt).Reconcile(context.Background(), id)
			if err != nil {
				probs = append(probs, fmt.Sprintf("reconcile-error|%v", err))
			}
			if err == nil {
				seq := [][]*spb.AFTOperation{ops.Add.NH, ops.Add.NHG, ops.Add.TopLevel, ops.Replace.NH, ops.Replace.NHG, ops.Replace.TopLevel, ops.Delete.TopLevel, ops.Delete.NHG, ops.Delete.NH}
				names := []string{"add.nh", "add.nhg", "add.top", "replace.nh", "replace.nhg", "replace.top", "delete.top", "delete.nhg", "delete.nh"}
				var ids []uint64
				total := 0
				for si, list := range seq {
					for _, op := range list {
						total++
						ids = append(ids, op.GetId())
						trace = append(trace, names[si]+": "+describe(op))
						oks, fails, err := mon.Apply(target, gen.OpSpec{NI: op.GetNetworkInstance(), Op: op})
						if err != nil || len(fails) > 0 || len(oks) == 0 || oks[0] != op.GetId() {
							probs = append(probs, fmt.Sprintf("reconcile-op-rejected:%s|%s => oks=%v fails=%v err=%v", names[si], describe(op), oks, fails, err))
						}
						run.Seen("op_classes", names[si])
					}
				}
				run.Count("ops_applied", int64(total))
				if want.String() == before.String() && total != 0 {
					probs = append(probs, fmt.Sprintf("reconcile-ops-for-equal-ribs|%d operations for equal RIBs", total))
				}
				sort.Slice(ids, func(a, b int) bool { return ids[a] < ids[b] })
				for k, v := range ids {
					if v != base+uint64(k)+1 {
						probs = append(probs, fmt.Sprintf("reconcile-ids-not-consecutive|ids %v, base %d", ids, base))
						break
					}
				}
				if id.Load() != base+uint64(total) {
					probs = append(probs, fmt.Sprintf("reconcile-id-counter|counter %d after %d ops from base %d", id.Load(), total, base))
				}
				after := contents(target)
				for _, d := range canon.Diff(want, after) {
					f := strings.Fields(d)
					sig := "not-converged:" + f[0]
					if f[0] == "extra" {
						ni := strings.SplitN(f[1], "/", 2)[0]
						if _, ok := want[ni]; !ok {
							sig += ":target-only-ni"
						}
					}
					probs = append(probs, fmt.Sprintf("%s|after applying the reconciler's operations: %s", sig, d))
				}
				if len(target.VerifPendingOps()) > 0 {
					probs = append(probs, fmt.Sprintf("reconcile-left-held-operations|%d", len(target.VerifPendingOps())))
				}
			}
			if len(tgtNIs) > len(intNIs) && len(before[tgtNIs[len(tgtNIs)-1]]) > 0 {
				run.Count("pairs_with_populated_target_only_ni", 1)
			}
			if want.String() != before.String() {
				run.Distinct(want.String() + "|" + before.String())
			}
			run.Eval(1) // one evaluation = one reconciliation
		}
		mon.Report(run, caseID, trace, probs)
		run.Seen("modes", mode)
		if i < 2 {
			run.Sample(map[string]any{"case": caseID, "trace": trace})
		}
	})
	expiredContextThenRetry(run)
	run.Finish("pairs of reference-closed RIBs without held operations over 1-3 NIs (target NIs a superset of intended NIs; independent / equal / intended-plus-overlay pairs; rich and compact payloads); Reconcile, apply Add NH,NHG,top / Replace NH,NHG,top / Delete top,NHG,NH one by one to the live target (reference checks on, each must be acknowledged), then target contents == intended contents, ids = base+1..base+n; 1 in 10 pairs observe the target through a real Get RPC (RemoteRIB). 1 case in 3 chains 2-4 reconciliations on the same live target (new independent intent, or the previous intent plus an overlay). Non-trivial = the two RIBs differ", 50, false)
}

// expiredContextThenRetry: a reconciliation of two large RIBs whose context has already
// expired (the caller gave up), followed at once by a retry that shares the id counter, as
// a caller that keeps one counter per target does. Whatever the first call returns, the
// retry's ids must count up from the counter's value at the moment of the call, without
// gaps, and leave the counter at base+n: nothing of the first call may still be using it.
func expiredContextThenRetry(run *ev.Run) {
	n := run.Pick(6, 80)
	ev.Parallel(n, 4, func(i int) {
		caseID := fmt.Sprintf("expired-context-%d", i)
		if !run.Want(caseID) {
			return
		}
		r := run.Rand(caseID)
		nis := []string{server.DefaultNetworkInstanceName, "VRF1"}
		intended, target := newRIB(nis[0], nis), newRIB(nis[0], nis)
		size := 400 + r.Intn(1200)
		for k := 0; k < size; k++ {
			ni := nis[k%2]
			op := &spb.AFTOperation{Id: uint64(k + 1), NetworkInstance: ni, Op: spb.AFTOperation_ADD,
				Entry: &spb.AFTOperation_NextHop{NextHop: &aftpb.Afts_NextHopKey{Index: uint64(k + 1), NextHop: &aftpb.Afts_NextHop{IpAddress: gen.S("192.0.2.1")}}}}
			if _, _, err := intended.AddEntry(ni, op); err != nil {
				run.Fatal(caseID + ": " + err.Error())
				return
			}
		}
		id := &atomic.Uint64{}
		id.Store(uint64(r.Intn(1000)))
		var probs []string
		rec := reconciler.New(reconciler.NewLocalRIB(intended), reconciler.NewLocalRIB(target))
		ctx, cancel := context.WithCancel(context.Background())
		cancel()
		base1 := id.Load()
		ops1, err1 := rec.Reconcile(ctx, id)
		check := func(what string, base uint64, ops *reconciler.ReconcileOps) {
			var ids []uint64
			for _, list := range [][]*spb.AFTOperation{ops.Add.NH, ops.Add.NHG, ops.Add.TopLevel, ops.Replace.NH, ops.Replace.NHG, ops.Replace.TopLevel, ops.Delete.TopLevel, ops.Delete.NHG, ops.Delete.NH} {
				for _, op := range list {
					ids = append(ids, op.GetId())
				}
			}
			sort.Slice(ids, func(a, b int) bool { return ids[a] < ids[b] })
			if len(ids) != size {
				probs = append(probs, fmt.Sprintf("not-converged:missing|%s returned %d operations for %d missing next-hops", what, len(ids), size))
				return
			}
			for k, v := range ids {
				if v != base+uint64(k)+1 {
					probs = append(probs, fmt.Sprintf("reconcile-ids-not-consecutive|%s: id #%d is %d, base %d (ids must be base+1..base+%d)", what, k+1, v, base, size))
					return
				}
			}
			if got := id.Load(); got != base+uint64(size) {
				probs = append(probs, fmt.Sprintf("reconcile-id-counter|%s: counter %d after %d operations from base %d", what, got, size, base))
			}
		}
		if err1 == nil && ops1 != nil {
			check("the call with the expired context", base1, ops1)
		}
		if len(probs) == 0 {
			base2 := id.Load()
			ops2, err2 := rec.Reconcile(context.Background(), id)
			if err2 != nil {
				probs = append(probs, "reconcile-error|retry after an expired context: "+err2.Error())
			} else {
				check("the retry after a call whose context had expired", base2, ops2)
			}
		}
		mon.Report(run, caseID, []string{fmt.Sprintf("%d next-hops to add over 2 instances; first call with an expired context returned err=%v", size, err1)}, probs)
		run.Eval(1)
		run.Count("retries_after_an_expired_context", 1)
	})
}
