#!/bin/bash
# tools/run_all.sh <quick|thorough> [seed ...]: runs every claimed check, prints one line per check.
TIER="${1:-quick}"; shift
SEEDS="${*:-1}"
cd "$(dirname "${BASH_SOURCE[0]}")/.."
for s in $SEEDS; do
  for c in C01 C02 C03 C04 C05 C06 C07 C08 C09 C10 C11 C12 C13 C14 C15 C16 C17 C18 C19; do
    start=$(date +%s)
    out="$(VERIF_SEED=$s ./check $c $TIER 2>&1)"; rc=$?
    echo "seed=$s $c exit=$rc $(( $(date +%s) - start ))s :: $(echo "$out" | grep SUMMARY | cut -c1-160)"
    [ $rc -ne 0 ] && echo "$out" | grep -v SUMMARY | head -12 | cut -c1-400
  done
done
