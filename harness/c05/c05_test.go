// C05: primary = highest 128-bit election id; the reported id is the running maximum.
package c05

import (
	"fmt"
	"math/big"
	"math/rand"
	"strings"
	"sync"
	"testing"
	"time"

	"github.com/anishathalye/porcupine"
	"github.com/openconfig/gribigo/server"

	aftpb "github.com/openconfig/gribi/v1/proto/gribi_aft"
	spb "github.com/openconfig/gribi/v1/proto/service"

	"verifharness/drv"
	"verifharness/ev"
	"verifharness/mon"
)

type id128 struct{ hi, lo uint64 }

func (i id128) big() *big.Int {
	b := new(big.Int).SetUint64(i.hi)
	b.Lsh(b, 64)
	return b.Add(b, new(big.Int).SetUint64(i.lo))
}
func (i id128) pb() *spb.Uint128  { return &spb.Uint128{High: i.hi, Low: i.lo} }
func (i id128) String() string    { return fmt.Sprintf("(%d,%d)", i.hi, i.lo) }
func fromPB(u *spb.Uint128) id128 { return id128{u.GetHigh(), u.GetLow()} }
func (i id128) zero() bool        { return i.hi == 0 && i.lo == 0 }

type sess struct {
	*drv.Session
	name string
	last *id128
	dead bool
}

type world struct {
	srv   *server.Server
	ss    []*sess
	max   *id128
	prim  int // index of primary session, -1 none
	trace []string
	opID  uint64
}

func newWorld(n int) (*world, error) {
	srv, err := drv.NewServer(nil)
	if err != nil {
		return nil, err
	}
	w := &world{srv: srv, prim: -1, opID: 1}
	for i := 0; i < n; i++ {
		if err := w.connect(); err != nil {
			return nil, err
		}
	}
	return w, nil
}

func (w *world) connect() error {
	s := &sess{Session: &drv.Session{Stream: drv.OpenModify(w.srv), Name: fmt.Sprintf("s%d", len(w.ss)), DefaultNI: server.DefaultNetworkInstanceName}, name: fmt.Sprintf("s%d", len(w.ss))}
	if _, err := s.Params(drv.SinglePrimary(false)); err != nil {
		return fmt.Errorf("params: %v", err)
	}
	w.ss = append(w.ss, s)
	return nil
}

// announce performs one announcement on session k and checks the reply against the model.
func (w *world) announce(k int, id id128) []string {
	s := w.ss[k]
	rep, err := s.Elect(id.pb())
	w.trace = append(w.trace, fmt.Sprintf("%s announces %s -> %v %v", s.name, id, rep, err))
	if id.zero() {
		s.dead = true
		if err == nil {
			return []string{fmt.Sprintf("zero-id-accepted|%s announced the zero id and was answered %v", s.name, rep)}
		}
		return nil
	}
	if err != nil {
		s.dead = true
		return []string{fmt.Sprintf("announcement-rejected|%s announcing %s: %v", s.name, id, err)}
	}
	if w.max == nil || id.big().Cmp(w.max.big()) >= 0 {
		v := id
		w.max = &v
		w.prim = k
	}
	v := id
	s.last = &v
	got := fromPB(rep)
	if got != *w.max {
		rel := relation(id, got, *w.max)
		return []string{fmt.Sprintf("reported-id-not-running-max:%s|after %s announced %s the server reported %s, the maximum announced so far is %s", rel, s.name, id, got, *w.max)}
	}
	return nil
}

func relation(announced, reported, max id128) string {
	switch {
	case reported == announced:
		return "reported-the-announced-lower-id"
	case reported.big().Cmp(max.big()) < 0:
		return "reported-below-max"
	}
	return "reported-above-max"
}

// probe sends one operation per live session, stamped with its last id, and checks who is accepted.
func (w *world) probe() []string {
	var probs []string
	for k, s := range w.ss {
		if s.dead || s.last == nil {
			continue
		}
		w.opID++
		op := &spb.AFTOperation{Id: w.opID, NetworkInstance: server.DefaultNetworkInstanceName, Op: spb.AFTOperation_ADD, ElectionId: s.last.pb(),
			Entry: &spb.AFTOperation_NextHop{NextHop: &aftpb.Afts_NextHopKey{Index: 1 + uint64(k), NextHop: &aftpb.Afts_NextHop{IpAddress: &wpbS{Value: "192.0.2.1"}}}}}
		res := s.Ops([]*spb.AFTOperation{op}, s.last.pb())
		should := k == w.prim && *s.last == *w.max
		accepted := false
		for _, r := range res.Results {
			if r.GetId() == op.Id && r.GetStatus() == spb.AFTResult_RIB_PROGRAMMED {
				accepted = true
			}
		}
		w.trace = append(w.trace, fmt.Sprintf("probe %s stamped %s -> accepted=%v (rpcErr=%v)", s.name, s.last, accepted, res.RPCErr))
		if res.RPCErr != nil {
			s.dead = true
		}
		switch {
		case accepted && !should:
			why := "it is not the primary"
			if k == w.prim {
				why = "its last announced id is below the maximum"
			}
			probs = append(probs, fmt.Sprintf("non-primary-operation-accepted|%s's operation was programmed although %s (primary is s%d, max %s)", s.name, why, w.prim, w.max))
		case !accepted && should:
			probs = append(probs, fmt.Sprintf("primary-operation-rejected|%s is the primary with the maximum id %s but its operation was not programmed (%v, rpcErr=%v)", s.name, w.max, res.Results, res.RPCErr))
		}
	}
	return probs
}

func (w *world) close() {
	for _, s := range w.ss {
		s.CloseSend()
	}
}

type wpbS = wrapperString

var halves = []uint64{0, 1, 2, ^uint64(0)}

func lattice() []id128 {
	var out []id128
	for _, h := range halves {
		for _, l := range halves {
			out = append(out, id128{h, l})
		}
	}
	return out
}

func boundaryID(r *rand.Rand, near *id128) id128 {
	pick := func() uint64 {
		switch r.Intn(7) {
		case 0:
			return 0
		case 1:
			return 1
		case 2:
			return ^uint64(0)
		case 3:
			return 1 << 63
		case 4:
			return uint64(r.Intn(8))
		default:
			return r.Uint64()
		}
	}
	if near != nil && r.Intn(2) == 0 {
		// neighbours of a previous id: equal, +-1 in either half, halves swapped
		n := *near
		switch r.Intn(7) {
		case 0:
			return n
		case 1:
			return id128{n.hi, n.lo + 1}
		case 2:
			return id128{n.hi, n.lo - 1}
		case 3:
			return id128{n.hi + 1, n.lo - 1}
		case 4:
			return id128{n.hi - 1, n.lo + 1}
		case 5:
			return id128{n.lo, n.hi}
		default:
			return id128{n.hi + 1, 0}
		}
	}
	return id128{pick(), pick()}
}

func runSeq(run *ev.Run, caseID string, nSess int, mid *rand.Rand, seq []struct {
	k  int
	id id128
}) {
	w, err := newWorld(nSess)
	if err != nil {
		run.Fatal(caseID + ": " + err.Error())
		return
	}
	defer w.close()
	var probs []string
	for _, a := range seq {
		if w.ss[a.k].dead {
			continue
		}
		probs = append(probs, w.announce(a.k, a.id)...)
		if len(probs) > 0 {
			break
		}
		if mid == nil {
			continue
		}
		// between announcements: operations by every session (who is primary NOW), and
		// Flush RPCs carrying ids around the maximum - a Flush is not an announcement: it
		// must leave the reported maximum and the primary as they are
		if mid.Intn(2) == 0 {
			probs = append(probs, w.probe()...)
			run.Count("probes_between_announcements", 1)
		}
		if len(probs) == 0 && mid.Intn(8) == 0 {
			// everybody leaves, and as many fresh sessions connect in their place: the highest id
			// learnt survives the sessions (it is the id of the election, not of a connection)
			n := len(w.ss)
			for _, s := range w.ss {
				s.CloseSend()
				if st, ok := s.Stream.(*drv.ModStream); ok {
					st.WaitEnd()
				}
			}
			w.ss = nil
			w.prim = -1
			for k := 0; k < n && len(probs) == 0; k++ {
				if err := w.connect(); err != nil {
					probs = append(probs, "announcement-rejected|a fresh session could not negotiate after every session had left: "+err.Error())
				}
			}
			w.trace = append(w.trace, fmt.Sprintf("all %d sessions leave, %d fresh ones connect", n, n))
			run.Count("times_every_session_left", 1)
		}
		if len(probs) == 0 && w.max != nil && mid.Intn(3) == 0 {
			m := *w.max
			fid := []id128{{m.hi + 1, 0}, {m.hi, m.lo + 1}, m, {m.hi, m.lo - 1}, {m.hi + 1, m.lo - 1}}[mid.Intn(5)]
			req := &spb.FlushRequest{NetworkInstance: &spb.FlushRequest_All{All: &spb.Empty{}}, Election: &spb.FlushRequest_Id{Id: fid.pb()}}
			if mid.Intn(4) == 0 {
				req.Election = &spb.FlushRequest_Override{Override: &spb.Empty{}}
			}
			_, ferr, _ := drv.Flush(w.srv, req)
			w.trace = append(w.trace, fmt.Sprintf("Flush(all) with %v -> %v", req.GetElection(), ferr))
			run.Count("flushes_between_announcements", 1)
			if len(probs) == 0 && mid.Intn(2) == 0 {
				probs = append(probs, w.probe()...)
			}
		}
		if len(probs) > 0 {
			break
		}
	}
	if len(probs) == 0 {
		probs = w.probe()
	}
	for _, p := range probs {
		i := strings.Index(p, "|")
		run.Violation(caseID, p[:i], p[i+1:], map[string]any{"history": w.trace})
	}
	run.Eval(1)
	run.Count("announcements", int64(len(seq)))
	// ordering relation (hi,lo) x (hi',lo') of consecutive announcements
	for i := 1; i < len(seq); i++ {
		a, b := seq[i-1].id, seq[i].id
		run.Seen("half_order_relations", fmt.Sprintf("hi%s,lo%s", cmp(a.hi, b.hi), cmp(a.lo, b.lo)))
	}
}

func cmp(a, b uint64) string {
	switch {
	case a < b:
		return "<"
	case a > b:
		return ">"
	}
	return "="
}

type ann = struct {
	k  int
	id id128
}

func TestCheck(t *testing.T) {
	run := ev.Start(t, "C05", "exploration")
	lat := lattice()

	// (a) exhaustive lattice: all ordered pairs and triples of the 16 lattice ids (zero included:
	// it must be rejected and change nothing), announced by distinct sessions.
	type job struct {
		id  string
		n   int
		seq []ann
	}
	var jobs []job
	for a := range lat {
		for b := range lat {
			jobs = append(jobs, job{fmt.Sprintf("pair:%d:%d", a, b), 2, []ann{{0, lat[a]}, {1, lat[b]}}})
			jobs = append(jobs, job{fmt.Sprintf("pair-same-session:%d:%d", a, b), 2, []ann{{0, lat[a]}, {0, lat[b]}}})
			for c := range lat {
				jobs = append(jobs, job{fmt.Sprintf("triple:%d:%d:%d", a, b, c), 3, []ann{{0, lat[a]}, {1, lat[b]}, {2, lat[c]}}})
			}
		}
	}
	run.Set("lattice_sequences_enumerated", len(jobs))
	// (b) boundary-structured random sequences
	nRand := run.Pick(6000, 400000)
	for i := 0; i < nRand; i++ {
		id := fmt.Sprintf("rand-%d", i)
		r := run.Rand(id)
		n := 2 + r.Intn(3)
		var seq []ann
		var prev *id128
		for k := 0; k < 2+r.Intn(6); k++ {
			v := boundaryID(r, prev)
			if v.zero() && r.Intn(4) > 0 {
				v.lo = 1
			}
			seq = append(seq, ann{r.Intn(n), v})
			pv := v
			prev = &pv
		}
		jobs = append(jobs, job{id, n, seq})
	}
	ev.Parallel(len(jobs), ev.Workers(), func(i int) {
		j := jobs[i]
		if !run.Want(j.id) {
			return
		}
		var mid *rand.Rand
		if i%2 == 1 {
			mid = run.Rand("mid:" + j.id)
		}
		runSeq(run, j.id, j.n, mid, j.seq)
		run.Distinct(fmt.Sprint(j.seq))
	})

	// (c) concurrent announcements: porcupine max-register + quiescent probe
	nConc := run.Pick(40, 300)
	for c := 0; c < nConc; c++ {
		caseID := fmt.Sprintf("concurrent-%d", c)
		if !run.Want(caseID) {
			continue
		}
		concurrent(run, caseID)
	}
	// (d) rounds of simultaneous announcements of distinct, rising ids, each followed by a probe
	concurrentRounds(run)
	run.Sample(map[string]any{"lattice_halves": []string{"0", "1", "2", "2^64-1"}, "example": "pair:6:9 = s0 announces (1,2), s1 announces (2,1): reply to s1 must be (2,1) and only s1's operation is programmed"})
	run.CollectRaces()
	run.Finish("(a) every ordered pair (by distinct sessions and by one session) and triple of the 16 ids whose 64-bit halves are in {0,1,2,2^64-1} - exhaustive for that lattice; (b) random sequences of 2-7 announcements by 2-4 sessions over boundary-structured ids (neighbours +-1 in either half, swapped halves, repeats, decreases, ties); after each announcement the reply must be the running 128-bit maximum, afterwards one operation per session decides who is primary; in every other sequence the sessions also operate BETWEEN announcements (the primary at that moment, nobody else, is accepted) and Flush RPCs carrying ids above / equal to / below the maximum are interleaved (a Flush is not an announcement: later replies still carry the maximum ANNOUNCED), and now and then every session leaves and fresh ones connect (the maximum survives the sessions); (c) concurrent announcements by 8 sessions on separate direct streams under the race detector, history checked with porcupine against a max-register, then the same probe at quiescence. Distinct = by announcement sequence", 500, false)
}

func concurrent(run *ev.Run, caseID string) {
	r := run.Rand(caseID)
	nS := 4 + r.Intn(5)
	per := 20 + r.Intn(30)
	w, err := newWorld(nS)
	if err != nil {
		run.Fatal(err.Error())
		return
	}
	defer w.close()
	// pre-draw ids: rising per session with occasional decreases and ties across sessions
	plan := make([][]id128, nS)
	base := id128{uint64(r.Intn(3)), r.Uint64() >> 1}
	for k := range plan {
		cur := base
		for j := 0; j < per; j++ {
			switch r.Intn(6) {
			case 0:
				cur = id128{cur.hi + 1, uint64(r.Intn(4))}
			case 1:
				cur = id128{cur.hi, cur.lo - uint64(1+r.Intn(3))}
			default:
				cur = id128{cur.hi, cur.lo + uint64(r.Intn(4))}
			}
			if cur.zero() {
				cur.lo = 1
			}
			plan[k] = append(plan[k], cur)
		}
	}
	y := mon.NewYielder(r.Int63(), uint64(2+r.Intn(6)), 150)
	server.VerifSetPoint(y.Point)
	defer func() {
		server.VerifSetPoint(nil)
		for k, v := range y.Hits() {
			run.Count("yield_point:"+k, v)
		}
	}()
	start := time.Now()
	var mu sync.Mutex
	var ops []porcupine.Operation
	var wg sync.WaitGroup
	fail := make([]string, nS)
	for k := 0; k < nS; k++ {
		wg.Add(1)
		go func(k int) {
			defer wg.Done()
			s := w.ss[k]
			for _, id := range plan[k] {
				call := time.Since(start).Nanoseconds()
				rep, err := s.Elect(id.pb())
				ret := time.Since(start).Nanoseconds()
				if err != nil {
					fail[k] = fmt.Sprintf("%s announcing %s: %v", s.name, id, err)
					s.dead = true
					return
				}
				v := id
				s.last = &v
				mu.Lock()
				ops = append(ops, porcupine.Operation{ClientId: k, Input: id, Call: call, Output: fromPB(rep), Return: ret})
				mu.Unlock()
			}
		}(k)
	}
	wg.Wait()
	for _, f := range fail {
		if f != "" {
			run.Violation(caseID, "announcement-rejected", f, nil)
			return
		}
	}
	model := porcupine.Model{
		Init: func() any { return id128{} },
		Step: func(st, in, out any) (bool, any) {
			cur, a := st.(id128), in.(id128)
			if a.big().Cmp(cur.big()) >= 0 {
				cur = a
			}
			return out.(id128) == cur, cur
		},
		DescribeOperation: func(in, out any) string { return fmt.Sprintf("announce%s->%s", in, out) },
	}
	res, info := porcupine.CheckOperationsVerbose(model, ops, 2*time.Minute)
	run.Count("concurrent_histories", 1)
	run.Count("concurrent_announcements", int64(len(ops)))
	switch res {
	case porcupine.Unknown:
		run.Inconclusive(caseID + ": porcupine timed out")
	case porcupine.Illegal:
		_ = info
		var hist []string
		for _, o := range ops {
			hist = append(hist, fmt.Sprintf("s%d [%d,%d] announce%s -> %s", o.ClientId, o.Call, o.Return, o.Input, o.Output))
		}
		run.Violation(caseID, "concurrent-history-not-a-max-register", "no linearisation of the announcements explains the reported ids", map[string]any{"history": hist})
	}
	// quiescent probe
	max := id128{}
	for _, p := range plan {
		for _, id := range p {
			if id.big().Cmp(max.big()) > 0 {
				max = id
			}
		}
	}
	rep, err := w.ss[0].Elect(id128{0, 1}.pb())
	if err == nil && fromPB(rep) != max {
		run.Violation(caseID, "quiescent-id-not-max", fmt.Sprintf("after quiescence the server reports %s, maximum announced %s", fromPB(rep), max), nil)
	}
	v := id128{0, 1}
	w.ss[0].last = &v
	accepted := 0
	for k, s := range w.ss {
		if s.dead || s.last == nil {
			continue
		}
		w.opID++
		op := &spb.AFTOperation{Id: w.opID, NetworkInstance: server.DefaultNetworkInstanceName, Op: spb.AFTOperation_ADD, ElectionId: s.last.pb(),
			Entry: &spb.AFTOperation_NextHop{NextHop: &aftpb.Afts_NextHopKey{Index: 1 + uint64(k), NextHop: &aftpb.Afts_NextHop{IpAddress: &wpbS{Value: "192.0.2.1"}}}}}
		rs := s.Ops([]*spb.AFTOperation{op}, s.last.pb())
		for _, r := range rs.Results {
			if r.GetId() == op.Id && r.GetStatus() == spb.AFTResult_RIB_PROGRAMMED {
				accepted++
				if *s.last != max {
					run.Violation(caseID, "non-primary-operation-accepted", fmt.Sprintf("%s (last id %s) programmed an operation; maximum is %s", s.name, s.last, max), nil)
				}
			}
		}
	}
	if accepted > 1 {
		run.Violation(caseID, "two-primaries", fmt.Sprintf("%d sessions had operations programmed at quiescence", accepted), nil)
	}
	run.Eval(1)
	run.Distinct(fmt.Sprint(plan))
}

// concurrentRounds: in every round each of 3-8 sessions announces, at the same moment, an id
// of its own that is higher than everything announced before; the ids of a round are
// distinct, so whatever the interleaving the announcer of the round's highest id is the
// primary afterwards: its operation (stamped with that id) must be programmed and the
// operation of another session (stamped with ITS last id) must not. The election's yield
// points are perturbed; what is judged is the quiescent state after each round.
func concurrentRounds(run *ev.Run) {
	n := run.Pick(64, 1200)
	y := mon.NewYielder(run.Seed+77, 2, 60)
	server.VerifSetPoint(y.Point)
	defer func() {
		server.VerifSetPoint(nil)
		for k, v := range y.Hits() {
			run.Count("yield_point_rounds:"+k, v)
		}
	}()
	ev.Parallel(n, ev.Workers(), func(i int) {
		caseID := fmt.Sprintf("rounds-%d", i)
		if !run.Want(caseID) {
			return
		}
		r := run.Rand(caseID)
		nS := 3 + r.Intn(6)
		w, err := newWorld(nS)
		if err != nil {
			run.Fatal(err.Error())
			return
		}
		defer w.close()
		hi := uint64(r.Intn(3))
		base := r.Uint64() >> 2
		rounds := 30 + r.Intn(50)
		var trace []string
		for t := 0; t < rounds; t++ {
			perm := r.Perm(nS)
			if r.Intn(8) == 0 {
				hi++ // the low word may go down when the high word goes up
				base = uint64(r.Intn(1000))
			}
			ids := make([]id128, nS)
			for k := range ids {
				ids[k] = id128{hi, base + uint64(t)*16 + uint64(perm[k]) + 1}
			}
			errs := make([]error, nS)
			reps := make([]id128, nS)
			start := make(chan struct{})
			var wg sync.WaitGroup
			for k := 0; k < nS; k++ {
				wg.Add(1)
				go func(k int) {
					defer wg.Done()
					<-start
					rep, err := w.ss[k].Elect(ids[k].pb())
					errs[k] = err
					if err == nil {
						reps[k] = fromPB(rep)
					}
				}(k)
			}
			close(start)
			wg.Wait()
			top := 0
			for k := range ids {
				if ids[k].lo > ids[top].lo {
					top = k
				}
			}
			trace = append(trace, fmt.Sprintf("round %d: ids %v announced simultaneously, replies %v", t, ids, reps))
			if len(trace) > 12 {
				trace = trace[len(trace)-12:]
			}
			var probs []string
			for k := range ids {
				if errs[k] == drv.ErrWatchdog {
					run.Inconclusive(caseID + ": an announcement was not answered within the watchdog")
					run.Eval(1)
					return
				}
				if errs[k] != nil {
					probs = append(probs, fmt.Sprintf("announcement-rejected|s%d announcing %s: %v", k, ids[k], errs[k]))
				} else if reps[k].big().Cmp(ids[k].big()) < 0 || reps[k].big().Cmp(ids[top].big()) > 0 {
					probs = append(probs, fmt.Sprintf("reported-id-not-running-max:simultaneous|s%d announced %s and was told %s (highest of the round %s)", k, ids[k], reps[k], ids[top]))
				}
			}
			other := (top + 1 + r.Intn(nS-1)) % nS
			for _, k := range []int{top, other} {
				if len(probs) > 0 {
					break
				}
				w.opID++
				stamp := ids[k]
				if k != top && t%2 == 1 {
					stamp = ids[top] // the right id on the wrong session
				}
				op := &spb.AFTOperation{Id: w.opID, NetworkInstance: server.DefaultNetworkInstanceName, Op: spb.AFTOperation_ADD, ElectionId: stamp.pb(),
					Entry: &spb.AFTOperation_NextHop{NextHop: &aftpb.Afts_NextHopKey{Index: 1 + uint64(k), NextHop: &aftpb.Afts_NextHop{IpAddress: &wpbS{Value: "192.0.2.1"}}}}}
				res := w.ss[k].Ops([]*spb.AFTOperation{op}, stamp.pb())
				accepted := false
				for _, x := range res.Results {
					if x.GetId() == op.Id && x.GetStatus() == spb.AFTResult_RIB_PROGRAMMED {
						accepted = true
					}
				}
				switch {
				case k == top && !accepted:
					probs = append(probs, fmt.Sprintf("primary-operation-rejected:after-simultaneous-announcements|s%d announced the highest id %s of the round but its operation was not programmed (%v, rpc error %v)", k, ids[k], res.Results, res.RPCErr))
				case k != top && accepted:
					probs = append(probs, fmt.Sprintf("non-primary-operation-accepted:after-simultaneous-announcements|s%d (id %s) had an operation programmed, the highest id of the round is %s", k, ids[k], ids[top]))
				}
				if res.RPCErr != nil && len(probs) == 0 {
					probs = append(probs, fmt.Sprintf("session-ended-by-correctly-handled-operation|s%d: %v", k, res.RPCErr))
				}
			}
			run.Count("simultaneous_announcement_rounds", 1)
			if len(probs) > 0 {
				for _, p := range probs {
					j := strings.Index(p, "|")
					run.Violation(caseID, p[:j], p[j+1:], map[string]any{"history": trace})
				}
				break
			}
		}
		run.Eval(1)
		run.Distinct(caseID)
	})
}
