// C14: the client terminates cleanly under server faults.
package c14

import (
	"github.com/golang/glog"

	"context"
	"fmt"
	"io"
	"sort"
	"strings"
	"sync"
	"testing"
	"time"

	"github.com/openconfig/gribigo/client"
	"github.com/openconfig/gribigo/fluent"
	"google.golang.org/grpc/codes"
	"google.golang.org/grpc/status"

	aftpb "github.com/openconfig/gribi/v1/proto/gribi_aft"
	spb "github.com/openconfig/gribi/v1/proto/service"

	"verifharness/child"
	"verifharness/drv"
	"verifharness/ev"
	"verifharness/gen"
	"verifharness/mon"
)

type fault struct {
	// side: "send" | "recv" | "eof" as described below; "send-late" = "send" whose status
	// reaches the receive side 150 ms later; "recv-idle" = the stream fails on the receive
	// side when everything queued has been answered and the client had converged;
	// "recv-unused" = a client without session parameters, nothing ever queued, stream fails.
	side  string
	at    int // send: index (1-based) of the Send that fails; recv: responses delivered before the error
	code  codes.Code
	burst int    // further requests the application queues around the fault
	after string // "close" | "reset"
}

func (f fault) String() string {
	return fmt.Sprintf("%s@%d/%s/burst%d/%s", f.side, f.at, f.code, f.burst, f.after)
}

var faultCodes = []codes.Code{codes.Canceled, codes.Unknown, codes.InvalidArgument, codes.DeadlineExceeded, codes.FailedPrecondition, codes.Unimplemented, codes.Internal, codes.Unavailable}

func catalogue() []fault {
	var out []fault
	for _, after := range []string{"close", "reset"} {
		for _, burst := range []int{1, 3, 6, 20} {
			for _, c := range faultCodes {
				for at := 1; at <= 6; at++ {
					out = append(out, fault{"send", at, c, burst, after})
				}
				for at := 0; at <= 5; at++ {
					out = append(out, fault{"recv", at, c, burst, after})
				}
			}
			for at := 0; at <= 3; at++ {
				out = append(out, fault{"eof", at, codes.OK, burst, after})
			}
			// the stream itself stays up, but after `at` answers the server sends a result for an
			// operation id the client does not know: a receive-side failure produced by the
			// client's own processing of a response
			for at := 0; at <= 4; at += 2 {
				out = append(out, fault{"recv-unmatched", at, codes.Unknown, burst, after})
			}
			for _, c := range []codes.Code{codes.Unavailable, codes.Internal, codes.Canceled} {
				for at := 1; at <= 6; at += 2 {
					out = append(out, fault{"send-late", at, c, burst, after})
				}
				// a Send that fails with an error generated on the client side (returned by
				// Send itself, not io.EOF) while a waiter is inside AwaitConverged
				if burst == 3 {
					rc := map[codes.Code]codes.Code{codes.Unavailable: codes.ResourceExhausted, codes.Internal: codes.Internal, codes.Canceled: codes.Canceled}[c]
					for at := 3; at <= 6; at++ {
						out = append(out, fault{"send-direct", at, rc, burst, after})
					}
				}
				out = append(out, fault{"recv-idle", 0, c, burst, after})
			}
		}
		for _, c := range faultCodes {
			out = append(out, fault{"recv-unused", 0, c, 0, after})
		}
		// the client as the fluent wrapper (and with it the compliance suite) drives it: the
		// stream fails on the receive side, the test awaits, then Stop() - which must tear the
		// session down like Close does
		if after == "close" {
			for at := 0; at <= 3; at++ {
				for _, c := range []codes.Code{codes.Unavailable, codes.FailedPrecondition, codes.Canceled} {
					out = append(out, fault{"fluent-stop", at, c, 1, after})
				}
			}
		}
		// the same over the real gRPC stack: the handler ends the RPC with a status, or the
		// client's transport is cut under the RPC, after 0..4 answers
		for _, burst := range []int{1, 6, 20} {
			for at := 0; at <= 4; at++ {
				for _, c := range faultCodes {
					out = append(out, fault{"grpc-status", at, c, burst, after})
				}
				out = append(out, fault{"grpc-kill", at, codes.Unavailable, burst, after})
			}
		}
	}
	return out
}

const nChildren = 16

func TestCheck(t *testing.T) {
	if _, ok := child.IsChild(); ok {
		t.Skip("child process")
	}
	run := ev.Start(t, "C14", "fault_enumeration")
	cat := catalogue()
	run.Set("fault_catalogue_size", len(cat))
	ev.Parallel(nChildren, ev.Workers(), func(b int) {
		o := child.Run(child.Spec{Prop: "C14", Tier: run.Tier, Seed: run.Seed, Case: run.OnlyCase, Arg: fmt.Sprint(b)}, 60*time.Minute)
		child.Fold(run, fmt.Sprintf("child-%d", b), o, false)
	})
	run.Assume("after a Send failure the stream's status is what Recv returns (the gRPC contract); a clean end of stream (EOF / status OK) is exercised for hangs and leaks only - no error is demanded there")
	run.Finish("fault enumeration over a scripted stub stream: the Send with index 1..6 fails, or the stream fails on the receive side after 0..5 responses, for each of 8 gRPC status codes (plus clean EOF after 0..3 responses; a Send failure whose status reaches the receive side 150 ms later; a receive-side failure when everything has been answered and the client had converged; a failure on a stream nothing was ever sent on; a response carrying a result for an operation id the client does not know), while the application (one goroutine, or four at once) queues a burst of 1/3/6/20 further requests; then Close, or Reset + Connect on a fresh stream + a further exchange that must converge. Oracles (each wait under a watchdog, a firing counts only with a proven permanent block): every Q returns, Done is signalled, AwaitConverged returns the recorded error (never nil, never the context's), Close/Reset return and the receiver is not inside Recv on the failed stream when they do, no goroutine with a frame of the client package survives, and after Reset the client has no stale pending operations, results or errors. The same faults are also injected over the real gRPC stack (in-memory transport): the handler ends the RPC with each of the 8 status codes, or the client's transport is cut under the RPC, after 0..4 answers; there the recorded receive error must carry the status the handler returned. Repeated per tier with different interleaving (quick: 4 repetitions, thorough: 40). Distinct = by fault case", 100, false)
}

func nhReq(id uint64) *spb.ModifyRequest {
	return &spb.ModifyRequest{Operation: []*spb.AFTOperation{{Id: id, NetworkInstance: "DEFAULT", Op: spb.AFTOperation_ADD, ElectionId: &spb.Uint128{Low: 1},
		Entry: &spb.AFTOperation_NextHop{NextHop: &aftpb.Afts_NextHopKey{Index: id, NextHop: &aftpb.Afts_NextHop{IpAddress: gen.S("192.0.2.1")}}}}}}
}

type sink = *child.Collector

// autoAnswer answers every request on the stream (params, election, operations) until told to stop.
func autoAnswer(s *drv.FakeStream, limit int) func() int {
	answered := 0
	s.OnSend = func(_ int, m *spb.ModifyRequest) {
		if limit >= 0 && answered >= limit {
			return
		}
		switch {
		case m.Params != nil:
			s.Push(&spb.ModifyResponse{SessionParamsResult: &spb.SessionParametersResult{Status: spb.SessionParametersResult_OK}})
			answered++
		case m.ElectionId != nil:
			s.Push(&spb.ModifyResponse{ElectionId: m.ElectionId})
			answered++
		default:
			r := &spb.ModifyResponse{}
			for _, o := range m.Operation {
				r.Result = append(r.Result, &spb.AFTResult{Id: o.Id, Status: spb.AFTResult_RIB_PROGRAMMED})
			}
			s.Push(r)
			answered++
		}
	}
	return func() int { return answered }
}

func clientGoroutines() []string {
	var out []string
	for _, g := range mon.InRepo(mon.Dump(), "github.com/openconfig/gribigo/client.") {
		if strings.Contains(g.Stack, "verifharness/") {
			continue
		}
		out = append(out, fmt.Sprintf("g%s [%s]", g.ID, g.State))
	}
	sort.Strings(out)
	return out
}

// step runs fn under the case watchdog bookkeeping: it records which step is in flight.
type stepper struct {
	current string
}

func runCase(col sink, st *stepper, caseID string, f fault, rep int) {
	if strings.HasPrefix(f.side, "grpc-") {
		runGRPCCase(col, st, caseID, f, rep)
		return
	}
	if f.side == "fluent-stop" {
		runFluentCase(col, st, caseID, f, rep)
		return
	}
	problem := func(sig, txt string) {
		col.Violation(caseID, sig, txt, map[string]any{"fault": f.String()})
	}
	copts := []client.Opt{client.ElectedPrimaryClient(&spb.Uint128{Low: 1}), client.PersistEntries()}
	if f.side == "recv-unused" {
		copts = nil // no session parameters, no election id: StartSending sends nothing
	}
	c, err := client.New(copts...)
	if err != nil {
		col.Fatal(err.Error())
		return
	}
	fake := &drv.FakeGRIBI{}
	ferr := status.Error(f.code, "injected stream failure")
	fake.NewStream = func(s *drv.FakeStream) {
		switch f.side {
		case "send", "send-late", "send-direct":
			s.FailSendAt, s.FailErr = f.at, ferr
			if f.side == "send-direct" {
				s.FailDirect, s.SendFailDelay = true, 3*time.Millisecond
			}
			if f.side == "send-late" {
				s.StatusDelay = 150 * time.Millisecond
			}
			autoAnswer(s, -1)
		case "recv-idle", "recv-unused":
			autoAnswer(s, -1)
		case "recv":
			get := autoAnswer(s, f.at)
			inner := s.OnSend
			failed := false
			s.OnSend = func(n int, m *spb.ModifyRequest) {
				inner(n, m)
				if get() >= f.at && !failed {
					failed = true
					s.Fail(ferr)
				}
			}
			if f.at == 0 {
				s.Fail(ferr)
			}
		case "recv-unmatched":
			get := autoAnswer(s, f.at)
			inner := s.OnSend
			failed := false
			bad := &spb.ModifyResponse{Result: []*spb.AFTResult{{Id: 999999, Status: spb.AFTResult_FAILED}}}
			s.OnSend = func(n int, m *spb.ModifyRequest) {
				inner(n, m)
				if get() >= f.at && !failed {
					failed = true
					s.Push(bad)
				}
			}
			if f.at == 0 {
				failed = true
				s.Push(bad)
			}
		case "eof":
			get := autoAnswer(s, f.at)
			inner := s.OnSend
			failed := false
			s.OnSend = func(n int, m *spb.ModifyRequest) {
				inner(n, m)
				if get() >= f.at && !failed {
					failed = true
					s.Fail(io.EOF)
				}
			}
			if f.at == 0 {
				s.Fail(io.EOF)
			}
		}
	}
	c.UseStub(fake)
	ctx, cancel := context.WithCancel(context.Background())
	defer cancel()
	st.current = "Connect"
	if err := c.Connect(ctx); err != nil {
		col.Fatal(err.Error())
		return
	}
	// the channel the application obtained once, before anything happened: it is this very
	// channel that has to be signalled by every later failure of this client
	doneOnce := c.Done()
	if f.side == "send-direct" {
		// an application goroutine is waiting for convergence (again and again, with a short
		// deadline) while the Send that is going to fail is in progress
		stopW := make(chan struct{})
		wExited := make(chan struct{})
		go func() {
			defer close(wExited)
			for {
				select {
				case <-stopW:
					return
				default:
				}
				wc, cancelW := context.WithTimeout(ctx, time.Millisecond)
				c.AwaitConverged(wc)
				cancelW()
			}
		}()
		defer func() {
			close(stopW)
			select {
			case <-wExited:
			case <-time.After(25 * time.Second):
				// the waiter never came back: decided by the census / block classifier
			}
		}()
		col.Count("send_failures_with_a_waiter_inside_await_converged", 1)
	}
	id := uint64(1)
	pre := 4
	if f.side == "recv-unused" {
		pre = 0
	}
	heldBatch := rep%4 == 2 && (f.side == "send" || f.side == "recv") && f.burst >= 6
	if heldBatch {
		// the application queued a batch while the client was not sending yet: the held
		// messages are flushed by StartSending, and the stream fails while that is going on
		for k := 0; k < 8; k++ {
			st.current = fmt.Sprintf("Q (request %d held before StartSending)", k+1)
			c.Q(nhReq(id))
			id++
		}
		pre = 0
		col.Count("batches_held_before_start_sending", 1)
	}
	st.current = "StartSending"
	c.StartSending() // sends params (1) and election (2)
	// enough requests to reach the fault position, then the burst
	for k := 0; k < pre; k++ {
		st.current = fmt.Sprintf("Q (request %d before the burst)", k+1)
		c.Q(nhReq(id))
		id++
	}
	_ = doneOnce
	if rep%2 == 1 {
		time.Sleep(time.Duration(rep*150) * time.Microsecond) // let the fault land before the burst
	}
	if f.burst >= 6 && rep%4 == 3 {
		// the burst comes from four application goroutines at once: every one of the Q calls
		// must return
		st.current = fmt.Sprintf("Q (burst of %d requests from 4 goroutines at once)", f.burst)
		var wg sync.WaitGroup
		for gq := 0; gq < 4; gq++ {
			wg.Add(1)
			go func(gq int) {
				defer wg.Done()
				for k := gq; k < f.burst; k += 4 {
					c.Q(nhReq(id + uint64(k)))
				}
			}(gq)
		}
		wdone := make(chan struct{})
		go func() { wg.Wait(); close(wdone) }()
		select {
		case <-wdone:
		case <-time.After(25 * time.Second):
			panic("watchdog")
		}
		id += uint64(f.burst)
		col.Count("bursts_queued_from_several_goroutines", 1)
	} else {
		for k := 0; k < f.burst; k++ {
			st.current = fmt.Sprintf("Q (burst request %d of %d)", k+1, f.burst)
			c.Q(nhReq(id))
			id++
		}
	}
	if f.side == "recv-idle" || f.side == "recv-unused" {
		// the healthy stream answers everything: the client converges, and only then the stream fails
		st.current = "AwaitConverged on the healthy stream"
		hctx, hcancel := context.WithTimeout(ctx, 20*time.Second)
		herr := c.AwaitConverged(hctx)
		hcancel()
		if herr != nil {
			if hctx.Err() != nil {
				panic("watchdog")
			}
			problem("no-convergence-on-healthy-stream", fmt.Sprintf("AwaitConverged before the fault: %v", herr))
			return
		}
		if rep%2 == 1 {
			time.Sleep(time.Duration(rep*100) * time.Microsecond)
		}
		fake.Last().Fail(ferr)
		col.Count("stream_failures_with_nothing_outstanding", 1)
	}
	if rep%2 == 1 && f.side != "eof" && f.side != "recv-idle" && f.side != "recv-unused" {
		// an application that looks at the client's status first (until the failure shows
		// there) and only then waits for Done: looking must not use the signal up
		st.current = "Status() until the stream failure is visible"
		for k := 0; k < 50000; k++ {
			if stt, err := c.Status(); err == nil && len(stt.SendErrs)+len(stt.ReadErrs) > 0 {
				break
			}
			time.Sleep(200 * time.Microsecond)
		}
		col.Count("status_polled_before_waiting_for_done", 1)
	}
	st.current = "waiting for Done"
	select {
	case <-c.Done():
	case <-time.After(25 * time.Second):
		if f.side == "eof" {
			// a clean end with everything answered may leave the sender idle: not an error
		} else {
			// nobody left who could signal it? (every goroutine of the client package is gone,
			// or sits blocked and unchanged in two dumps a second apart)
			snap := func() string {
				var l []string
				for _, g := range mon.InRepo(mon.Dump(), "github.com/openconfig/gribigo/client.") {
					if strings.Contains(g.Stack, "verifharness/") {
						continue
					}
					l = append(l, g.ID+"["+g.State+"]"+g.Stack)
				}
				sort.Strings(l)
				return strings.Join(l, "\n")
			}
			a := snap()
			time.Sleep(time.Second)
			if b := snap(); a == b && !strings.Contains(a, "[running]") && !strings.Contains(a, "[runnable]") {
				problem("done-never-signalled", "the stream failed ("+f.String()+") and the error is recorded, but Done() is not signalled and no goroutine of the client is left that could signal it")
				return
			}
			panic("watchdog") // handled by the child's case watchdog through st.current
		}
	}
	st.current = "AwaitConverged"
	awaitFor := 20 * time.Second
	if f.side == "eof" {
		// nothing is demanded after a clean end: pending operations simply stay pending
		awaitFor = 50 * time.Millisecond
	}
	// (with a late status, every other repetition reacts to Done by closing at once, while the
	// receiver is still waiting for the stream's status)
	closeAtOnce := f.side == "send-late" && rep%2 == 0
	var aerr error
	if !closeAtOnce {
		wctx, wcancel := context.WithTimeout(ctx, awaitFor)
		aerr = c.AwaitConverged(wctx)
		wcancel()
	}
	if f.side != "eof" && !closeAtOnce {
		switch e := aerr.(type) {
		case nil:
			problem("converged-despite-stream-failure", "AwaitConverged returned nil although the stream failed with "+f.code.String())
		case *client.ClientErr:
			if len(e.Send)+len(e.Recv) == 0 {
				problem("empty-client-error", "AwaitConverged returned a ClientErr without errors")
			}
			col.Count("stream_errors_returned_by_await_converged", 1)
		default:
			problem("await-converged-ignored-recorded-error", fmt.Sprintf("AwaitConverged returned %v instead of the recorded stream error", aerr))
		}
		stt, _ := c.Status()
		if len(stt.SendErrs)+len(stt.ReadErrs) == 0 {
			problem("stream-error-not-recorded", "Status() shows no send or receive error after the stream failed")
		}
	}
	failed := fake.Last()
	leftBehind := func(what string) {
		// Close / Reset wait for the sender and the receiver: none of them can still be inside
		// Recv on the failed stream when they return (decided by the stream's own counters, not by timing)
		if failed.RecvInProgress() {
			problem("receiver-left-behind-by-"+what, what+" returned while the client's receiver is still blocked in Recv on the failed stream")
		}
		col.Count("receiver_exit_checks_at_return_of_close_or_reset", 1)
	}
	switch f.after {
	case "close":
		st.current = "Close"
		c.Close()
		leftBehind("Close")
	case "reset":
		st.current = "Reset"
		c.Reset()
		leftBehind("Reset")
		st0, _ := c.Status()
		if len(st0.PendingTransactions) != 0 || len(st0.Results) != 0 || len(st0.SendErrs) != 0 || len(st0.ReadErrs) != 0 {
			problem("stale-state-after-reset", fmt.Sprintf("after Reset: pending=%d results=%d sendErrs=%d readErrs=%d", len(st0.PendingTransactions), len(st0.Results), len(st0.SendErrs), len(st0.ReadErrs)))
		}
		// reconnect on a fresh, healthy stream
		fake.NewStream = func(s *drv.FakeStream) { autoAnswer(s, -1) }
		st.current = "Connect after Reset"
		if err := c.Connect(ctx); err != nil {
			problem("reconnect-failed", err.Error())
			return
		}
		st.current = "StartSending after Reset"
		c.StartSending()
		for k := 0; k < 8; k++ {
			st.current = fmt.Sprintf("Q after Reset (%d)", k+1)
			c.Q(nhReq(1000 + uint64(k)))
		}
		st.current = "AwaitConverged after Reset"
		w2, c2 := context.WithTimeout(ctx, 20*time.Second)
		err := c.AwaitConverged(w2)
		c2()
		if err != nil {
			problem("fresh-exchange-after-reset-fails", fmt.Sprintf("AwaitConverged after Reset+Connect: %v", err))
		}
		st1, _ := c.Status()
		ids := map[uint64]bool{}
		for _, r := range st1.Results {
			if r != nil && r.OperationID != 0 {
				ids[r.OperationID] = true
			}
		}
		for id := range ids {
			if id < 1000 {
				problem("stale-result-after-reset", fmt.Sprintf("result for operation %d of the failed session is visible after Reset", id))
			}
		}
		if len(ids) != 8 || len(st1.PendingTransactions) != 0 {
			problem("fresh-exchange-after-reset-incomplete", fmt.Sprintf("results for %d of 8 operations, %d pending", len(ids), len(st1.PendingTransactions)))
		}
		if f.side == "send-late" {
			// whatever the failed stream still had to say must not reach the new session
			time.Sleep(200 * time.Millisecond)
			st2, _ := c.Status()
			if len(st2.SendErrs)+len(st2.ReadErrs) != 0 {
				problem("stale-error-after-reset", fmt.Sprintf("errors of the failed stream appear in the new session: send %v recv %v", st2.SendErrs, st2.ReadErrs))
			}
			select {
			case <-c.Done():
				problem("stale-done-after-reset", "Done is signalled on the healthy new session")
			default:
			}
		}
		col.Count("reset_reconnect_exchanges", 1)
		if rep%2 == 0 && f.side != "send-late" {
			// the second session fails as well: the application is told through the channel it has
			// been watching since before the first session
			for drained := false; !drained; {
				select {
				case <-doneOnce:
				default:
					drained = true
				}
			}
			st.current = "waiting for Done after the second session failed"
			fake.Last().Fail(status.Error(codes.Unavailable, "second session fails too"))
			select {
			case <-doneOnce:
				col.Count("second_session_failures_signalled_on_the_same_done_channel", 1)
			case <-time.After(25 * time.Second):
				a := strings.Join(clientGoroutines(), ",")
				time.Sleep(time.Second)
				if b := strings.Join(clientGoroutines(), ","); a == b && !strings.Contains(a, "[running]") && !strings.Contains(a, "[runnable]") {
					problem("done-never-signalled:second-session", "the second session (after Reset + Connect) failed, but the channel the application obtained from Done() before the first session is never signalled and no goroutine of the client is left that could signal it")
					return
				}
				panic("watchdog")
			}
		}
		st.current = "Close after Reset"
		c.Close()
	}
	// goroutine census: nothing of the client package survives (bounded wait for exits in progress)
	st.current = "goroutine census"
	var left []string
	for k := 0; k < 2000; k++ {
		left = clientGoroutines()
		if len(left) == 0 {
			break
		}
		time.Sleep(500 * time.Microsecond)
	}
	if len(left) > 0 {
		problem("client-goroutine-leak", fmt.Sprintf("%d goroutine(s) of the client package survive Close: %v", len(left), left))
	}
	col.Count("goroutine_censuses", 1)
}

func TestChild(t *testing.T) {
	sp, ok := child.IsChild()
	if !ok {
		t.Skip("not a child")
	}
	wr, err := child.NewWriter()
	if err != nil {
		t.Fatal(err)
	}
	defer wr.Close()
	client.BusyLoopDelay = 200 * time.Microsecond
	col := child.NewCollector(wr)
	// logging calls are points at which the real code can be held up (format, global
	// mutex, write): the silent stand-in gives that timing back without the mutex
	glog.SetStall(func() { time.Sleep(30 * time.Microsecond) })
	var b int
	fmt.Sscanf(sp.Arg, "%d", &b)
	cat := catalogue()
	reps := 4
	if sp.Tier == "thorough" {
		reps = 40
	}
	for i := b; i < len(cat); i += nChildren {
		for rep := 0; rep < reps; rep++ {
			f := cat[i]
			caseID := fmt.Sprintf("%s#%d", f, rep)
			if sp.Case != "" && sp.Case != caseID {
				continue
			}
			wr.InFlight(caseID)
			st := &stepper{}
			done := make(chan any, 1)
			go func() {
				defer func() { done <- recover() }()
				runCase(col, st, caseID, f, rep)
			}()
			stuck := false
			select {
			case p := <-done:
				if p != nil && fmt.Sprint(p) != "watchdog" {
					panic(p)
				}
				stuck = p != nil
			case <-time.After(60 * time.Second):
				stuck = true
			}
			col.Eval(1)
			col.Distinct(caseID)
			col.Seen("fault_kinds", fmt.Sprintf("%s/%s/%s", f.side, f.code, f.after))
			if col.Problems() >= 8 {
				col.Flush()
				return // enough witnesses from this child
			}
			if stuck {
				if ok, desc := mon.ProvenBlockIgnoringPollers("gribigo/client.(*Client).", time.Second, "github.com/openconfig/gribigo/client."); ok {
					col.Violation(caseID, "client-blocked:"+strings.ReplaceAll(strings.SplitN(st.current, " (", 2)[0], " ", "-")+":"+blockFns(desc), "after "+f.String()+" the step '"+st.current+"' never returned and the client is permanently blocked: "+desc, map[string]any{"fault": f.String()})
				} else if spin, sdesc := mon.ProvenSpin("gribigo/client.(*Client).", time.Second, "github.com/openconfig/gribigo/client."); spin {
					fn := sdesc
					if i := strings.Index(fn, "] "); i >= 0 {
						fn = strings.SplitN(fn[i+2:], " < ", 2)[0]
					}
					col.Violation(caseID, "client-spinning:"+strings.ReplaceAll(strings.SplitN(st.current, " (", 2)[0], " ", "-")+":"+fn, "after "+f.String()+" the step '"+st.current+"' has not returned for a minute; the calling goroutine is the only goroutine of the client left and sits in the same polling loop in three dumps a second apart (nobody is left who could end it): "+sdesc, map[string]any{"fault": f.String()})
				} else {
					col.Inconclusive(caseID + ": step '" + st.current + "' hit the watchdog without a proven block: " + desc + " / " + sdesc)
				}
				col.Flush()
				return
			}
		}
		col.Flush()
	}
	if b == 0 {
		col.Sample(map[string]any{"fault": cat[0].String(), "meaning": "the 1st Send (session parameters) fails with CANCELED while 4+1 requests are queued; then Close"})
	}
	col.Flush()
}

func blockFns(desc string) string {
	set := map[string]bool{}
	for _, p := range strings.Split(desc, "; ") {
		if i := strings.Index(p, "] "); i >= 0 {
			set[p[i+2:]] = true
		}
	}
	var out []string
	for k := range set {
		out = append(out, k)
	}
	sort.Strings(out)
	return strings.Join(out, ",")
}

// runFluentCase: the receive-side fault through the fluent wrapper, ended by Stop().
func runFluentCase(col sink, st *stepper, caseID string, f fault, rep int) {
	problem := func(sig, txt string) {
		col.Violation(caseID, sig, txt, map[string]any{"fault": f.String()})
	}
	fake := &drv.FakeGRIBI{}
	ferr := status.Error(f.code, "injected stream failure")
	fake.NewStream = func(s *drv.FakeStream) {
		get := autoAnswer(s, f.at)
		inner := s.OnSend
		failed := false
		s.OnSend = func(n int, m *spb.ModifyRequest) {
			inner(n, m)
			if get() >= f.at && !failed {
				failed = true
				s.Fail(ferr)
			}
		}
		if f.at == 0 {
			s.Fail(ferr)
		}
	}
	tb := &mon.TB{}
	var awaitErr error
	st.current = "fluent Start/StartSending/Await/Stop"
	fatal := tb.Run(func(t testing.TB) {
		c := fluent.NewClient()
		c.Connection().WithStub(fake).WithRedundancyMode(fluent.ElectedPrimaryClient).WithInitialElectionID(1, 0).WithPersistence()
		ctx, cancel := context.WithCancel(context.Background())
		defer cancel()
		c.Start(ctx, t)
		c.StartSending(ctx, t)
		c.Modify().AddEntry(t, fluent.NextHopEntry().WithNetworkInstance("DEFAULT").WithIndex(1).WithIPAddress("192.0.2.1"))
		c.Modify().AddEntry(t, fluent.NextHopEntry().WithNetworkInstance("DEFAULT").WithIndex(2).WithIPAddress("192.0.2.1"))
		wctx, wcancel := context.WithTimeout(ctx, 20*time.Second)
		awaitErr = c.Await(wctx, t)
		wcancel()
		if rep%2 == 1 {
			time.Sleep(time.Duration(rep*100) * time.Microsecond)
		}
		c.Stop(t)
	})
	if fatal {
		problem("fluent-client-fatal", fmt.Sprint(tb.Fatals))
		return
	}
	if awaitErr == nil {
		problem("converged-despite-stream-failure", "fluent Await returned nil although the stream failed with "+f.code.String())
	}
	st.current = "goroutine census"
	var left []string
	for k := 0; k < 2000; k++ {
		left = clientGoroutines()
		if len(left) == 0 {
			break
		}
		time.Sleep(500 * time.Microsecond)
	}
	if len(left) > 0 {
		problem("client-goroutine-leak:after-fluent-stop", fmt.Sprintf("%d goroutine(s) of the client package survive the fluent client's Stop(): %v", len(left), left))
	}
	col.Count("goroutine_censuses", 1)
	col.Count("cases_through_the_fluent_wrapper", 1)
}
