// C12: malformed operations are rejected in-band, have no effect, cannot crash the server.
package c12

import (
	"crypto/sha256"
	"fmt"
	"math/rand"
	"os"
	"sort"
	"strings"
	"testing"
	"time"

	"github.com/openconfig/gribigo/server"
	"google.golang.org/protobuf/encoding/prototext"
	"google.golang.org/protobuf/proto"

	aftpb "github.com/openconfig/gribi/v1/proto/gribi_aft"
	enums "github.com/openconfig/gribi/v1/proto/gribi_aft/enums"
	spb "github.com/openconfig/gribi/v1/proto/service"

	"verifharness/canon"
	"verifharness/child"
	"verifharness/drv"
	"verifharness/ev"
	"verifharness/gen"
	"verifharness/model"
	"verifharness/mon"
)

const batchSize = 400

func TestCheck(t *testing.T) {
	if _, ok := child.IsChild(); ok {
		t.Skip("child process")
	}
	run := ev.Start(t, "C12", "exploration")
	nBatches := run.Pick(144, 4000)
	ev.Parallel(nBatches, ev.Workers(), func(i int) {
		caseID := fmt.Sprintf("batch-%d", i)
		if !run.Want(caseID) {
			return
		}
		o := child.Run(child.Spec{Prop: "C12", Tier: run.Tier, Seed: run.Seed, Case: caseID}, 20*time.Minute)
		inputs := 0
		for _, rec := range o.Records {
			switch rec["kind"] {
			case "problem":
				run.Violation(caseID, fmt.Sprint(rec["sig"]), fmt.Sprint(rec["text"]), map[string]any{"input": rec["input"], "mutations": rec["mutations"]})
			case "inconclusive":
				run.Inconclusive(caseID + ": " + fmt.Sprint(rec["text"]))
			case "stats":
				for k, v := range rec {
					if f, ok := v.(float64); ok {
						run.Count(k, int64(f))
						if k == "inputs" {
							inputs += int(f)
						}
					}
				}
				if hs, ok := rec["hashes"].([]any); ok {
					for _, h := range hs {
						run.Distinct(fmt.Sprint(h))
					}
				}
				if cs, ok := rec["classes"].([]any); ok {
					for _, c := range cs {
						run.Seen("input_classes", fmt.Sprint(c))
					}
				}
				if cs, ok := rec["verdict_kinds"].([]any); ok {
					for _, c := range cs {
						run.Seen("verdict_kinds", fmt.Sprint(c))
					}
				}
				if i == 0 {
					if s, ok := rec["samples"].([]any); ok {
						for _, x := range s {
							run.Sample(x)
						}
					}
				}
			}
		}
		run.Eval(inputs)
		switch {
		case o.Killed:
			run.Inconclusive(caseID + ": child exceeded the wall-clock watchdog; in flight: " + o.LastLog)
		case !o.ExitOK:
			sig := "crash:" + o.PanicSig
			if o.PanicSig == "" {
				sig = "crash:child-exited-abnormally"
			}
			run.Violation(caseID, sig, "the process died while handling an input: "+firstLines(o.Stderr, 3), map[string]any{"input_in_flight": o.LastLog, "stderr_head": o.Stderr})
		}
	})
	afterFatalInput(run)
	uncheckedInvalid(run)
	run.Assume("an input is judged 'must be FAILED' only if it belongs to a named invalid class; mutated inputs of unknown validity must not crash or hang and, when answered FAILED or with an RPC error, must leave contents, held operations and reference counters unchanged")
	run.Assume("only inputs that survive a protobuf wire round trip are sent (the wire cannot carry nil list members or invalid UTF-8 in proto3 strings)")
	run.Finish(fmt.Sprintf("child processes of %d inputs each against a populated server (closed RIB + held operations + a bystander session): structured mutation (1-4 protoreflect mutations: nil/empty sub-messages, out-of-range enums, boundary integers, hostile strings, duplicated/50x list members, cleared lists) of valid AFT operations sent through rib.AddEntry/DeleteEntry and through a Modify stream; the named invalid classes of the property (must be FAILED, state unchanged); enumerated GetRequest/FlushRequest variants. Every input is logged before it is sent. Distinct = by input bytes", batchSize), 500, false)
}

func firstLines(s string, n int) string {
	l := strings.Split(strings.TrimSpace(s), "\n")
	if len(l) > n {
		l = l[:n]
	}
	return strings.Join(l, " / ")
}

// ---------------------------------------------------------------- child side

type snapshot struct {
	contents string
	held     string
	refs     string
}

func snap(x *mon.RIBMon) snapshot {
	rc, _ := x.R.RIBContents()
	var ids []uint64
	for _, p := range x.R.VerifPendingOps() {
		ids = append(ids, p.ID)
	}
	sort.Slice(ids, func(i, j int) bool { return ids[i] < ids[j] })
	var refs []string
	for ni, r := range x.R.VerifRefCounts() {
		for k, v := range r.NextHop {
			if v != 0 {
				refs = append(refs, fmt.Sprintf("%s/nh%d=%d", ni, k, v))
			}
		}
		for k, v := range r.NextHopGroup {
			if v != 0 {
				refs = append(refs, fmt.Sprintf("%s/nhg%d=%d", ni, k, v))
			}
		}
	}
	sort.Strings(refs)
	return snapshot{canon.FromYgot(rc).String(), fmt.Sprint(ids), strings.Join(refs, ",")}
}

func (a snapshot) diff(b snapshot) string {
	var d []string
	if a.contents != b.contents {
		d = append(d, "contents")
	}
	if a.held != b.held {
		d = append(d, "held-operations")
	}
	if a.refs != b.refs {
		d = append(d, "reference-counters")
	}
	return strings.Join(d, "+")
}

// semantic invalid classes of the property beyond gen.InvalidClasses
var semanticClasses = []string{"zero-nh-index", "zero-nhg-id", "empty-group", "zero-nh-index-in-group", "missing-group-ref", "zero-group-ref",
	"unknown-ni", "empty-ni", "unknown-group-ni", "unsupported-op-type", "undefined-enum"}

func semanticInvalid(g *gen.Gen, class string) gen.OpSpec {
	ni := g.S.NIs[g.R.Intn(len(g.S.NIs))]
	kind := []spb.AFTOperation_Operation{spb.AFTOperation_ADD, spb.AFTOperation_REPLACE}[g.R.Intn(2)]
	var o gen.OpSpec
	switch class {
	case "zero-nh-index":
		o = g.MkOp(kind, canon.NH, ni, 0, true)
		o.Op.GetNextHop().Index = 0
	case "zero-nhg-id":
		o = g.MkOp(kind, canon.NHG, ni, 0, true)
		o.Op.GetNextHopGroup().Id = 0
	case "empty-group":
		o = g.MkOp(kind, canon.NHG, ni, g.R.Intn(8), true)
		o.Op.GetNextHopGroup().NextHopGroup.NextHop = nil
	case "zero-nh-index-in-group":
		o = g.MkOp(kind, canon.NHG, ni, g.R.Intn(8), true)
		o.Op.GetNextHopGroup().NextHopGroup.NextHop = []*aftpb.Afts_NextHopGroup_NextHopKey{{Index: 0, NextHop: &aftpb.Afts_NextHopGroup_NextHop{Weight: gen.U(1)}}}
	case "missing-group-ref":
		o = g.MkOp(kind, canon.Table(g.R.Intn(3)), ni, g.R.Intn(8), true)
		clearNHG(o.Op, true)
	case "zero-group-ref":
		o = g.MkOp(kind, canon.Table(g.R.Intn(3)), ni, g.R.Intn(8), true)
		clearNHG(o.Op, false)
	case "unknown-ni":
		o = g.MkOp(kind, canon.Table(g.R.Intn(5)), ni, g.R.Intn(8), true)
		o.NI, o.Op.NetworkInstance = "NOSUCH", "NOSUCH"
	case "empty-ni":
		o = g.MkOp(kind, canon.Table(g.R.Intn(5)), ni, g.R.Intn(8), true)
		o.NI, o.Op.NetworkInstance = "", ""
	case "unknown-group-ni":
		o = g.MkOp(kind, canon.V4, ni, g.R.Intn(8), true)
		o.Op.GetIpv4().Ipv4Entry.NextHopGroupNetworkInstance = gen.S("NOSUCH")
	case "unsupported-op-type":
		o = g.MkOp(kind, canon.Table(g.R.Intn(5)), ni, g.R.Intn(8), true)
		o.Op.Op = []spb.AFTOperation_Operation{0, 4, 99}[g.R.Intn(3)]
	case "undefined-enum":
		o = g.MkOp(kind, canon.NH, ni, g.R.Intn(8), true)
		if g.R.Intn(2) == 0 {
			o.Op.GetNextHop().NextHop.EncapsulateHeader = enums.OpenconfigAftTypesEncapsulationHeaderType(99)
		} else {
			o.Op.GetNextHop().NextHop.DecapsulateHeader = enums.OpenconfigAftTypesEncapsulationHeaderType(-7)
		}
	}
	o.Invalid = class
	return o
}

func clearNHG(op *spb.AFTOperation, absent bool) {
	v := gen.U(0)
	if absent {
		v = nil
	}
	switch e := op.Entry.(type) {
	case *spb.AFTOperation_Ipv4:
		e.Ipv4.Ipv4Entry.NextHopGroup = v
	case *spb.AFTOperation_Ipv6:
		e.Ipv6.Ipv6Entry.NextHopGroup = v
	case *spb.AFTOperation_Mpls:
		e.Mpls.LabelEntry.NextHopGroup = v
	}
}

func line(m proto.Message) string {
	s := prototext.MarshalOptions{Multiline: false}.Format(m)
	if len(s) > 3000 {
		s = s[:3000] + "...(truncated)"
	}
	return s
}

func TestChild(t *testing.T) {
	sp, ok := child.IsChild()
	if !ok {
		t.Skip("not a child")
	}
	w, err := child.NewWriter()
	if err != nil {
		t.Fatal(err)
	}
	defer w.Close()
	drv.Watchdog = 30 * time.Second

	r := rand.New(rand.NewSource(sp.Seed*1000003 + int64(len(sp.Case))*7919 + hashStr(sp.Case)))
	g := gen.New(r)
	g.S.Default = server.DefaultNetworkInstanceName
	g.PInvalid = 0
	srv, err := drv.NewServer(g.S.NIs[1:])
	if err != nil {
		t.Fatal(err)
	}
	x := &mon.RIBMon{R: srv.VerifRIB(), M: model.NewRIB(g.S.Default, g.S.NIs, false)}
	for _, o := range g.Closed(g.S.NIs, 0.6) {
		mon.Apply(x.R, o)
	}
	// a few held operations (forward references to a group that never arrives)
	for k := 0; k < 3; k++ {
		o := g.MkOp(spb.AFTOperation_ADD, canon.V4, g.S.Default, k, true)
		o.Op.GetIpv4().Ipv4Entry.NextHopGroup = gen.U(4242)
		o.Op.GetIpv4().Ipv4Entry.NextHopGroupNetworkInstance = nil
		o.Op.GetIpv4().Prefix = fmt.Sprintf("172.16.%d.0/24", k)
		mon.Apply(x.R, o)
	}
	elec := &spb.Uint128{Low: 10}
	openE := func(name string) (*drv.Session, string, error) {
		s := &drv.Session{Stream: drv.OpenModify(srv), Name: name, DefaultNI: g.S.Default}
		if _, err := s.Params(drv.SinglePrimary(false)); err != nil {
			return nil, "negotiation", err
		}
		if _, err := s.Elect(elec); err != nil {
			return nil, "election", err
		}
		return s, "", nil
	}
	open := func(name string) *drv.Session {
		s, step, err := openE(name)
		if err != nil {
			t.Fatalf("%s %s: %v", name, step, err)
		}
		return s
	}
	bystander := open("bystander")
	worker := open("worker") // announces the same id later: becomes primary
	g.ElectionID = elec
	g.NextID = 100000

	stats := map[string]any{"kind": "stats"}
	cnt := map[string]int{}
	classes := map[string]bool{}
	vkinds := map[string]bool{}
	var hashes []string
	var samples []any
	problem := func(sig, text, input string, muts []string) {
		w.Record(map[string]any{"kind": "problem", "sig": sig, "text": text, "input": input, "mutations": muts})
	}

	flush := func() {
		rec := map[string]any{"kind": "stats"}
		for k, v := range cnt {
			rec[k] = v
		}
		for k, v := range stats {
			if k != "kind" {
				rec[k] = v
			}
		}
		rec["hashes"] = hashes
		var cl, vk []string
		for c := range classes {
			cl = append(cl, c)
		}
		for c := range vkinds {
			vk = append(vk, c)
		}
		rec["classes"], rec["verdict_kinds"], rec["samples"] = cl, vk, samples
		w.Record(rec)
		cnt, hashes, samples = map[string]int{}, nil, nil
	}

	for i := 0; i < batchSize; i++ {
		if i%40 == 39 {
			flush()
		}
		var spec gen.OpSpec
		var muts []string
		class := ""
		roll := r.Intn(100)
		switch {
		case roll < 8:
			class = gen.InvalidClasses[r.Intn(len(gen.InvalidClasses))]
			spec = g.InvalidOpOf(class)
			if spec.Op.GetOp() == spb.AFTOperation_DELETE && class != "label-above-uint32" {
				spec.Op.Op = spb.AFTOperation_ADD // payload-only invalid classes are judged on ADD/REPLACE
			}
		case roll < 18:
			class = semanticClasses[r.Intn(len(semanticClasses))]
			spec = semanticInvalid(g, class)
		case roll < 90:
			class = "mutated"
			base := g.Op()
			m, d := gen.Mutate(r, base.Op, 1+r.Intn(4))
			rt, ok := gen.WireRoundTrip(m)
			if !ok {
				cnt["not_wire_representable"]++
				continue
			}
			spec = gen.OpSpec{NI: rt.(*spb.AFTOperation).GetNetworkInstance(), Op: rt.(*spb.AFTOperation)}
			muts = d
		default:
			class = "get-flush-request"
		}
		classes[class] = true
		cnt["inputs"]++

		if class == "get-flush-request" {
			reqLine, prob := getFlushVariant(r, srv, x, w)
			h := sha256.Sum256([]byte(reqLine))
			hashes = append(hashes, fmt.Sprintf("%x", h[:8]))
			if prob != "" {
				sig, txt := mon.SplitSig(prob)
				if sig == "INCONCLUSIVE" {
					w.Record(map[string]any{"kind": "inconclusive", "text": txt})
				} else {
					problem(sig, txt, reqLine, nil)
				}
			}
			cnt["get_flush_requests"]++
			continue
		}

		in := line(spec.Op)
		b, _ := proto.Marshal(spec.Op)
		h := sha256.Sum256(b)
		hashes = append(hashes, fmt.Sprintf("%x", h[:8]))
		viaServer := r.Intn(100) < 55 || class == "unknown-ni" || class == "empty-ni" || class == "unsupported-op-type"
		if len(samples) < 3 && class != "" {
			samples = append(samples, map[string]any{"class": class, "via_server": viaServer, "mutations": muts, "input": in})
		}
		before := snap(x)
		verdict := ""
		detail := ""
		reopen := false
		w.InFlight(fmt.Sprintf("[%s via_server=%v mutations=%v] %s", class, viaServer, muts, in))
		if viaServer {
			spec.Op.ElectionId = elec
			batch := []*spb.AFTOperation{spec.Op}
			if r.Intn(4) == 0 {
				// the input is the first operation of a request that goes on with well-formed
				// operations (idempotent DELETEs of next-hops that never exist: whether or not the
				// server gets to them, the state is the same)
				for k := 0; k < 1+r.Intn(4); k++ {
					g.NextID++
					batch = append(batch, &spb.AFTOperation{Id: g.NextID, NetworkInstance: g.S.Default, Op: spb.AFTOperation_DELETE, ElectionId: elec,
						Entry: &spb.AFTOperation_NextHop{NextHop: &aftpb.Afts_NextHopKey{Index: uint64(0xFFFFFF00 + k)}}})
				}
				cnt["inputs_followed_by_further_operations_in_the_same_request"]++
			}
			res := worker.Ops(batch, elec)
			switch {
			case res.RPCErr == drv.ErrWatchdog:
				if ok, desc := mon.ProvenBlock("gribigo/server.", 500*time.Millisecond); ok {
					problem("hang:"+mon.BlockSignature(desc), "no answer and the server is permanently blocked: "+desc, in, muts)
				} else {
					w.Record(map[string]any{"kind": "inconclusive", "text": "watchdog fired without a proven block: " + desc})
				}
				stats["aborted"] = "watchdog"
				goto done
			case res.RPCErr != nil:
				verdict = "rpc-error"
				detail = fmt.Sprintf("rpcErr=%v results=%v", res.RPCErr, res.Results)
				reopen = true // the RPC ended cleanly with a status: reconnect after the state comparison
				cnt["rpc_errors"]++
			default:
				detail = fmt.Sprintf("results=%v", res.Results)
				st := map[spb.AFTResult_Status]int{}
				for _, ar := range res.Results {
					if ar.GetId() == spec.Op.GetId() {
						st[ar.GetStatus()]++
					}
				}
				switch {
				case st[spb.AFTResult_FAILED] > 0 && st[spb.AFTResult_RIB_PROGRAMMED] > 0:
					verdict = "failed+programmed"
				case st[spb.AFTResult_FAILED] > 1:
					verdict = "failed-twice"
				case st[spb.AFTResult_FAILED] == 1:
					verdict = "failed"
				case st[spb.AFTResult_RIB_PROGRAMMED] > 0:
					verdict = "programmed"
				default:
					verdict = "held"
				}
			}
		} else {
			oks, fails, err := mon.Apply(x.R, spec)
			detail = fmt.Sprintf("oks=%v fails=%v err=%v", oks, fails, err)
			has := func(l []uint64) bool {
				for _, v := range l {
					if v == spec.Op.GetId() {
						return true
					}
				}
				return false
			}
			switch {
			case err != nil:
				verdict = "rpc-error"
			case has(fails) && has(oks):
				verdict = "failed+programmed"
			case has(fails):
				verdict = "failed"
			case has(oks):
				verdict = "programmed"
			default:
				verdict = "held"
			}
		}
		vkinds[class+"->"+verdict] = true
		after := snap(x)
		if dbg := os.Getenv("VERIF_CHILD_DEBUG"); dbg != "" {
			f, _ := os.OpenFile(dbg, os.O_APPEND|os.O_CREATE|os.O_WRONLY, 0o644)
			fmt.Fprintf(f, "%s i=%d class=%s server=%v verdict=%s detail=%s diff=%s in=%.300s\n", sp.Case, i, class, viaServer, verdict, detail, before.diff(after), in)
			f.Close()
		}
		if reopen {
			// a new session announcing the same id becomes the primary (held operations of the
			// previous primary are dropped at that point, outside the compared window)
			nw, step, err := openE("worker")
			switch {
			case err == drv.ErrWatchdog:
				// the input ended its own RPC - and now nobody else is served
				if ok, desc := mon.ProvenBlock("gribigo/server.", 500*time.Millisecond); ok {
					problem("hang:"+mon.BlockSignature(desc), "after this input ended its RPC the "+step+" of a new session is never answered and the server is permanently blocked: "+desc, in, muts)
				} else {
					w.Record(map[string]any{"kind": "inconclusive", "text": "the " + step + " of a new session hit the watchdog without a proven block: " + desc})
				}
				stats["aborted"] = "watchdog"
				goto done
			case err != nil:
				problem("new-session-rejected-after-malformed-input", fmt.Sprintf("after this input ended its RPC the %s of a new session failed: %v", step, err), in, muts)
				goto done
			}
			worker = nw
		}
		detail = fmt.Sprintf("%s (held before=%s after=%s)", detail, before.held, after.held)
		d := before.diff(after)
		mustFail := class != "mutated"
		switch verdict {
		case "failed+programmed", "failed-twice":
			problem("contradictory-verdicts:"+verdict+":"+class, "operation answered "+verdict+": "+detail, in, muts)
		case "failed", "rpc-error":
			if d != "" {
				problem("rejected-input-changed-state:"+d+":"+class, fmt.Sprintf("input answered %s but %s changed: %s", verdict, d, detail), in, muts)
			}
			cnt["rejected_state_unchanged_checks"]++
		case "held":
			if before.contents != after.contents || before.refs != after.refs {
				problem("unanswered-input-changed-state:"+class, "input was not answered (held) but contents/counters changed", in, muts)
			}
			if mustFail && class != "label-above-uint32" {
				problem("invalid-input-held:"+class, "an input of invalid class "+class+" was neither failed nor programmed (held)", in, muts)
			}
		case "programmed":
			if mustFail {
				if keyInvalidDelete(spec, class) {
					if d != "" {
						problem("delete-of-invalid-key-changed-state:"+class, "DELETE of an invalid key was acknowledged and "+d+" changed", in, muts)
					}
				} else {
					problem("invalid-input-programmed:"+class, "an input of invalid class "+class+" was acknowledged as programmed", in, muts)
				}
			}
			cnt["programmed"]++
		}
	}
	// bystander still alive and answered?
	{
		w.InFlight("bystander election probe")
		id, err := bystander.Elect(&spb.Uint128{Low: 1})
		if err != nil {
			problem("bystander-session-terminated", fmt.Sprintf("a session that sent nothing malformed ended: %v", err), "", nil)
		} else if id.GetLow() != 10 || id.GetHigh() != 0 {
			problem("bystander-sees-wrong-election-id", fmt.Sprintf("%v", id), "", nil)
		}
	}
done:
	flush()
}

func keyInvalidDelete(spec gen.OpSpec, class string) bool {
	if spec.Op.GetOp() != spb.AFTOperation_DELETE {
		return false
	}
	switch class {
	case "bad-v4-prefix", "bad-v6-prefix", "label-out-of-range":
		return true
	}
	return false
}

func hashStr(s string) int64 {
	var h int64 = 1469598103934665603
	for i := 0; i < len(s); i++ {
		h ^= int64(s[i])
		h *= 1099511628211
	}
	return h
}

// getFlushVariant sends one enumerated Get or Flush request variant; state must be
// unchanged unless it is a well-formed authorised Flush.
func getFlushVariant(r *rand.Rand, srv *server.Server, x *mon.RIBMon, w *child.Writer) (string, string) {
	before := snap(x)
	if r.Intn(2) == 0 {
		req := &spb.GetRequest{Aft: []spb.AFTType{0, 1, 2, 3, 4, 5, 6, 7, 8, 99, -1}[r.Intn(11)]}
		switch r.Intn(6) {
		case 0:
		case 1:
			req.NetworkInstance = &spb.GetRequest_Name{Name: ""}
		case 2:
			req.NetworkInstance = &spb.GetRequest_Name{Name: "NOSUCH"}
		case 3:
			req.NetworkInstance = &spb.GetRequest_Name{Name: strings.Repeat("x", 70000)}
		case 4:
			req.NetworkInstance = &spb.GetRequest_Name{Name: "VRF1"}
		default:
			req.NetworkInstance = &spb.GetRequest_All{All: &spb.Empty{}}
		}
		l := "GET " + line(req)
		w.InFlight(l)
		_, _, wd := drv.Get(srv, req, 0)
		if wd != nil {
			if ok, desc := mon.ProvenBlock("gribigo/", 500*time.Millisecond); ok {
				return l, "hang:get:" + mon.BlockSignature(desc) + "|Get never returned: " + desc
			}
			return l, "INCONCLUSIVE|Get watchdog fired without a proven block"
		}
		if d := before.diff(snap(x)); d != "" {
			return l, "get-changed-state:" + d + "|a Get request changed " + d
		}
		return l, ""
	}
	req := &spb.FlushRequest{}
	valid := true
	switch r.Intn(6) {
	case 0:
		valid = false
	case 1:
		req.NetworkInstance = &spb.FlushRequest_Name{Name: ""}
		valid = false
	case 2:
		req.NetworkInstance = &spb.FlushRequest_Name{Name: "NOSUCH"}
		valid = false
	case 3:
		req.NetworkInstance = &spb.FlushRequest_Name{Name: strings.Repeat("x", 70000)}
		valid = false
	default:
		// never a well-formed authorised flush of real instances: the state-unchanged oracle stays simple
		req.NetworkInstance = &spb.FlushRequest_Name{Name: "VRF1"}
	}
	switch r.Intn(5) {
	case 0: // absent: unauthorised because an id was learnt
	case 1:
		req.Election = &spb.FlushRequest_Id{Id: &spb.Uint128{}}
	case 2:
		req.Election = &spb.FlushRequest_Id{Id: &spb.Uint128{Low: 9}}
	case 3:
		req.Election = &spb.FlushRequest_Id{Id: nil}
	default:
		if valid {
			req.Election = &spb.FlushRequest_Id{Id: &spb.Uint128{Low: 3}}
		} else {
			req.Election = &spb.FlushRequest_Override{Override: &spb.Empty{}}
		}
	}
	l := "FLUSH " + line(req)
	w.InFlight(l)
	resp, err, wd := drv.Flush(srv, req)
	if wd != nil {
		return l, "INCONCLUSIVE|Flush watchdog fired"
	}
	if err == nil {
		return l, fmt.Sprintf("malformed-or-unauthorised-flush-accepted|%v", resp)
	}
	if d := before.diff(snap(x)); d != "" {
		return l, "rejected-flush-changed-state:" + d + "|a rejected Flush changed " + d
	}
	return l, ""
}
