package smoke

import (
	"context"
	"testing"
	"time"

	"github.com/openconfig/gribigo/client"
	"github.com/openconfig/gribigo/server"

	spb "github.com/openconfig/gribi/v1/proto/service"

	"verifharness/drv"
)

func TestSendAfterServerEnded(t *testing.T) {
	srv, _ := server.New()
	gs := drv.Serve(srv)
	defer gs.Stop()
	for _, gap := range []time.Duration{0, time.Millisecond, 20 * time.Millisecond} {
		cc, _, _ := gs.Dial()
		c, _ := client.New(client.AllPrimaryClients())
		c.UseStub(spb.NewGRIBIClient(cc))
		ctx := context.Background()
		c.Connect(ctx)
		c.StartSending()
		time.Sleep(gap)
		c.Q(&spb.ModifyRequest{ElectionId: &spb.Uint128{Low: 5}})
		wctx, cancel := context.WithTimeout(ctx, 5*time.Second)
		err := c.AwaitConverged(wctx)
		cancel()
		time.Sleep(20 * time.Millisecond)
		st, _ := c.Status()
		t.Logf("gap=%v await=%v sendErrs=%v readErrs=%d", gap, err, st.SendErrs, len(st.ReadErrs))
		c.Close()
		cc.Close()
	}
}
