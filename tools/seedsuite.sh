#!/bin/bash
# Confirms, for every seeded change, that the repository's own suite still passes with it
# applied (in a scratch worktree), 4 at a time. Writes seeded/<id>/suite.txt.
ROOT="$(cd "$(dirname "${BASH_SOURCE[0]}")/.." && pwd)"
export GOFLAGS=-mod=mod GOPROXY=off
one() {
  d="$1"; id="$(basename "$d")"
  W="$(mktemp -d /tmp/verif-suite-XXXXXX)"; rmdir "$W"
  git -C /repo worktree add -q --detach "$W" HEAD || return
  if git -C "$W" apply "$d/patch.diff" 2>/dev/null; then
    ( cd "$W" && go build ./... && timeout 1800 go test -vet=off -count=1 ./... ) > "$W/.log" 2>&1
    if [ $? -eq 0 ]; then echo "suite PASS at $(git -C /repo rev-parse --short HEAD)" > "$d/suite.txt"; else { echo "suite FAIL at $(git -C /repo rev-parse --short HEAD)"; grep -E '^(FAIL|--- FAIL)' "$W/.log" | head -5; } > "$d/suite.txt"; fi
  else echo "patch does not apply at $(git -C /repo rev-parse --short HEAD)" > "$d/suite.txt"; fi
  git -C /repo worktree remove --force "$W" >/dev/null 2>&1; rm -rf "$W"
  echo "$id: $(head -1 "$d/suite.txt")"
}
export -f one
ls -d "$ROOT"/seeded/*/ | xargs -P 3 -I{} bash -c 'one {}'
