// C18: fluent builders emit exactly what was set; unique ids; current election id.
package c18

import (
	"context"
	"fmt"
	"math/rand"
	"strings"
	"sync"
	"testing"
	"time"

	"github.com/openconfig/gribigo/fluent"
	"google.golang.org/protobuf/encoding/prototext"
	"google.golang.org/protobuf/proto"

	aftpb "github.com/openconfig/gribi/v1/proto/gribi_aft"
	enums "github.com/openconfig/gribi/v1/proto/gribi_aft/enums"
	spb "github.com/openconfig/gribi/v1/proto/service"
	wpb "github.com/openconfig/ygot/proto/ywrapper"

	"verifharness/drv"
	"verifharness/ev"
	"verifharness/mon"
)

func sv(s string) *wpb.StringValue { return &wpb.StringValue{Value: s} }
func uv(u uint64) *wpb.UintValue   { return &wpb.UintValue{Value: u} }

var hdrMap = map[fluent.Header]enums.OpenconfigAftTypesEncapsulationHeaderType{
	fluent.IPinIP: enums.OpenconfigAftTypesEncapsulationHeaderType_OPENCONFIGAFTTYPESENCAPSULATIONHEADERTYPE_IPV4,
	fluent.MPLS:   enums.OpenconfigAftTypesEncapsulationHeaderType_OPENCONFIGAFTTYPESENCAPSULATIONHEADERTYPE_MPLS,
	fluent.UDPV6:  enums.OpenconfigAftTypesEncapsulationHeaderType_OPENCONFIGAFTTYPESENCAPSULATIONHEADERTYPE_UDPV6,
}

// builder pairs a real fluent builder with the expectation derived from the call log alone.
type builder struct {
	kind   string
	real   fluent.GRIBIEntry
	ni     string
	elec   *spb.Uint128
	v4     *aftpb.Afts_Ipv4EntryKey
	v6     *aftpb.Afts_Ipv6EntryKey
	mpls   *aftpb.Afts_LabelEntryKey
	nhg    *aftpb.Afts_NextHopGroupKey
	nh     *aftpb.Afts_NextHopKey
	calls  []string
	stepFn func(r *rand.Rand)
}

func newBuilder(kind string) *builder {
	b := &builder{kind: kind}
	switch kind {
	case "ipv4":
		x := fluent.IPv4Entry()
		b.real = x
		b.stepFn = func(r *rand.Rand) { stepV4(b, x, r) }
		b.v4 = &aftpb.Afts_Ipv4EntryKey{Ipv4Entry: &aftpb.Afts_Ipv4Entry{}}
	case "ipv6":
		x := fluent.IPv6Entry()
		b.real = x
		b.stepFn = func(r *rand.Rand) { stepV6(b, x, r) }
		b.v6 = &aftpb.Afts_Ipv6EntryKey{Ipv6Entry: &aftpb.Afts_Ipv6Entry{}}
	case "mpls":
		x := fluent.LabelEntry()
		b.real = x
		b.stepFn = func(r *rand.Rand) { stepMPLS(b, x, r) }
		b.mpls = &aftpb.Afts_LabelEntryKey{LabelEntry: &aftpb.Afts_LabelEntry{}}
	case "nhg":
		x := fluent.NextHopGroupEntry()
		b.real = x
		b.stepFn = func(r *rand.Rand) { stepNHG(b, x, r) }
		b.nhg = &aftpb.Afts_NextHopGroupKey{NextHopGroup: &aftpb.Afts_NextHopGroup{}}
	case "nh":
		x := fluent.NextHopEntry()
		b.real = x
		b.nh = &aftpb.Afts_NextHopKey{}
		b.stepFn = func(r *rand.Rand) {
			log := func(f string, a ...any) { b.calls = append(b.calls, fmt.Sprintf(f, a...)) }
			lohi := func() (uint64, uint64) { return elecWord(r, true), elecWord(r, false) }
			_ = lohi
			switch r.Intn(14) {
			case 0:
				u := uint64(r.Intn(5))
				x.WithIndex(u)
				b.nh.Index = u
				log("WithIndex(%d)", u)
			case 1:
				n := nis[r.Intn(len(nis))]
				x.WithNetworkInstance(n)
				b.ni = n
				log("WithNetworkInstance(%q)", n)
			case 2:
				a := ips[r.Intn(len(ips))]
				x.WithIPAddress(a)
				b.nhPayload().IpAddress = sv(a)
				log("WithIPAddress(%q)", a)
			case 3:
				x.WithInterfaceRef("eth0")
				b.nhPayload().InterfaceRef = &aftpb.Afts_NextHop_InterfaceRef{Interface: sv("eth0")}
				log("WithInterfaceRef(eth0)")
			case 4:
				s := uint64(r.Intn(100))
				x.WithSubinterfaceRef("eth1", s)
				b.nhPayload().InterfaceRef = &aftpb.Afts_NextHop_InterfaceRef{Interface: sv("eth1"), Subinterface: uv(s)}
				log("WithSubinterfaceRef(eth1,%d)", s)
			case 5:
				x.WithMacAddress("00:11:22:33:44:55")
				b.nhPayload().MacAddress = sv("00:11:22:33:44:55")
				log("WithMacAddress")
			case 6:
				s, d := ips[r.Intn(len(ips))], ips[r.Intn(len(ips))]
				x.WithIPinIP(s, d)
				b.nhPayload().IpInIp = &aftpb.Afts_NextHop_IpInIp{SrcIp: sv(s), DstIp: sv(d)}
				log("WithIPinIP(%q,%q)", s, d)
			case 7:
				n := nis[r.Intn(len(nis))]
				x.WithNextHopNetworkInstance(n)
				b.nhPayload().NetworkInstance = sv(n)
				log("WithNextHopNetworkInstance(%q)", n)
			case 8:
				x.WithPopTopLabel()
				b.nhPayload().PopTopLabel = &wpb.BoolValue{Value: true}
				log("WithPopTopLabel()")
			case 9:
				var ls []uint32
				for k := 0; k < r.Intn(4); k++ {
					ls = append(ls, uint32(16+r.Intn(1000)))
				}
				x.WithPushedLabelStack(ls...)
				b.nhPayload().PushedMplsLabelStack = nil
				for _, l := range ls {
					b.nh.NextHop.PushedMplsLabelStack = append(b.nh.NextHop.PushedMplsLabelStack, &aftpb.Afts_NextHop_PushedMplsLabelStackUnion{PushedMplsLabelStackUint64: uint64(l)})
				}
				log("WithPushedLabelStack(%v)", ls)
			case 10:
				h := []fluent.Header{fluent.IPinIP, fluent.MPLS, fluent.UDPV6}[r.Intn(3)]
				x.WithDecapsulateHeader(h)
				b.nhPayload().DecapsulateHeader = hdrMap[h]
				log("WithDecapsulateHeader(%d)", h)
			case 11:
				h := []fluent.Header{fluent.IPinIP, fluent.MPLS, fluent.UDPV6}[r.Intn(3)]
				x.WithEncapsulateHeader(h)
				b.nhPayload().EncapsulateHeader = hdrMap[h]
				log("WithEncapsulateHeader(%d)", h)
			case 12:
				// a freshly built, fully configured encapsulation header (never touched again)
				idx := uint64(len(b.nhPayload().EncapHeader)) + 1
				if r.Intn(2) == 0 {
					var ls []uint64
					for k := 0; k < 1+r.Intn(3); k++ {
						ls = append(ls, uint64(16+r.Intn(1000)))
					}
					x.AddEncapHeader(fluent.MPLSEncapHeader().WithLabels(ls...))
					m := &aftpb.Afts_NextHop_EncapHeader_Mpls{}
					for _, l := range ls {
						m.MplsLabelStack = append(m.MplsLabelStack, &aftpb.Afts_NextHop_EncapHeader_Mpls_MplsLabelStackUnion{MplsLabelStackUint64: l})
					}
					b.nh.NextHop.EncapHeader = append(b.nh.NextHop.EncapHeader, &aftpb.Afts_NextHop_EncapHeaderKey{Index: idx, EncapHeader: &aftpb.Afts_NextHop_EncapHeader{Type: hdrMap[fluent.MPLS], Mpls: m}})
					log("AddEncapHeader(MPLS%v)", ls)
				} else {
					eh := fluent.UDPV6EncapHeader()
					u := &aftpb.Afts_NextHop_EncapHeader_UdpV6{}
					if r.Intn(2) == 0 {
						eh.WithDSCP(10)
						u.Dscp = uv(10)
					}
					if r.Intn(2) == 0 {
						eh.WithDstIP("2001:db8::2")
						u.DstIp = sv("2001:db8::2")
					}
					if r.Intn(2) == 0 {
						eh.WithSrcIP("2001:db8::1")
						u.SrcIp = sv("2001:db8::1")
					}
					if r.Intn(2) == 0 {
						eh.WithDstUDPPort(6635)
						u.DstUdpPort = uv(6635)
					}
					if r.Intn(2) == 0 {
						eh.WithSrcUDPPort(49152)
						u.SrcUdpPort = uv(49152)
					}
					if r.Intn(2) == 0 {
						eh.WithIPTTL(64)
						u.IpTtl = uv(64)
					}
					x.AddEncapHeader(eh)
					b.nh.NextHop.EncapHeader = append(b.nh.NextHop.EncapHeader, &aftpb.Afts_NextHop_EncapHeaderKey{Index: idx, EncapHeader: &aftpb.Afts_NextHop_EncapHeader{Type: hdrMap[fluent.UDPV6], UdpV6: u}})
					log("AddEncapHeader(UDPv6 %s)", prototext.MarshalOptions{}.Format(u))
				}
			default:
				lo, hi := lohi()
				x.WithElectionID(lo, hi)
				b.elec = &spb.Uint128{Low: lo, High: hi}
				log("WithElectionID(%d,%d)", lo, hi)
			}

		}
	}
	return b
}

func (b *builder) nhPayload() *aftpb.Afts_NextHop {
	if b.nh.NextHop == nil {
		b.nh.NextHop = &aftpb.Afts_NextHop{}
	}
	return b.nh.NextHop
}

var nis = []string{"DEFAULT", "VRF1", "", "ni with spaces"}
// (spellings that a canonicaliser would change are part of the pool: the builder emits what it was given)
var v4s = []string{"10.0.0.0/8", "192.0.2.0/24", "0.0.0.0/0", "10.1.2.3/8", "192.0.2.129/25"}
var v6s = []string{"2001:db8::/32", "::/0", "2001:DB8::/32", "2001:db8:0:0::/64", "2001:db8::1/64"}
var ips = []string{"192.0.2.1", "2001:db8::1", "198.51.100.7"}

// The fluent builder types are unexported: generic functions whose type parameter is
// inferred from the constructor's result let the harness call every method anyway.
type v4B[T any] interface {
	WithPrefix(string) T
	WithNetworkInstance(string) T
	WithNextHopGroup(uint64) T
	WithNextHopGroupNetworkInstance(string) T
	WithMetadata([]byte) T
	WithElectionID(uint64, uint64) T
}
type mplsB[T any] interface {
	WithLabel(uint32) T
	WithNetworkInstance(string) T
	WithNextHopGroup(uint64) T
	WithNextHopGroupNetworkInstance(string) T
	WithPoppedLabelStack(...uint32) T
}
type nhgB[T any] interface {
	WithID(uint64) T
	WithNetworkInstance(string) T
	WithBackupNHG(uint64) T
	AddNextHop(uint64, uint64) T
	WithElectionID(uint64, uint64) T
}

// step applies one random builder call to both sides.
func (b *builder) step(r *rand.Rand) { b.stepFn(r) }

func stepV4[T v4B[T]](b *builder, x T, r *rand.Rand) {
	log := func(f string, a ...any) { b.calls = append(b.calls, fmt.Sprintf(f, a...)) }
	lohi := func() (uint64, uint64) { return elecWord(r, true), elecWord(r, false) }
	_ = lohi
	switch r.Intn(6) {
	case 0:
		p := v4s[r.Intn(len(v4s))]
		x.WithPrefix(p)
		b.v4.Prefix = p
		log("WithPrefix(%q)", p)
	case 1:
		n := nis[r.Intn(len(nis))]
		x.WithNetworkInstance(n)
		b.ni = n
		log("WithNetworkInstance(%q)", n)
	case 2:
		u := uint64(r.Intn(5))
		x.WithNextHopGroup(u)
		b.v4.Ipv4Entry.NextHopGroup = uv(u)
		log("WithNextHopGroup(%d)", u)
	case 3:
		n := nis[r.Intn(len(nis))]
		x.WithNextHopGroupNetworkInstance(n)
		b.v4.Ipv4Entry.NextHopGroupNetworkInstance = sv(n)
		log("WithNextHopGroupNetworkInstance(%q)", n)
	case 4:
		md := make([]byte, 1+r.Intn(8))
		r.Read(md)
		x.WithMetadata(md)
		b.v4.Ipv4Entry.EntryMetadata = &wpb.BytesValue{Value: append([]byte{}, md...)}
		log("WithMetadata(%x)", md)
	default:
		lo, hi := lohi()
		x.WithElectionID(lo, hi)
		b.elec = &spb.Uint128{Low: lo, High: hi}
		log("WithElectionID(%d,%d)", lo, hi)
	}
}

func stepV6[T v4B[T]](b *builder, x T, r *rand.Rand) {
	log := func(f string, a ...any) { b.calls = append(b.calls, fmt.Sprintf(f, a...)) }
	lohi := func() (uint64, uint64) { return elecWord(r, true), elecWord(r, false) }
	_ = lohi
	switch r.Intn(6) {
	case 0:
		p := v6s[r.Intn(len(v6s))]
		x.WithPrefix(p)
		b.v6.Prefix = p
		log("WithPrefix(%q)", p)
	case 1:
		n := nis[r.Intn(len(nis))]
		x.WithNetworkInstance(n)
		b.ni = n
		log("WithNetworkInstance(%q)", n)
	case 2:
		u := uint64(r.Intn(5))
		x.WithNextHopGroup(u)
		b.v6.Ipv6Entry.NextHopGroup = uv(u)
		log("WithNextHopGroup(%d)", u)
	case 3:
		n := nis[r.Intn(len(nis))]
		x.WithNextHopGroupNetworkInstance(n)
		b.v6.Ipv6Entry.NextHopGroupNetworkInstance = sv(n)
		log("WithNextHopGroupNetworkInstance(%q)", n)
	case 4:
		md := make([]byte, 1+r.Intn(8))
		r.Read(md)
		x.WithMetadata(md)
		b.v6.Ipv6Entry.EntryMetadata = &wpb.BytesValue{Value: append([]byte{}, md...)}
		log("WithMetadata(%x)", md)
	default:
		lo, hi := lohi()
		x.WithElectionID(lo, hi)
		b.elec = &spb.Uint128{Low: lo, High: hi}
		log("WithElectionID(%d,%d)", lo, hi)
	}
}

func stepMPLS[T mplsB[T]](b *builder, x T, r *rand.Rand) {
	log := func(f string, a ...any) { b.calls = append(b.calls, fmt.Sprintf(f, a...)) }
	lohi := func() (uint64, uint64) { return elecWord(r, true), elecWord(r, false) }
	_ = lohi
	switch r.Intn(5) {
	case 0:
		l := uint32(16 + r.Intn(1000))
		if r.Intn(3) == 0 {
			// boundary and special-purpose values: the builder emits the number it was given
			l = []uint32{0, 1, 2, 3, 7, 13, 14, 15, 16, 1048575, 1048576, ^uint32(0)}[r.Intn(12)]
		}
		x.WithLabel(l)
		b.mpls.Label = &aftpb.Afts_LabelEntryKey_LabelUint64{LabelUint64: uint64(l)}
		log("WithLabel(%d)", l)
	case 1:
		n := nis[r.Intn(len(nis))]
		x.WithNetworkInstance(n)
		b.ni = n
		log("WithNetworkInstance(%q)", n)
	case 2:
		u := uint64(r.Intn(5))
		x.WithNextHopGroup(u)
		b.mpls.LabelEntry.NextHopGroup = uv(u)
		log("WithNextHopGroup(%d)", u)
	case 3:
		n := nis[r.Intn(len(nis))]
		x.WithNextHopGroupNetworkInstance(n)
		b.mpls.LabelEntry.NextHopGroupNetworkInstance = sv(n)
		log("WithNextHopGroupNetworkInstance(%q)", n)
	default:
		var ls []uint32
		for k := 0; k < r.Intn(4); k++ {
			ls = append(ls, uint32(16+r.Intn(1000)))
		}
		x.WithPoppedLabelStack(ls...)
		b.mpls.LabelEntry.PoppedMplsLabelStack = nil
		for _, l := range ls {
			b.mpls.LabelEntry.PoppedMplsLabelStack = append(b.mpls.LabelEntry.PoppedMplsLabelStack, &aftpb.Afts_LabelEntry_PoppedMplsLabelStackUnion{PoppedMplsLabelStackUint64: uint64(l)})
		}
		log("WithPoppedLabelStack(%v)", ls)
	}
}

func stepNHG[T nhgB[T]](b *builder, x T, r *rand.Rand) {
	log := func(f string, a ...any) { b.calls = append(b.calls, fmt.Sprintf(f, a...)) }
	lohi := func() (uint64, uint64) { return elecWord(r, true), elecWord(r, false) }
	_ = lohi
	switch r.Intn(5) {
	case 0:
		u := uint64(r.Intn(5))
		x.WithID(u)
		b.nhg.Id = u
		log("WithID(%d)", u)
	case 1:
		n := nis[r.Intn(len(nis))]
		x.WithNetworkInstance(n)
		b.ni = n
		log("WithNetworkInstance(%q)", n)
	case 2:
		u := uint64(r.Intn(5))
		x.WithBackupNHG(u)
		b.nhg.NextHopGroup.BackupNextHopGroup = uv(u)
		log("WithBackupNHG(%d)", u)
	case 3:
		i, w := uint64(r.Intn(4)), uint64(r.Intn(10))
		x.AddNextHop(i, w)
		b.nhg.NextHopGroup.NextHop = append(b.nhg.NextHopGroup.NextHop, &aftpb.Afts_NextHopGroup_NextHopKey{Index: i, NextHop: &aftpb.Afts_NextHopGroup_NextHop{Weight: uv(w)}})
		log("AddNextHop(%d,%d)", i, w)
	default:
		lo, hi := lohi()
		x.WithElectionID(lo, hi)
		b.elec = &spb.Uint128{Low: lo, High: hi}
		log("WithElectionID(%d,%d)", lo, hi)
	}
}

// expectation builders
func (b *builder) wantOp() *spb.AFTOperation {
	op := &spb.AFTOperation{NetworkInstance: b.ni, ElectionId: b.elec}
	switch b.kind {
	case "ipv4":
		op.Entry = &spb.AFTOperation_Ipv4{Ipv4: proto.Clone(b.v4).(*aftpb.Afts_Ipv4EntryKey)}
	case "ipv6":
		op.Entry = &spb.AFTOperation_Ipv6{Ipv6: proto.Clone(b.v6).(*aftpb.Afts_Ipv6EntryKey)}
	case "mpls":
		op.Entry = &spb.AFTOperation_Mpls{Mpls: proto.Clone(b.mpls).(*aftpb.Afts_LabelEntryKey)}
	case "nhg":
		op.Entry = &spb.AFTOperation_NextHopGroup{NextHopGroup: proto.Clone(b.nhg).(*aftpb.Afts_NextHopGroupKey)}
	case "nh":
		op.Entry = &spb.AFTOperation_NextHop{NextHop: proto.Clone(b.nh).(*aftpb.Afts_NextHopKey)}
	}
	if op.ElectionId != nil {
		op.ElectionId = proto.Clone(op.ElectionId).(*spb.Uint128)
	}
	return op
}

func (b *builder) wantEntry() *spb.AFTEntry {
	e := &spb.AFTEntry{NetworkInstance: b.ni}
	switch b.kind {
	case "ipv4":
		e.Entry = &spb.AFTEntry_Ipv4{Ipv4: proto.Clone(b.v4).(*aftpb.Afts_Ipv4EntryKey)}
	case "ipv6":
		e.Entry = &spb.AFTEntry_Ipv6{Ipv6: proto.Clone(b.v6).(*aftpb.Afts_Ipv6EntryKey)}
	case "mpls":
		e.Entry = &spb.AFTEntry_Mpls{Mpls: proto.Clone(b.mpls).(*aftpb.Afts_LabelEntryKey)}
	case "nhg":
		e.Entry = &spb.AFTEntry_NextHopGroup{NextHopGroup: proto.Clone(b.nhg).(*aftpb.Afts_NextHopGroupKey)}
	case "nh":
		e.Entry = &spb.AFTEntry_NextHop{NextHop: proto.Clone(b.nh).(*aftpb.Afts_NextHopKey)}
	}
	return e
}

func pt(m proto.Message) string { return prototext.MarshalOptions{Multiline: false}.Format(m) }

var kinds = []string{"ipv4", "ipv6", "mpls", "nhg", "nh"}

func TestCheck(t *testing.T) {
	run := ev.Start(t, "C18", "exploration")
	// (a) builder programs
	nA := run.Pick(60000, 600000)
	ev.Parallel(nA, ev.Workers(), func(i int) {
		caseID := fmt.Sprintf("builder-%d", i)
		if !run.Want(caseID) {
			return
		}
		r := run.Rand(caseID)
		b := newBuilder(kinds[i%5])
		n := r.Intn(14)
		var snaps []*spb.AFTOperation
		var snapWants []*spb.AFTOperation
		var entrySnaps, entrySnapWants []*spb.AFTEntry
		for k := 0; k < n; k++ {
			b.step(r)
			if r.Intn(4) == 0 {
				// materialise mid-program: later calls must not alter this message
				op, err := b.real.OpProto()
				if err != nil {
					run.Violation(caseID, "opproto-error", err.Error(), b.calls)
					return
				}
				snaps = append(snaps, op)
				snapWants = append(snapWants, b.wantOp())
				b.calls = append(b.calls, "-> OpProto()")
			}
			if r.Intn(5) == 0 {
				// the entry form too: taken mid-program it must say what the calls so far specify,
				// and must not be altered (nor be handed out again) after later calls
				en, err := b.real.EntryProto()
				if err != nil {
					run.Violation(caseID, "entryproto-error", err.Error(), b.calls)
					return
				}
				b.calls = append(b.calls, "-> EntryProto()")
				if w := b.wantEntry(); !proto.Equal(en, w) {
					run.Violation(caseID, "builder-entry-differs:"+b.kind+":"+diffField(w, en), fmt.Sprintf("EntryProto() taken mid-program = %s, the calls made so far specify %s", pt(en), pt(w)), b.calls)
				}
				entrySnaps = append(entrySnaps, en)
				entrySnapWants = append(entrySnapWants, b.wantEntry())
			}
		}
		op, err1 := b.real.OpProto()
		en, err2 := b.real.EntryProto()
		if err1 != nil || err2 != nil {
			run.Violation(caseID, "proto-error", fmt.Sprint(err1, err2), b.calls)
			return
		}
		if w := b.wantOp(); !proto.Equal(op, w) {
			run.Violation(caseID, "builder-output-differs:"+b.kind+":"+diffField(w, op), fmt.Sprintf("OpProto() = %s, the calls made specify %s", pt(op), pt(w)), b.calls)
		}
		if w := b.wantEntry(); !proto.Equal(en, w) {
			run.Violation(caseID, "builder-entry-differs:"+b.kind+":"+diffField(w, en), fmt.Sprintf("EntryProto() = %s, the calls made specify %s", pt(en), pt(w)), b.calls)
		}
		for k := range entrySnaps {
			if !proto.Equal(entrySnaps[k], entrySnapWants[k]) {
				run.Violation(caseID, "earlier-message-altered-by-later-builder-calls:"+b.kind, fmt.Sprintf("an entry taken with EntryProto() earlier now reads %s, it was %s", pt(entrySnaps[k]), pt(entrySnapWants[k])), b.calls)
			}
		}
		for k := range snaps {
			if !proto.Equal(snaps[k], snapWants[k]) {
				run.Violation(caseID, "earlier-message-altered-by-later-builder-calls:"+b.kind, fmt.Sprintf("a message taken with OpProto() earlier now reads %s, it was %s", pt(snaps[k]), pt(snapWants[k])), b.calls)
			}
		}
		run.Eval(1)
		run.Count("builder_calls", int64(n))
		for _, c := range b.calls {
			if j := strings.Index(c, "("); j > 0 {
				run.Seen("builder_methods", b.kind+"."+c[:j])
			}
		}
		if n > 0 {
			run.Distinct(b.kind + strings.Join(b.calls, ";"))
		}
		if i < 2 {
			run.Sample(map[string]any{"case": caseID, "kind": b.kind, "calls": b.calls, "op": pt(op)})
		}
	})

	// (b) client programs: ids, operation types, election stamps, no aliasing with queued messages
	nB := run.Pick(1500, 20000)
	ev.Parallel(nB, ev.Workers(), func(i int) {
		caseID := fmt.Sprintf("client-%d", i)
		if !run.Want(caseID) {
			return
		}
		clientProgram(run, caseID, run.Rand(caseID), i%5 != 4)
	})
	run.Assume("'last call wins' at the granularity each method documents (WithSubinterfaceRef = interface+subinterface, WithIPinIP = source+destination, With*LabelStack = the whole stack); encapsulation-header builders are configured completely before they are added and not touched afterwards")
	run.Finish("(a) random programs of 0-13 builder calls per entry kind (every With*/Add* method, any order, repeats, OpProto() and EntryProto() taken mid-program) interpreted twice - by the real builders and by an expectation constructed directly from the call log - and compared with proto.Equal, for OpProto() and EntryProto(); messages taken earlier are re-compared at the end; (b) client programs of AddEntry/ReplaceEntry/DeleteEntry/UpdateElectionID with reused and re-modified builders, through fresh Modify() handles and handles held across other calls, through a recording stub stream: ids 1,2,3.. in order, requested operation type, election stamp = most recently set id unless the entry carries its own (none in ALL_PRIMARY mode), each captured request deep-copied at capture and re-compared at the end. Distinct = by call log", 500, false)
}

// diffField names the first top-level payload field in which two messages differ.
func diffField(want, got proto.Message) string {
	w, g := pt(want), pt(got)
	fw, fg := strings.Fields(w), strings.Fields(g)
	for i := 0; i < len(fw) && i < len(fg); i++ {
		if fw[i] != fg[i] {
			return strings.Trim(strings.SplitN(fw[i], ":", 2)[0], "{}")
		}
	}
	if len(fw) != len(fg) {
		return "length"
	}
	return "?"
}

type recorded struct {
	live *spb.ModifyRequest
	copy *spb.ModifyRequest
}

func clientProgram(run *ev.Run, caseID string, r *rand.Rand, elected bool) {
	var mu sync.Mutex
	var recs []recorded
	fake := &drv.FakeGRIBI{}
	fake.NewStream = func(s *drv.FakeStream) {
		s.OnSend = func(_ int, m *spb.ModifyRequest) {
			mu.Lock()
			recs = append(recs, recorded{m, proto.Clone(m).(*spb.ModifyRequest)})
			mu.Unlock()
			switch {
			case m.Params != nil:
				s.Push(&spb.ModifyResponse{SessionParamsResult: &spb.SessionParametersResult{Status: spb.SessionParametersResult_OK}})
			case m.ElectionId != nil:
				s.Push(&spb.ModifyResponse{ElectionId: m.ElectionId})
			default:
				resp := &spb.ModifyResponse{}
				for _, o := range m.Operation {
					resp.Result = append(resp.Result, &spb.AFTResult{Id: o.Id, Status: spb.AFTResult_RIB_PROGRAMMED})
				}
				s.Push(resp)
			}
		}
	}
	tb := &mon.TB{}
	var trace []string
	var want []*spb.AFTOperation // expected operations in order
	var problems []string
	failedBuilds := 0
	cur := &spb.Uint128{Low: uint64(1 + r.Intn(5)), High: uint64(r.Intn(2))}
	fatal := tb.Run(func(t testing.TB) {
		c := fluent.NewClient()
		conn := c.Connection().WithStub(fake).WithPersistence()
		if elected {
			conn.WithRedundancyMode(fluent.ElectedPrimaryClient).WithInitialElectionID(cur.Low, cur.High)
		} else {
			conn.WithRedundancyMode(fluent.AllPrimaryClients)
		}
		ctx, cancel := context.WithCancel(context.Background())
		defer cancel()
		c.Start(ctx, t)
		// one program in three starts with its messages held back (StartSending comes a few
		// steps later); one in four goes through a second session (Await, Stop, Start again):
		// ids go on counting, the stamp stays the most recently set id
		startAt := 0
		if r.Intn(3) == 0 {
			startAt = 1 + r.Intn(4)
		}
		restartAt := -1
		if r.Intn(4) == 0 {
			restartAt = startAt + 1 + r.Intn(6)
		}
		if startAt == 0 {
			c.StartSending(ctx, t)
		}
		var pool []*builder
		// Modify() handles: fresh ones and ones held across other calls (the handle type is
		// unexported, hence the closures)
		type handle struct {
			add, rep, del func(es ...fluent.GRIBIEntry)
			upd           func(lo, hi uint64)
			// addT: AddEntry reporting to another testing.TB (for requests that cannot be built)
			addT func(tt testing.TB, es ...fluent.GRIBIEntry)
		}
		mk := func() handle {
			m := c.Modify()
			return handle{
				add:  func(es ...fluent.GRIBIEntry) { m.AddEntry(t, es...) },
				rep:  func(es ...fluent.GRIBIEntry) { m.ReplaceEntry(t, es...) },
				del:  func(es ...fluent.GRIBIEntry) { m.DeleteEntry(t, es...) },
				upd:  func(lo, hi uint64) { m.UpdateElectionID(t, lo, hi) },
				addT: func(tt testing.TB, es ...fluent.GRIBIEntry) { m.AddEntry(tt, es...) },
			}
		}
		var held []handle
		pickHandle := func() (handle, string) {
			if len(held) > 0 && r.Intn(3) == 0 {
				return held[r.Intn(len(held))], "held Modify() handle"
			}
			h := mk()
			if r.Intn(3) == 0 {
				held = append(held, h)
			}
			return h, "fresh Modify() handle"
		}
		id := uint64(0)
		steps := 3 + r.Intn(12)
		for s := 0; s < steps; s++ {
			if s == startAt && startAt > 0 {
				c.StartSending(ctx, t)
				trace = append(trace, "StartSending (messages so far were held)")
			}
			if s == restartAt && s >= startAt {
				wctx, wcancel := context.WithTimeout(ctx, 20*time.Second)
				err := c.Await(wctx, t)
				wcancel()
				if err != nil {
					problems = append(problems, fmt.Sprintf("await-error|before the second session: %v", err))
				}
				c.Stop(t)
				modeNote := ""
				if r.Intn(2) == 0 {
					// the second session uses the other redundancy mode: what was set for the
					// first one must not leak into it
					elected = !elected
					if elected {
						conn.WithRedundancyMode(fluent.ElectedPrimaryClient).WithInitialElectionID(cur.Low, cur.High)
						modeNote = fmt.Sprintf(", now as elected primary with initial id (%d,%d)", cur.Low, cur.High)
					} else {
						conn.WithRedundancyMode(fluent.AllPrimaryClients)
						modeNote = ", now in all-primary mode (no election id on operations)"
					}
				}
				c.Start(ctx, t)
				c.StartSending(ctx, t)
				held = nil // handles of the first session are not used on the second
				trace = append(trace, "Await, Stop, Start, StartSending (second session of the same client"+modeNote+")")
			}
			switch x := r.Intn(10); {
			case x < 2 && elected:
				lo, hi := uint64(1+r.Intn(50)), []uint64{0, 1, 2, ^uint64(0)}[r.Intn(4)]
				h, hn := pickHandle()
				h.upd(lo, hi)
				cur = &spb.Uint128{Low: lo, High: hi}
				trace = append(trace, fmt.Sprintf("UpdateElectionID(%d,%d) on a %s", lo, hi, hn))
			case x == 9 && r.Intn(2) == 0:
				// a request that cannot be built (an entry whose OpProto fails, or that carries an
				// explicit operation id): the call is fatal for the test that made it, nothing is
				// queued, and the ids of everything queued before and after stay distinct and increasing
				var es []fluent.GRIBIEntry
				nGood := r.Intn(3)
				for k := 0; k < nGood; k++ {
					b := newBuilder(kinds[r.Intn(5)])
					b.step(r)
					es = append(es, b.real)
				}
				es = append(es, badEntry{explicitID: r.Intn(2) == 0})
				if r.Intn(2) == 0 {
					b := newBuilder(kinds[r.Intn(5)])
					b.step(r)
					es = append(es, b.real)
				}
				h, hn := pickHandle()
				sub := &mon.TB{}
				if !sub.Run(func(tt testing.TB) { h.addT(tt, es...) }) {
					problems = append(problems, "unbuildable-request-accepted|AddEntry with an entry that cannot be built did not fail the test")
				}
				failedBuilds++
				trace = append(trace, fmt.Sprintf("AddEntry(%d buildable entries + one that cannot be built) on a %s", len(es)-1, hn))
			case x < 4 && len(pool) > 0:
				// modify a builder that was already used in a queued message
				b := pool[r.Intn(len(pool))]
				b.step(r)
				trace = append(trace, "reused builder: "+b.calls[len(b.calls)-1])
			default:
				n := 1 + r.Intn(3)
				large := r.Intn(14) == 0
				if large {
					n = 250 + r.Intn(80) // one call with hundreds of entries
				}
				var es []fluent.GRIBIEntry
				var bs []*builder
				for k := 0; k < n; k++ {
					var b *builder
					if large {
						b = newBuilder(kinds[r.Intn(5)])
						b.step(r)
					} else if len(pool) > 0 && r.Intn(3) == 0 {
						b = pool[r.Intn(len(pool))]
					} else {
						b = newBuilder(kinds[r.Intn(5)])
						for q := 0; q < 1+r.Intn(5); q++ {
							b.step(r)
						}
						pool = append(pool, b)
					}
					es = append(es, b.real)
					bs = append(bs, b)
				}
				kind := []spb.AFTOperation_Operation{spb.AFTOperation_ADD, spb.AFTOperation_REPLACE, spb.AFTOperation_DELETE}[r.Intn(3)]
				h, hn := pickHandle()
				switch kind {
				case spb.AFTOperation_ADD:
					h.add(es...)
				case spb.AFTOperation_REPLACE:
					h.rep(es...)
				default:
					h.del(es...)
				}
				for _, b := range bs {
					id++
					w := b.wantOp()
					w.Id, w.Op = id, kind
					if w.ElectionId == nil && elected {
						w.ElectionId = proto.Clone(cur).(*spb.Uint128)
					}
					want = append(want, w)
				}
				trace = append(trace, fmt.Sprintf("%s(%d entries) on a %s", kind, n, hn))
			}
		}
		if startAt >= steps {
			c.StartSending(ctx, t)
		}
		wctx, wcancel := context.WithTimeout(ctx, 20*time.Second)
		defer wcancel()
		if err := c.Await(wctx, t); err != nil {
			problems = append(problems, fmt.Sprintf("await-error|%v", err))
		}
		c.Stop(t)
	})
	if fatal {
		problems = append(problems, fmt.Sprintf("fluent-client-fatal|%v", tb.Fatals))
	}
	mu.Lock()
	defer mu.Unlock()
	var got []*spb.AFTOperation
	for _, rc := range recs {
		if !proto.Equal(rc.live, rc.copy) {
			problems = append(problems, fmt.Sprintf("queued-message-altered-after-queueing|captured %s, now %s", pt(rc.copy), pt(rc.live)))
		}
		got = append(got, rc.copy.Operation...)
	}
	if len(got) != len(want) {
		problems = append(problems, fmt.Sprintf("operation-count|%d operations reached the stream, %d were requested", len(got), len(want)))
	}
	for k := 0; k < len(got) && k < len(want); k++ {
		g, w := got[k], want[k]
		if failedBuilds > 0 {
			// ids burnt by requests that could not be built leave gaps: what remains required is
			// "distinct and strictly increasing"
			if k > 0 && g.Id <= got[k-1].Id {
				problems = append(problems, fmt.Sprintf("operation-id|operation #%d carries id %d after id %d: ids must be distinct and strictly increasing (the program contains requests that could not be built)", k+1, g.Id, got[k-1].Id))
				continue
			}
			w.Id = g.Id
		}
		switch {
		case g.Id != w.Id:
			problems = append(problems, fmt.Sprintf("operation-id|operation #%d carries id %d, expected %d", k+1, g.Id, w.Id))
		case g.Op != w.Op:
			problems = append(problems, fmt.Sprintf("operation-type|operation %d is %s, requested %s", g.Id, g.Op, w.Op))
		case !proto.Equal(g.ElectionId, w.ElectionId):
			problems = append(problems, fmt.Sprintf("election-stamp|operation %d stamped %v, expected %v (most recently set id, or the entry's own)", g.Id, g.ElectionId, w.ElectionId))
		case !proto.Equal(g, w):
			problems = append(problems, fmt.Sprintf("queued-operation-differs:%s|operation %d is %s, the calls specify %s", diffField(w, g), g.Id, pt(g), pt(w)))
		}
	}
	for _, p := range problems {
		sig, txt := mon.SplitSig(p)
		run.Violation(caseID, sig, txt, map[string]any{"program": trace, "elected_primary": elected})
	}
	run.Eval(1)
	run.Count("client_operations", int64(len(want)))
	run.Distinct("client" + strings.Join(trace, ";") + fmt.Sprint(len(want)))
}

// elecWord draws one 64-bit half of an election id set on an entry builder: small
// values, explicit zero (both halves zero = an entry that explicitly carries the
// all-zero id, e.g. for a negative test) and the all-ones word.
func elecWord(r *rand.Rand, low bool) uint64 {
	switch r.Intn(8) {
	case 0, 1:
		return 0
	case 2:
		return ^uint64(0)
	}
	if low {
		return uint64(1 + r.Intn(9))
	}
	return uint64(r.Intn(3))
}

// badEntry is a GRIBIEntry that cannot be turned into an operation.
type badEntry struct{ explicitID bool }

func (b badEntry) OpProto() (*spb.AFTOperation, error) {
	if b.explicitID {
		return &spb.AFTOperation{Id: 77, NetworkInstance: "DEFAULT", Entry: &spb.AFTOperation_NextHop{NextHop: &aftpb.Afts_NextHopKey{Index: 1, NextHop: &aftpb.Afts_NextHop{}}}}, nil
	}
	return nil, fmt.Errorf("this entry cannot be built")
}
func (b badEntry) EntryProto() (*spb.AFTEntry, error) {
	return nil, fmt.Errorf("this entry cannot be built")
}
