// C13: client accounting: operations are queued, pending or resulted; converged = answered.
package c13

import (
	"context"
	"google.golang.org/protobuf/proto"

	"fmt"
	"math/rand"
	"sort"
	"strings"
	"sync"
	"sync/atomic"
	"testing"

	"github.com/golang/glog"
	"time"
	"verifharness/child"
	"verifharness/mon"

	"github.com/openconfig/gribigo/client"
	"github.com/openconfig/gribigo/constants"

	aftpb "github.com/openconfig/gribi/v1/proto/gribi_aft"
	spb "github.com/openconfig/gribi/v1/proto/service"

	"verifharness/drv"
	"verifharness/ev"
	"verifharness/gen"
)

type opInfo struct {
	kind constants.OpType
	tbl  string
	key  string
}

func mkOp(r *rand.Rand, id uint64) (*spb.AFTOperation, opInfo) {
	kinds := []spb.AFTOperation_Operation{spb.AFTOperation_ADD, spb.AFTOperation_REPLACE, spb.AFTOperation_DELETE}
	k := kinds[r.Intn(3)]
	op := &spb.AFTOperation{Id: id, NetworkInstance: "DEFAULT", Op: k, ElectionId: &spb.Uint128{Low: 1}}
	info := opInfo{kind: constants.OpFromAFTOp(k)}
	switch r.Intn(5) {
	case 0:
		p := fmt.Sprintf("10.%d.%d.0/24", r.Intn(200), r.Intn(200))
		op.Entry = &spb.AFTOperation_Ipv4{Ipv4: &aftpb.Afts_Ipv4EntryKey{Prefix: p, Ipv4Entry: &aftpb.Afts_Ipv4Entry{NextHopGroup: gen.U(1)}}}
		info.tbl, info.key = "ipv4", p
	case 1:
		p := fmt.Sprintf("2001:db8:%x::/48", r.Intn(60000))
		op.Entry = &spb.AFTOperation_Ipv6{Ipv6: &aftpb.Afts_Ipv6EntryKey{Prefix: p, Ipv6Entry: &aftpb.Afts_Ipv6Entry{NextHopGroup: gen.U(1)}}}
		info.tbl, info.key = "ipv6", p
	case 2:
		l := uint64(16 + r.Intn(100000))
		op.Entry = &spb.AFTOperation_Mpls{Mpls: &aftpb.Afts_LabelEntryKey{Label: &aftpb.Afts_LabelEntryKey_LabelUint64{LabelUint64: l}, LabelEntry: &aftpb.Afts_LabelEntry{NextHopGroup: gen.U(1)}}}
		info.tbl, info.key = "mpls", fmt.Sprint(l)
	case 3:
		g := uint64(1 + r.Intn(100000))
		op.Entry = &spb.AFTOperation_NextHopGroup{NextHopGroup: &aftpb.Afts_NextHopGroupKey{Id: g, NextHopGroup: &aftpb.Afts_NextHopGroup{}}}
		info.tbl, info.key = "nhg", fmt.Sprint(g)
	default:
		n := uint64(1 + r.Intn(100000))
		op.Entry = &spb.AFTOperation_NextHop{NextHop: &aftpb.Afts_NextHopKey{Index: n, NextHop: &aftpb.Afts_NextHop{}}}
		info.tbl, info.key = "nh", fmt.Sprint(n)
	}
	return op, info
}

func detailKey(d *client.OpDetailsResults) (string, string) {
	switch {
	case d == nil:
		return "", ""
	case d.IPv4Prefix != "":
		return "ipv4", d.IPv4Prefix
	case d.IPv6Prefix != "":
		return "ipv6", d.IPv6Prefix
	case d.MPLSLabel != 0:
		return "mpls", fmt.Sprint(d.MPLSLabel)
	case d.NextHopGroupID != 0:
		return "nhg", fmt.Sprint(d.NextHopGroupID)
	case d.NextHopIndex != 0:
		return "nh", fmt.Sprint(d.NextHopIndex)
	}
	return "", ""
}

func terminal(fib bool, st spb.AFTResult_Status) bool {
	switch st {
	case spb.AFTResult_FAILED:
		return true
	case spb.AFTResult_RIB_PROGRAMMED:
		return !fib
	case spb.AFTResult_FIB_PROGRAMMED, spb.AFTResult_FIB_FAILED:
		return true
	}
	return false
}

type event struct {
	id uint64
	st spb.AFTResult_Status
}

// advServer plays the server: it answers each operation according to a random plan,
// with arbitrary delay, cross-id reordering and batching, per-id RIB before FIB.
type advServer struct {
	fib      bool
	r        *rand.Rand
	mu       sync.Mutex
	ready    [][]event // per op: remaining events in order
	sessQ    []*spb.ModifyResponse
	termSent map[uint64]bool // terminal result handed to the stream (set BEFORE Push)
	allSent  map[uint64][]spb.AFTResult_Status
	stop     chan struct{}
	st       *drv.FakeStream
	violate  string // "", "unknown-id", "duplicate-terminal"
	violated atomic.Bool
	// termStatus is the terminal status sent per id; violBatch the ids whose terminal result
	// sits in the same response as the protocol violation (ahead of it).
	termStatus map[uint64]spb.AFTResult_Status
	violBatch  map[uint64]bool
	// finalOnly: inject the violation only into a response that answers everything still
	// outstanding after the application announced its last request (noMore) - the response
	// that would otherwise let the client converge.
	finalOnly   bool
	slowSend    atomic.Bool
	expectTotal atomic.Int64 // set by the application once its last request was queued
	nRecv       int64        // operations received so far
}

func (a *advServer) onSend(_ int, m *spb.ModifyRequest) {
	if a.slowSend.Load() {
		time.Sleep(150 * time.Microsecond) // a stream that takes its time with every message
	}
	a.mu.Lock()
	defer a.mu.Unlock()
	if m.Params != nil {
		a.sessQ = append(a.sessQ, &spb.ModifyResponse{SessionParamsResult: &spb.SessionParametersResult{Status: spb.SessionParametersResult_OK}})
	}
	if m.ElectionId != nil {
		// a server reports the highest id it knows, which need not be the one just announced:
		// every other answer carries a higher id, one in four of them in the high word
		rep := &spb.Uint128{High: m.ElectionId.GetHigh(), Low: m.ElectionId.GetLow()}
		switch a.r.Intn(4) {
		case 0:
			rep.Low += uint64(1 + a.r.Intn(5))
		case 1:
			rep.High, rep.Low = rep.High+1, 0
		}
		a.sessQ = append(a.sessQ, &spb.ModifyResponse{ElectionId: rep})
	}
	a.nRecv += int64(len(m.Operation))
	for _, o := range m.Operation {
		var evs []event
		switch x := a.r.Intn(10); {
		case x < 2:
			evs = []event{{o.Id, spb.AFTResult_FAILED}}
		case !a.fib:
			evs = []event{{o.Id, spb.AFTResult_RIB_PROGRAMMED}}
		case x < 4:
			evs = []event{{o.Id, spb.AFTResult_RIB_PROGRAMMED}, {o.Id, spb.AFTResult_FIB_FAILED}}
		default:
			evs = []event{{o.Id, spb.AFTResult_RIB_PROGRAMMED}, {o.Id, spb.AFTResult_FIB_PROGRAMMED}}
		}
		a.ready = append(a.ready, evs)
	}
}

// step emits one response if anything is ready; returns false if idle.
func (a *advServer) step() bool {
	a.mu.Lock()
	if len(a.sessQ) > 0 && a.r.Intn(2) == 0 {
		m := a.sessQ[0]
		a.sessQ = a.sessQ[1:]
		a.mu.Unlock()
		a.st.Push(m)
		return true
	}
	if len(a.ready) == 0 {
		if len(a.sessQ) > 0 {
			m := a.sessQ[0]
			a.sessQ = a.sessQ[1:]
			a.mu.Unlock()
			a.st.Push(m)
			return true
		}
		a.mu.Unlock()
		return false
	}
	n := 1 + a.r.Intn(50)
	if a.r.Intn(3) == 0 {
		n = 1
	}
	allIn := a.expectTotal.Load() > 0 && a.nRecv == a.expectTotal.Load()
	if a.finalOnly && !allIn {
		// keep the very last event back until the application is done queuing, so that the
		// response that lets the client converge is the one that carries the violation
		left := 0
		for _, evs := range a.ready {
			left += len(evs)
		}
		if left <= 1 {
			a.mu.Unlock()
			return false
		}
		if n >= left {
			n = left - 1
		}
	}
	resp := &spb.ModifyResponse{}
	for k := 0; k < n && len(a.ready) > 0; k++ {
		i := a.r.Intn(len(a.ready))
		e := a.ready[i][0]
		a.ready[i] = a.ready[i][1:]
		if len(a.ready[i]) == 0 {
			a.ready[i] = a.ready[len(a.ready)-1]
			a.ready = a.ready[:len(a.ready)-1]
		}
		resp.Result = append(resp.Result, &spb.AFTResult{Id: e.id, Status: e.st})
		a.allSent[e.id] = append(a.allSent[e.id], e.st)
		if terminal(a.fib, e.st) {
			a.termSent[e.id] = true
			if a.termStatus == nil {
				a.termStatus = map[uint64]spb.AFTResult_Status{}
			}
			a.termStatus[e.id] = e.st
		}
	}
	inject := a.r.Intn(6) == 0
	if a.finalOnly {
		inject = allIn && len(a.ready) == 0 && len(resp.Result) > 0
	}
	if a.violate != "" && !a.violated.Load() && inject {
		inBatch := map[uint64]bool{}
		for _, x := range resp.Result {
			if terminal(a.fib, x.Status) {
				inBatch[x.Id] = true
			}
		}
		// In FIB-ack mode the client deliberately tolerates a RIB ack for an id it no longer
		// tracks (a RIB ack arriving after the FIB ack), so RIB_PROGRAMMED is a violation in
		// RIB-ack mode only - where it is the terminal result.
		sts := []spb.AFTResult_Status{spb.AFTResult_FAILED, spb.AFTResult_FIB_PROGRAMMED, spb.AFTResult_FIB_FAILED}
		if !a.fib {
			sts = []spb.AFTResult_Status{spb.AFTResult_FAILED, spb.AFTResult_RIB_PROGRAMMED, spb.AFTResult_FIB_PROGRAMMED}
		}
		did := false
		switch a.violate {
		case "unknown-id":
			resp.Result = append(resp.Result, &spb.AFTResult{Id: 1 << 50, Status: sts[a.r.Intn(len(sts))]})
			did = true
		case "duplicate-terminal":
			for id, tst := range a.termStatus {
				st := tst // the same verdict twice ...
				if a.r.Intn(3) == 0 {
					st = sts[a.r.Intn(len(sts))] // ... or a contradicting one
				}
				resp.Result = append(resp.Result, &spb.AFTResult{Id: id, Status: st})
				did = true
				break
			}
		}
		if did {
			a.violBatch = inBatch
			a.violated.Store(true)
		}
	}
	a.mu.Unlock()
	a.st.Push(resp)
	return true
}

func (a *advServer) idle() bool {
	a.mu.Lock()
	defer a.mu.Unlock()
	return len(a.ready) == 0 && len(a.sessQ) == 0
}

type sink interface {
	Violation(caseID, sig, text string, detail any)
	Inconclusive(text string)
	Fatal(text string)
	Count(k string, n int64)
	Seen(set, member string)
	Sample(v any)
	Eval(n int)
	Distinct(s string)
}

const nChildren = 16

func nCases(run *ev.Run) int { return run.Pick(10000, 200000) }

func TestCheck(t *testing.T) {
	if _, ok := child.IsChild(); ok {
		t.Skip("child process")
	}
	run := ev.Start(t, "C13", "exploration")
	ev.Parallel(nChildren, ev.Workers(), func(b int) {
		if run.OnlyCase != "" {
			var k int
			fmt.Sscanf(run.OnlyCase, "case-%d", &k)
			if k%nChildren != b {
				return
			}
		}
		o := child.Run(child.Spec{Prop: "C13", Tier: run.Tier, Seed: run.Seed, Case: run.OnlyCase, Arg: fmt.Sprint(b)}, 60*time.Minute)
		child.Fold(run, fmt.Sprintf("child-%d", b), o, false)
	})
	run.Assume("the scripted server respects per-id RIB-before-FIB order; terminal = FAILED, RIB_PROGRAMMED in RIB-ack mode, FIB_PROGRAMMED/FIB_FAILED in FIB-ack mode")
	run.Finish("the real client library over a stub stream behind which a scripted adversarial server answers every operation per a random plan (FAILED / RIB / RIB+FIB / RIB+FIB_FAILED) with arbitrary delay, cross-id reordering, 1-50 results per response and interleaved session-parameter and election responses, while the application queues bursts (incl. election updates), a sampler checks conservation (every id whose Q returned is pending or resulted) and a waiter loops on AwaitConverged (success only if every id queued before the call already has its terminal result on the stream); 2 in 7 cases the server violates the protocol (unknown id, duplicate terminal result), which must surface as the recorded receive error. Distinct = by case", 50, false)
}

func TestChild(t *testing.T) {
	sp, ok := child.IsChild()
	if !ok {
		t.Skip("not a child")
	}
	wr, err := child.NewWriter()
	if err != nil {
		t.Fatal(err)
	}
	defer wr.Close()
	client.BusyLoopDelay = 200 * time.Microsecond
	// logging is a point at which the real library can be held up (format, global mutex,
	// write to stderr and files): give that timing back
	glog.SetStall(func() { time.Sleep(30 * time.Microsecond) })
	col := child.NewCollector(wr)
	prun := &ev.Run{Prop: "C13", Tier: sp.Tier, Seed: sp.Seed}
	var b int
	fmt.Sscanf(sp.Arg, "%d", &b)
	n := nCases(prun)
	for i := b; i < n; i += nChildren {
		caseID := fmt.Sprintf("case-%d", i)
		if sp.Case != "" && sp.Case != caseID {
			continue
		}
		wr.InFlight(caseID)
		done := make(chan struct{})
		go func() {
			defer close(done)
			runCase(col, prun, i, caseID)
		}()
		select {
		case <-done:
		case <-time.After(40 * time.Second):
			// the case is stuck: is the client library permanently blocked?
			if ok, desc := mon.ProvenBlockIgnoringPollers("gribigo/client.(*Client).", time.Second, "github.com/openconfig/gribigo/client."); ok {
				col.Violation(caseID, "client-deadlock:"+blockSig(desc), "the client library is permanently blocked (no stream fault was injected): "+desc, nil)
			} else {
				col.Inconclusive(caseID + ": watchdog fired without a proven block: " + desc)
			}
			col.Flush()
			return // the stuck goroutines would disturb later cases: this child stops here
		}
		if i%200 < nChildren {
			col.Flush()
		}
		if col.Problems() >= 8 {
			break // enough witnesses from this child
		}
	}
	col.Flush()
}

// blockSig names the client functions in which goroutines are blocked.
func blockSig(desc string) string {
	set := map[string]bool{}
	for _, p := range strings.Split(desc, "; ") {
		if i := strings.Index(p, "] "); i >= 0 {
			set[p[i+2:]] = true
		}
	}
	var out []string
	for k := range set {
		out = append(out, k)
	}
	sort.Strings(out)
	return strings.Join(out, ",")
}

func runCase(run sink, prun *ev.Run, i int, caseID string) {
	r := prun.Rand(caseID)
	fib := i%2 == 0
	violate := ""
	finalOnly := false
	switch i % 7 {
	case 4:
		// the violation rides on the response that completes the last outstanding operation,
		// while several waiters poll AwaitConverged as fast as they can
		violate = []string{"unknown-id", "duplicate-terminal"}[(i/7)%2]
		finalOnly = true
		old := client.BusyLoopDelay
		client.BusyLoopDelay = 2 * time.Microsecond
		defer func() { client.BusyLoopDelay = old }()
	case 5:
		violate = "unknown-id"
	case 6:
		violate = "duplicate-terminal"
	}
	// an application error instead of a server error: one request of the last burst carries
	// two operations with the same id. Only one of them can be tracked, so the client must
	// record the error (a send error) and AwaitConverged must return it.
	appDup := violate == "" && i%11 == 3
	var trace []string
	var tmu sync.Mutex
	logf := func(f string, a ...any) {
		tmu.Lock()
		if len(trace) < 300 {
			trace = append(trace, fmt.Sprintf(f, a...))
		}
		tmu.Unlock()
	}
	problem := func(sig, txt string) {
		tmu.Lock()
		tr := append([]string{}, trace...)
		tmu.Unlock()
		run.Violation(caseID, sig, txt, map[string]any{"fib_ack": fib, "server_violation": violate, "trace": tr})
	}
	opts := []client.Opt{client.ElectedPrimaryClient(&spb.Uint128{Low: 1}), client.PersistEntries()}
	if fib {
		opts = append(opts, client.FIBACK())
	}
	c, err := client.New(opts...)
	if err != nil {
		run.Fatal(err.Error())
		return
	}
	fake := &drv.FakeGRIBI{}
	srv := &advServer{fib: fib, r: rand.New(rand.NewSource(r.Int63())), termSent: map[uint64]bool{}, allSent: map[uint64][]spb.AFTResult_Status{}, stop: make(chan struct{}), violate: violate, finalOnly: finalOnly}
	fake.NewStream = func(s *drv.FakeStream) { srv.st = s; s.OnSend = srv.onSend }
	c.UseStub(fake)
	ctx, cancel := context.WithCancel(context.Background())
	defer cancel()
	if err := c.Connect(ctx); err != nil {
		run.Fatal(err.Error())
		return
	}
	c.StartSending()

	// the server goroutine
	var swg sync.WaitGroup
	swg.Add(1)
	go func() {
		defer swg.Done()
		sr := rand.New(rand.NewSource(r.Int63()))
		for {
			select {
			case <-srv.stop:
				return
			default:
			}
			if !srv.step() {
				time.Sleep(20 * time.Microsecond)
				continue
			}
			if sr.Intn(4) == 0 {
				time.Sleep(time.Duration(sr.Intn(300)) * time.Microsecond)
			}
		}
	}()

	// the application: queue bursts
	infos := map[uint64]opInfo{}
	var imu sync.Mutex
	var queuedSeq atomic.Uint64 // ids <= this value have had their Q call return
	total := 0
	nBursts := 2 + r.Intn(6)
	var sampWG sync.WaitGroup
	stopSamp := make(chan struct{})
	var samples atomic.Int64
	// In every other case the sampler is also the (only) consumer of results: it acknowledges
	// terminal results it has seen with AckResult - while the receiver keeps appending - and
	// keeps them; an acknowledged result counts as represented, and nothing else may vanish.
	acker := i%2 == 0
	acked := map[uint64]bool{}
	var ackedRes []*client.OpResult
	ar := rand.New(rand.NewSource(r.Int63()))
	// sampler: every id whose Q returned is pending or resulted
	sampWG.Add(1)
	go func() {
		defer sampWG.Done()
		for {
			select {
			case <-stopSamp:
				return
			default:
			}
			upTo := queuedSeq.Load()
			var pend []client.PendingRequest
			var res []*client.OpResult
			if samples.Load()%2 == 1 {
				// the combined snapshot must be as good as the two separate calls: an operation
				// moves from pending to results, it is never in neither
				st, err := c.Status()
				if err != nil {
					problem("status-error", err.Error())
					return
				}
				pend, res = st.PendingTransactions, st.Results
			} else {
				var err1, err2 error
				pend, err1 = c.Pending()
				res, err2 = c.Results()
				if err1 != nil || err2 != nil {
					problem("status-error", fmt.Sprintf("%v %v", err1, err2))
					return
				}
			}
			seen := map[uint64]bool{}
			for _, p := range pend {
				if po, ok := p.(*client.PendingOp); ok {
					seen[po.Op.GetId()] = true
				}
			}
			for _, rr := range res {
				if rr != nil {
					seen[rr.OperationID] = true
				}
			}
			for id := range acked {
				seen[id] = true
			}
			for id := uint64(1); id <= upTo; id++ {
				if !seen[id] {
					problem("operation-lost", fmt.Sprintf("operation %d was queued (Q returned) but is neither pending, nor represented by a result, nor acknowledged by the application (%d acknowledged so far)", id, len(acked)))
					return
				}
			}
			if acker && ar.Intn(2) == 0 {
				var batch []*client.OpResult
				inBatch := map[uint64]bool{}
				for _, rr := range res {
					if rr != nil && rr.OperationID != 0 && !acked[rr.OperationID] && !inBatch[rr.OperationID] && terminal(fib, rr.ProgrammingResult) && ar.Intn(3) > 0 {
						batch = append(batch, rr)
						inBatch[rr.OperationID] = true
					}
				}
				if len(batch) > 0 {
					if err := c.AckResult(batch...); err != nil {
						problem("ack-of-present-result-failed", fmt.Sprintf("AckResult of %d results just returned by Results(): %v", len(batch), err))
						return
					}
					for _, rr := range res {
						// everything recorded under the acknowledged ids goes with them (in FIB mode the RIB acknowledgement too)
						if rr != nil && inBatch[rr.OperationID] {
							ackedRes = append(ackedRes, rr)
						}
					}
					for id := range inBatch {
						acked[id] = true
					}
				}
			}
			samples.Add(1)
			time.Sleep(50 * time.Microsecond)
		}
	}()
	// waiter: AwaitConverged may only succeed when everything queued before the call was answered terminally
	var waitWG sync.WaitGroup
	stopWait := make(chan struct{})
	var convergedOK atomic.Int64
	nWaiters := 1
	if finalOnly {
		nWaiters = 6
	}
	for wk := 0; wk < nWaiters; wk++ {
		waitWG.Add(1)
		go func() {
			defer waitWG.Done()
			for {
				select {
				case <-stopWait:
					return
				default:
				}
				before := queuedSeq.Load()
				wctx, wcancel := context.WithTimeout(ctx, 20*time.Millisecond)
				err := c.AwaitConverged(wctx)
				wcancel()
				if err == nil {
					srv.mu.Lock()
					var missing []uint64
					for id := uint64(1); id <= before; id++ {
						if !srv.termSent[id] {
							missing = append(missing, id)
						}
					}
					srv.mu.Unlock()
					if len(missing) > 0 {
						sig := "converged-with-unanswered-operations"
						if fib {
							srv.mu.Lock()
							onlyRIB := len(srv.allSent[missing[0]]) > 0
							srv.mu.Unlock()
							if onlyRIB {
								sig = "converged-on-rib-ack-in-fib-mode"
							}
						}
						problem(sig, fmt.Sprintf("AwaitConverged returned nil although operations %v (queued before the call) have no terminal result yet", missing))
						return
					}
					// Processing a response and recording the error it causes is one step as far as
					// AwaitConverged is concerned: success is impossible once any part of the violating
					// response has been taken into account.
					if srv.violated.Load() {
						srv.mu.Lock()
						var fromViol []uint64
						for id := range srv.violBatch {
							if id <= before {
								fromViol = append(fromViol, id)
							}
						}
						srv.mu.Unlock()
						if len(fromViol) > 0 {
							sort.Slice(fromViol, func(i, j int) bool { return fromViol[i] < fromViol[j] })
							problem("converged-on-a-violating-response:"+violate, fmt.Sprintf("AwaitConverged returned nil although the terminal results of operations %v arrived in the response that also carries the protocol violation (%s)", fromViol, violate))
							return
						}
					}
					convergedOK.Add(1)
				} else if _, isCE := err.(*client.ClientErr); isCE {
					return
				}
			}
		}()
	}
	pauseResume := violate == "" && i%5 == 2
	for b := 0; b < nBursts; b++ {
		if pauseResume && b == 1 {
			// the application pauses sending, queues a dozen requests, resumes - and while the
			// held requests are still being handed to the (slow) stream it pauses again, queues
			// more and resumes again, from another goroutine. Every operation is still sent once.
			c.StopSending()
			queueOne := func() {
				req := &spb.ModifyRequest{}
				total++
				op, info := mkOp(r, uint64(total))
				imu.Lock()
				infos[op.Id] = info
				imu.Unlock()
				req.Operation = append(req.Operation, op)
				c.Q(req)
				queuedSeq.Store(uint64(total))
			}
			srv.slowSend.Store(true)
			for k := 0; k < 12; k++ {
				queueOne()
			}
			resumed := make(chan struct{})
			go func() { c.StartSending(); close(resumed) }()
			time.Sleep(time.Duration(r.Intn(300)) * time.Microsecond)
			c.StopSending()
			for k := 0; k < 5; k++ {
				queueOne()
			}
			c.StartSending()
			<-resumed
			srv.slowSend.Store(false)
			logf("paused, queued 12, resumed; paused again meanwhile, queued 5, resumed")
		}
		nReq := 1 + r.Intn(6)
		for q := 0; q < nReq; q++ {
			req := &spb.ModifyRequest{}
			nOps := 1 + r.Intn(10)
			for k := 0; k < nOps; k++ {
				total++
				op, info := mkOp(r, uint64(total))
				imu.Lock()
				infos[op.Id] = info
				imu.Unlock()
				req.Operation = append(req.Operation, op)
			}
			if appDup && b == nBursts-1 && q == nReq-1 {
				dup := proto.Clone(req.Operation[0]).(*spb.AFTOperation)
				req.Operation = append(req.Operation, dup)
				logf("the last request carries operation id %d twice", dup.Id)
			}
			c.Q(req) // a Q that never returns is caught by the child's case watchdog
			if appDup && b == nBursts-1 && q == nReq-1 {
				// decided when Q returns, before the server has said anything: of the two operations
				// with one id only one is in the pending queue, so the other must be accounted for
				// by a recorded error - otherwise it is lost
				if st, err := c.Status(); err == nil && len(st.SendErrs) == 0 {
					problem("duplicate-id-in-request-not-surfaced", fmt.Sprintf("Q accepted a request carrying operation id %d twice without recording an error: one of the two operations is neither pending nor reported", req.Operation[0].Id))
				}
			}
			queuedSeq.Store(uint64(total))
			if b == nBursts-1 && q == nReq-1 {
				srv.expectTotal.Store(int64(total))
			}
			logf("queued request with ops %d..%d", total-nOps+1, total)
		}
		if r.Intn(3) == 0 {
			c.Q(&spb.ModifyRequest{ElectionId: &spb.Uint128{Low: uint64(2 + b)}})
			logf("queued election update")
		}
		time.Sleep(time.Duration(r.Intn(2000)) * time.Microsecond)
	}
	// quiescence: server has answered everything and the client has read it
	deadline := time.Now().Add(30 * time.Second)
	for nPoll := 0; !(srv.idle() && srv.st.Drained()) && !srv.violated.Load(); nPoll++ {
		if nPoll%20 == 19 {
			// a client that recorded an error has stopped reading: the script will never drain,
			// and the verdicts below (errors on a conformant server) say so
			if st, err := c.Status(); err == nil && len(st.ReadErrs)+len(st.SendErrs) > 0 {
				break
			}
		}
		if time.Now().After(deadline) {
			run.Inconclusive(caseID + ": server script did not drain")
			break
		}
		time.Sleep(100 * time.Microsecond)
	}
	if srv.violated.Load() {
		// the client stops receiving when it meets the violating message: Done is signalled then
		select {
		case <-c.Done():
		case <-time.After(30 * time.Second):
			run.Inconclusive(caseID + ": Done not signalled after the protocol violation")
		}
	}
	var finalErr error
	{
		wctx, wcancel := context.WithTimeout(ctx, 20*time.Second)
		finalErr = c.AwaitConverged(wctx)
		wcancel()
	}
	close(stopWait)
	waitWG.Wait()
	close(stopSamp)
	sampWG.Wait()
	st, _ := c.Status()
	logf("final: AwaitConverged=%v pending=%d results=%d sendErrs=%d readErrs=%d", finalErr, len(st.PendingTransactions), len(st.Results), len(st.SendErrs), len(st.ReadErrs))
	if appDup {
		if ce, ok := finalErr.(*client.ClientErr); finalErr == nil || !ok || len(ce.Send)+len(ce.Recv) == 0 {
			problem("duplicate-id-in-request-not-surfaced", fmt.Sprintf("a request carried one operation id twice (only one of the two operations can be tracked), but AwaitConverged returned %v", finalErr))
		}
		run.Count("requests_with_a_duplicate_operation_id", 1)
	} else if violate != "" {
		if srv.violated.Load() {
			if finalErr == nil {
				problem("protocol-violation-not-surfaced:"+violate, "the server sent a result for "+violate+" but AwaitConverged returned nil")
			} else if _, ok := finalErr.(*client.ClientErr); !ok {
				problem("protocol-violation-not-surfaced:"+violate, fmt.Sprintf("AwaitConverged returned %v, not the recorded receive error", finalErr))
			} else if len(st.ReadErrs) == 0 {
				problem("protocol-violation-not-recorded:"+violate, "no receive error recorded")
			}
			run.Count("protocol_violations_surfaced", 1)
		}
	} else {
		if finalErr != nil {
			problem("converge-error-on-conformant-server", fmt.Sprintf("AwaitConverged returned %v", finalErr))
		}
		if len(st.PendingTransactions) != 0 {
			problem("pending-after-convergence", fmt.Sprintf("%d pending transactions after AwaitConverged returned nil", len(st.PendingTransactions)))
		}
		if len(st.SendErrs)+len(st.ReadErrs) != 0 {
			problem("errors-on-conformant-server", fmt.Sprintf("send %v recv %v", st.SendErrs, st.ReadErrs))
		}
		// exactly one terminal result per id; details match the queued operation
		terms := map[uint64]int{}
		for _, rr := range st.Results {
			if rr != nil && acked[rr.OperationID] && terminal(fib, rr.ProgrammingResult) {
				problem("acknowledged-result-still-queued", fmt.Sprintf("the terminal result of operation %d was acknowledged with AckResult and is still (or again) in Results()", rr.OperationID))
			}
		}
		for _, rr := range append(append([]*client.OpResult{}, st.Results...), ackedRes...) {
			if rr == nil || rr.OperationID == 0 {
				continue
			}
			if rr.ClientError != "" {
				problem("client-error-result", rr.ClientError)
			}
			if terminal(fib, rr.ProgrammingResult) {
				terms[rr.OperationID]++
			}
			imu.Lock()
			info, known := infos[rr.OperationID]
			imu.Unlock()
			if !known {
				problem("result-for-unknown-operation", fmt.Sprintf("result for id %d which was never queued", rr.OperationID))
				continue
			}
			tbl, key := detailKey(rr.Details)
			if rr.Details == nil || rr.Details.Type != info.kind || tbl != info.tbl || key != info.key {
				problem("result-details-mismatch", fmt.Sprintf("operation %d was %v %s %s, its result says %v", rr.OperationID, info.kind, info.tbl, info.key, rr.Details))
			}
		}
		var bad []string
		for id := uint64(1); id <= uint64(total); id++ {
			if terms[id] != 1 {
				bad = append(bad, fmt.Sprintf("%d:%d", id, terms[id]))
			}
		}
		if len(bad) > 0 {
			sort.Strings(bad)
			problem("terminal-results-not-exactly-one", "id:count "+strings.Join(bad[:min(len(bad), 10)], " "))
		}
	}
	close(srv.stop)
	swg.Wait()
	cdone := make(chan struct{})
	go func() { c.Close(); close(cdone) }()
	select {
	case <-cdone:
	case <-time.After(20 * time.Second):
		run.Inconclusive(caseID + ": Close did not return within the watchdog")
	}
	run.Eval(1)
	run.Count("operations_queued", int64(total))
	run.Count("conservation_samples", samples.Load())
	run.Count("results_acknowledged_while_receiving", int64(len(acked)))
	run.Count("await_converged_successes_checked", convergedOK.Load())
	run.Seen("modes", fmt.Sprintf("fib=%v/violate=%s/final-response-only=%v", fib, violate, finalOnly))
	if finalOnly && srv.violated.Load() {
		run.Count("violations_riding_on_the_converging_response", 1)
	}
	run.Distinct(caseID + fmt.Sprint(total))
	if i < 2 {
		run.Sample(map[string]any{"case": caseID, "fib_ack": fib, "trace": trace})
	}
}
