// C06: every operation answered exactly once, to its sender only, RIB before FIB.
package c06

import (
	"fmt"
	"strings"
	"testing"

	"github.com/openconfig/gribigo/server"

	aftpb "github.com/openconfig/gribi/v1/proto/gribi_aft"
	spb "github.com/openconfig/gribi/v1/proto/service"

	"verifharness/canon"
	"verifharness/drv"
	"verifharness/ev"
	"verifharness/gen"
	"verifharness/mon"
)

func split(run *ev.Run, caseID string, w *mon.SessWorld, probs []string) {
	probs = mon.Quarantine(probs)
	var real []string
	for _, p := range probs {
		switch {
		case strings.HasPrefix(p, "INCONCLUSIVE|"):
			run.Inconclusive(caseID + ": " + p[13:])
		case strings.HasPrefix(p, "HARNESS|"):
			run.Fatal(caseID + ": " + p[8:])
		default:
			real = append(real, p)
		}
	}
	mon.Report(run, caseID, w.Trace, real)
}

// finalAccount checks, per stream, the multiset of results received over the whole history.
func finalAccount(run *ev.Run, w *mon.SessWorld, sentTimes ...map[uint64]int) []string {
	var probs []string
	times := map[uint64]int{}
	if len(sentTimes) > 0 {
		times = sentTimes[0]
	}
	// the Get RPC must report exactly the fold of what was acknowledged (C01 at the server level)
	if resps, err, wd := drv.Get(w.Srv, &spb.GetRequest{NetworkInstance: &spb.GetRequest_All{All: &spb.Empty{}}, Aft: spb.AFTType_ALL}, 0); wd == nil {
		if err != nil {
			probs = append(probs, fmt.Sprintf("get-error-at-quiescence|%v", err))
		} else {
			got, dups := canon.FromGet(resps)
			for _, d := range dups {
				probs = append(probs, "get-duplicate-entry|"+d)
			}
			for _, d := range canon.Diff(w.Contents(), got) {
				probs = append(probs, fmt.Sprintf("get-vs-acknowledged:%s|Get after the history: %s", strings.Fields(d)[0], d))
			}
			run.Count("get_rpc_comparisons_at_quiescence", 1)
		}
	}
	for _, s := range w.Sess {
		for id := range s.Sent {
			sts := s.Terminal[id]
			n := map[spb.AFTResult_Status]int{}
			for _, st := range sts {
				n[st]++
			}
			run.Count("operation_ids_accounted", 1)
			if k := times[id]; k > 1 {
				// an id the session used k times (re-used after its operation had been answered):
				// one verdict per use, at most
				if n[spb.AFTResult_FAILED]+n[spb.AFTResult_RIB_PROGRAMMED] > k || n[spb.AFTResult_FIB_PROGRAMMED] > k {
					probs = append(probs, fmt.Sprintf("more-verdicts-than-operations|%s: id %d was used for %d operations and received %v", s.Name, id, k, sts))
				}
				continue
			}
			switch {
			case n[spb.AFTResult_FAILED] > 1:
				probs = append(probs, fmt.Sprintf("failed-more-than-once|%s: operation %d received %v over the history", s.Name, id, sts))
			case n[spb.AFTResult_FAILED] > 0 && len(sts) > n[spb.AFTResult_FAILED]:
				probs = append(probs, fmt.Sprintf("failed-and-programmed|%s: operation %d received %v over the history", s.Name, id, sts))
			case n[spb.AFTResult_RIB_PROGRAMMED] > 1 || n[spb.AFTResult_FIB_PROGRAMMED] > 1:
				probs = append(probs, fmt.Sprintf("programmed-more-than-once|%s: operation %d received %v over the history", s.Name, id, sts))
			case s.FIB && n[spb.AFTResult_RIB_PROGRAMMED] == 1 && n[spb.AFTResult_FIB_PROGRAMMED] != 1:
				probs = append(probs, fmt.Sprintf("fib-ack-missing|%s: operation %d received %v", s.Name, id, sts))
			}
			if len(sts) == 0 {
				run.Count("operation_ids_unanswered_legitimately", 1)
			}
		}
		for id := range s.Terminal {
			if !s.Sent[id] {
				probs = append(probs, fmt.Sprintf("result-for-operation-not-sent-on-this-stream|%s received results for %d", s.Name, id))
			}
		}
	}
	return probs
}

func TestCheck(t *testing.T) {
	run := ev.Start(t, "C06", "exploration")

	// (a) single-session histories
	nA := run.Pick(500, 20000)
	ev.Parallel(nA, ev.Workers(), func(i int) {
		caseID := fmt.Sprintf("single-%d", i)
		if !run.Want(caseID) {
			return
		}
		r := run.Rand(caseID)
		g := gen.New(r)
		g.S.Default = server.DefaultNetworkInstanceName
		g.Rich = false
		fib := i%2 == 0
		grpc := i%20 == 0
		w, err := mon.NewSessWorld(g.S, i%6 == 5, grpc)
		if err != nil {
			run.Fatal(err.Error())
			return
		}
		defer w.Close()
		s, probs := w.Connect()
		probs = append(probs, w.SendParams(s, drv.SinglePrimary(fib))...)
		elec := &spb.Uint128{High: uint64(r.Intn(2)), Low: 2 + uint64(r.Intn(100))}
		probs = append(probs, w.SendElection(s, elec)...)
		total := 30 + r.Intn(200)
		if i%250 == 7 {
			// scale: one operation releases many hundreds of held operations - every one of them
			// is answered (the response that carries them may be as large as it takes)
			n := 600 + r.Intn(500)
			var held []gen.OpSpec
			for k := 0; k < n; k++ {
				sp := g.MkOp(spb.AFTOperation_ADD, canon.V4, g.S.Default, 0, false)
				sp.Op.GetIpv4().Prefix = fmt.Sprintf("10.%d.%d.0/24", 100+k/250, k%250)
				sp.Op.GetIpv4().Ipv4Entry = &aftpb.Afts_Ipv4Entry{NextHopGroup: gen.U(77)}
				held = append(held, sp)
			}
			probs = append(probs, w.SendOps(s, held, elec)...)
			nh := g.MkOp(spb.AFTOperation_ADD, canon.NH, g.S.Default, 0, false)
			nhg := g.MkOp(spb.AFTOperation_ADD, canon.NHG, g.S.Default, 0, false)
			nhg.Op.GetNextHopGroup().Id = 77
			nhg.Op.GetNextHopGroup().NextHopGroup = &aftpb.Afts_NextHopGroup{NextHop: []*aftpb.Afts_NextHopGroup_NextHopKey{{Index: nh.Op.GetNextHop().GetIndex(), NextHop: &aftpb.Afts_NextHopGroup_NextHop{Weight: gen.U(1)}}}}
			if len(probs) == 0 {
				probs = append(probs, w.SendOps(s, []gen.OpSpec{nhg}, elec)...)
			}
			if len(probs) == 0 {
				probs = append(probs, w.SendOps(s, []gen.OpSpec{nh}, elec)...)
				probs = append(probs, w.CompareState()...)
			}
			run.Count("operations", int64(n+2))
			run.Count("cases_releasing_hundreds_of_held_operations_at_once", 1)
		}
		var doneIDs []uint64
		sentTimes := map[uint64]int{}
		for sent := 0; sent < total && len(probs) == 0 && s.Open; {
			switch r.Intn(12) {
			case 0:
				// a Flush RPC between batches: it removes entries, it answers nothing on the
				// stream, and operations that are held stay held (they are acknowledged when
				// their reference arrives, or the session would wait for ever)
				nis := g.S.NIs
				req := &spb.FlushRequest{NetworkInstance: &spb.FlushRequest_All{All: &spb.Empty{}}, Election: &spb.FlushRequest_Override{Override: &spb.Empty{}}}
				if r.Intn(2) == 0 {
					nis = []string{g.S.NIs[r.Intn(len(g.S.NIs))]}
					req.NetworkInstance = &spb.FlushRequest_Name{Name: nis[0]}
				}
				if r.Intn(2) == 0 {
					req.Election = &spb.FlushRequest_Id{Id: elec}
				}
				if _, err, wd := drv.Flush(w.Srv, req); wd != nil {
					probs = append(probs, "INCONCLUSIVE|Flush did not return within the watchdog")
				} else if err != nil {
					probs = append(probs, fmt.Sprintf("flush-error|authorised Flush of %v: %v", nis, err))
				}
				w.X.M.Flush(nis)
				w.Trace = append(w.Trace, fmt.Sprintf("Flush RPC %v (held: %v)", nis, w.X.M.HeldIDs()))
				probs = append(probs, w.CompareState()...)
				probs = append(probs, w.QuietOthers(nil)...)
				run.Count("flush_rpcs_between_batches", 1)
				if len(w.X.M.Held) > 0 {
					run.Count("flush_rpcs_while_operations_are_held", 1)
				}
				continue
			case 1:
				// a standby comes and goes (negotiates, perhaps announces a lower id, leaves in
				// one of three ways): nothing of the primary's may be touched by that
				st, p := w.Connect()
				probs = append(probs, p...)
				if st != nil && len(p) == 0 {
					probs = append(probs, w.SendParams(st, drv.SinglePrimary(fib))...)
					if r.Intn(2) == 0 && len(probs) == 0 {
						probs = append(probs, w.SendElection(st, &spb.Uint128{High: elec.High, Low: elec.Low - 1})...)
						if elec.Low > 2 && r.Intn(2) == 0 && len(probs) == 0 {
							// ... and moves to another id that is lower still
							probs = append(probs, w.SendElection(st, &spb.Uint128{High: elec.High, Low: elec.Low - 2})...)
							run.Count("standby_moved_between_two_lower_ids", 1)
						}
					}
					if len(probs) == 0 && st.Open {
						probs = append(probs, w.Disconnect(st, []string{"close", "cancel", "abort"}[r.Intn(3)])...)
					}
					probs = append(probs, w.CompareState()...)
					run.Count("standby_sessions_that_came_and_went", 1)
					if len(w.X.M.Held) > 0 {
						run.Count("standby_left_while_operations_are_held", 1)
					}
				}
				continue
			}
			n := 1 + r.Intn(8)
			if r.Intn(12) == 0 {
				n = 50 + r.Intn(150)
			}
			specs := g.History(n)
			// operation ids are the client's to choose: an id whose operation has been answered
			// (FAILED or programmed) may be used again, e.g. for the corrected retry - the new
			// operation is a new operation and is answered like any other
			inBatch := map[uint64]bool{}
			for k := range specs {
				inBatch[specs[k].Op.GetId()] = true
			}
			for k := range specs {
				if len(doneIDs) > 0 && r.Intn(8) == 0 {
					j := r.Intn(len(doneIDs))
					id := doneIDs[j]
					doneIDs = append(doneIDs[:j], doneIDs[j+1:]...)
					if _, held := w.X.M.Held[id]; held || inBatch[id] {
						continue
					}
					delete(inBatch, specs[k].Op.GetId())
					specs[k].Op.Id = id
					inBatch[id] = true
					run.Count("operation_ids_reused_after_their_operation_was_answered", 1)
				}
			}
			for k := range specs {
				sentTimes[specs[k].Op.GetId()]++
			}
			for k := range specs {
				switch r.Intn(40) {
				case 0:
					specs[k].NI, specs[k].Op.NetworkInstance = "", ""
				case 1:
					specs[k].NI, specs[k].Op.NetworkInstance = "NOSUCH", "NOSUCH"
				}
			}
			probs = append(probs, w.SendOps(s, specs, elec)...)
			probs = append(probs, w.CompareState()...)
			for k := range specs {
				id := specs[k].Op.GetId()
				if _, held := w.X.M.Held[id]; !held && len(s.Terminal[id]) > 0 {
					doneIDs = append(doneIDs, id)
				}
			}
			sent += n
			run.Count("operations", int64(n))
			run.Seen("batch_sizes", fmt.Sprint((n+9)/10*10))
		}
		run.Count("held_ops_released", int64(w.LastCascade))
		if len(probs) == 0 {
			probs = finalAccount(run, w, sentTimes)
		}
		split(run, caseID, w, probs)
		run.Eval(1)
		run.Distinct(strings.Join(w.Trace, "\n"))
		if i < 1 {
			tr := w.Trace
			if len(tr) > 12 {
				tr = tr[:12]
			}
			run.Sample(map[string]any{"case": caseID, "fib_ack": fib, "first_messages": tr})
		}
	})

	// (b) hand-over of the primary role while operations are held
	nB := run.Pick(1500, 60000)
	ev.Parallel(nB, ev.Workers(), func(i int) {
		caseID := fmt.Sprintf("handover-%d", i)
		if !run.Want(caseID) {
			return
		}
		r := run.Rand(caseID)
		g := gen.New(r)
		g.S.Default = server.DefaultNetworkInstanceName
		fib := r.Intn(2) == 0
		w, err := mon.NewSessWorld(g.S, false, i%30 == 0)
		if err != nil {
			run.Fatal(err.Error())
			return
		}
		defer w.Close()
		a, probs := w.Connect()
		probs = append(probs, w.SendParams(a, drv.SinglePrimary(fib))...)
		ea := &spb.Uint128{High: 1, Low: 5}
		probs = append(probs, w.SendElection(a, ea)...)
		// A programs some things and leaves operations held: a group waiting for a next-hop,
		// entries waiting for the group, a REPLACE behind a missing group.
		ni := g.S.NIs[r.Intn(len(g.S.NIs))]
		missingNH := uint64(1 + r.Intn(3))
		mk := func(id uint64, ni string, e *spb.AFTOperation) gen.OpSpec {
			e.Id = id
			e.NetworkInstance = ni
			return gen.OpSpec{NI: ni, Op: e}
		}
		nhg := &spb.AFTOperation{Op: spb.AFTOperation_ADD, Entry: &spb.AFTOperation_NextHopGroup{NextHopGroup: &aftpb.Afts_NextHopGroupKey{Id: 1, NextHopGroup: &aftpb.Afts_NextHopGroup{NextHop: []*aftpb.Afts_NextHopGroup_NextHopKey{{Index: missingNH, NextHop: &aftpb.Afts_NextHopGroup_NextHop{Weight: gen.U(1)}}}}}}}
		v4 := &spb.AFTOperation{Op: spb.AFTOperation_ADD, Entry: &spb.AFTOperation_Ipv4{Ipv4: &aftpb.Afts_Ipv4EntryKey{Prefix: "10.0.0.0/8", Ipv4Entry: &aftpb.Afts_Ipv4Entry{NextHopGroup: gen.U(1)}}}}
		// op ids deliberately small: the new primary will reuse the same numbers
		held := []gen.OpSpec{mk(7, ni, nhg), mk(8, ni, v4)}
		if r.Intn(2) == 0 {
			held = append(held, mk(9, ni, &spb.AFTOperation{Op: spb.AFTOperation_ADD, Entry: &spb.AFTOperation_Mpls{Mpls: &aftpb.Afts_LabelEntryKey{Label: &aftpb.Afts_LabelEntryKey_LabelUint64{LabelUint64: 100}, LabelEntry: &aftpb.Afts_LabelEntry{NextHopGroup: gen.U(1)}}}}))
		}
		if len(probs) == 0 {
			probs = append(probs, w.SendOps(a, held, ea)...)
			probs = append(probs, w.CompareState()...)
		}
		// B takes over with an equal or higher id
		b, p := w.Connect()
		probs = append(probs, p...)
		probs = append(probs, w.SendParams(b, drv.SinglePrimary(fib))...)
		eb := &spb.Uint128{High: 1, Low: 5}
		how := "equal"
		if r.Intn(2) == 0 {
			eb = &spb.Uint128{High: 1 + uint64(r.Intn(2)), Low: 6}
			how = "higher"
		}
		aState := []string{"connected", "gone-before", "gone-after", "re-announces"}[r.Intn(4)]
		run.Seen("handover_variants", how+"/"+aState)
		if aState == "gone-before" && len(probs) == 0 {
			probs = append(probs, w.Disconnect(a, []string{"close", "cancel"}[r.Intn(2)])...)
		}
		if len(probs) == 0 {
			probs = append(probs, w.SendElection(b, eb)...)
			probs = append(probs, w.CompareState()...)
		}
		if aState == "gone-after" && len(probs) == 0 {
			probs = append(probs, w.Disconnect(a, "close")...)
		}
		// In half of the scripts B first sends forward references of its own - with the very
		// ids of the operations A left held - and only then (perhaps) does the superseded A
		// leave: what B has held must survive both and be answered when the next-hop arrives.
		nhID := uint64(7)
		if r.Intn(2) == 0 && len(probs) == 0 && b.Open {
			nhg2 := &spb.AFTOperation{Op: spb.AFTOperation_ADD, Entry: &spb.AFTOperation_NextHopGroup{NextHopGroup: &aftpb.Afts_NextHopGroupKey{Id: 2, NextHopGroup: &aftpb.Afts_NextHopGroup{NextHop: []*aftpb.Afts_NextHopGroup_NextHopKey{{Index: missingNH, NextHop: &aftpb.Afts_NextHopGroup_NextHop{Weight: gen.U(2)}}}}}}}
			v4b := &spb.AFTOperation{Op: spb.AFTOperation_ADD, Entry: &spb.AFTOperation_Ipv4{Ipv4: &aftpb.Afts_Ipv4EntryKey{Prefix: "10.1.0.0/16", Ipv4Entry: &aftpb.Afts_Ipv4Entry{NextHopGroup: gen.U(2)}}}}
			probs = append(probs, w.SendOps(b, []gen.OpSpec{mk(7, ni, nhg2), mk(8, ni, v4b)}, eb)...)
			probs = append(probs, w.CompareState()...)
			nhID = 10
			run.Count("new_primary_holds_operations_with_the_ids_of_dropped_ones", 1)
			if a.Open && r.Intn(2) == 0 && len(probs) == 0 {
				probs = append(probs, w.Disconnect(a, []string{"close", "cancel", "abort"}[r.Intn(3)])...)
				probs = append(probs, w.CompareState()...)
				run.Count("superseded_session_left_while_the_new_primary_holds_operations", 1)
			}
		}
		// B installs the missing dependency, using operation ids that collide with A's held ones
		nh := &spb.AFTOperation{Op: spb.AFTOperation_ADD, Entry: &spb.AFTOperation_NextHop{NextHop: &aftpb.Afts_NextHopKey{Index: missingNH, NextHop: &aftpb.Afts_NextHop{IpAddress: gen.S("192.0.2.1")}}}}
		if len(probs) == 0 {
			probs = append(probs, w.SendOps(b, []gen.OpSpec{mk(nhID, ni, nh)}, eb)...)
			probs = append(probs, w.CompareState()...)
			probs = append(probs, w.QuietOthers(b)...)
		}
		if aState == "re-announces" && len(probs) == 0 && a.Open {
			ea2 := &spb.Uint128{High: eb.High, Low: eb.Low + 1}
			probs = append(probs, w.SendElection(a, ea2)...)
			probs = append(probs, w.SendOps(a, []gen.OpSpec{mk(20, ni, &spb.AFTOperation{Op: spb.AFTOperation_ADD, Entry: &spb.AFTOperation_NextHop{NextHop: &aftpb.Afts_NextHopKey{Index: 3, NextHop: &aftpb.Afts_NextHop{IpAddress: gen.S("192.0.2.9")}}}})}, ea2)...)
			probs = append(probs, w.CompareState()...)
		}
		// B continues with a short random history (held operations of its own, then resolution)
		if len(probs) == 0 && b.Open && w.Prim == b {
			g.NextID = 8
			if nhID == 10 {
				g.NextID = 11 // 7, 8 and 10 are B's own
			}
			for k := 0; k < 4 && len(probs) == 0; k++ {
				probs = append(probs, w.SendOps(b, g.History(1+r.Intn(4)), eb)...)
				probs = append(probs, w.CompareState()...)
			}
		}
		if len(probs) == 0 {
			probs = finalAccount(run, w)
		}
		split(run, caseID, w, probs)
		run.Eval(1)
		run.Distinct(strings.Join(w.Trace, "\n"))
		if i < 1 {
			run.Sample(map[string]any{"case": caseID, "script": w.Trace})
		}
	})
	run.Assume("a held operation whose session lost the primary role or ended may stay unanswered and without effect, or be answered later on its own still-open stream; anything else (a result on another stream, an effect without an answer) is a violation")
	run.Finish("(a) single-session histories of 30-230 operations from the C01 generator through the server (RIB- and FIB-acknowledging sessions, batches of 1-200 operations per request, empty and unknown network-instance names, forward references allowed / disallowed; between batches Flush RPCs (all / one instance, override / the primary's id) and standby sessions that negotiate, perhaps announce a lower id, and leave - held operations must survive both and be answered when their reference arrives; ids of answered operations are used again for later operations); (b) hand-over scripts: A leaves operations held (group behind a missing next-hop, entries behind the group), B announces an equal or higher id while A is connected / already gone / leaves afterwards / re-announces, B installs the missing dependency using operation ids that collide with A's. Every response is attributed to its operation (one ModifyResponse per operation, barrier-delimited) and judged by the RIB model; per stream the multiset of results over the whole history is accounted at the end. Distinct = by script", 200, false)
}
