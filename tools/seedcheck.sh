#!/bin/bash
# tools/seedcheck.sh <seed-dir> <ID>[,<ID>..] [--skip-suite]
# Confirms a seeded change (patch.diff + demo_test.go + meta.json in <seed-dir>):
#   1. applies to a scratch worktree of /repo HEAD and builds,
#   2. the repository's own suite still passes with it (unless --skip-suite),
#   3. the demonstration fails with it and passes without it,
#   4. runs the given check(s) against the mutated copy and reports CAUGHT / MISSED.
# The scratch worktree is removed afterwards. Output: one line per fact, machine readable.
set -u
D="$(cd "$1" && pwd)"; IDS="$2"; SKIP="${3:-}"
ROOT="$(cd "$(dirname "${BASH_SOURCE[0]}")/.." && pwd)"
export GOFLAGS=-mod=mod GOPROXY=off
W="$(mktemp -d /tmp/verif-seed-XXXXXX)"; rmdir "$W"
git -C /repo worktree add -q --detach "$W" HEAD || exit 2
cleanup() { git -C /repo worktree remove --force "$W" >/dev/null 2>&1; rm -rf "$W"; }
trap cleanup EXIT
demo="$D/demo_test.go"
META="$D/agent_meta.json"; [ -f "$META" ] || META="$D/meta.json"
demo_pkg="$(python3 -c "import json,sys;m=json.load(open('$META'));print(m.get('demo_pkg',''))" 2>/dev/null)"
demo_cmd="$(python3 -c "import json,sys;m=json.load(open('$META'));print(m.get('demo_cmd',''))" 2>/dev/null)"
if [ -z "$demo_pkg" ]; then
  # derive package dir from the demo command: last ./pkg/ argument
  demo_pkg="$(echo "$demo_cmd" | grep -o '\./[a-zA-Z0-9_/]*' | tail -1)"
fi
[ -n "$demo_pkg" ] || { echo "SEED $D: cannot determine demo package"; exit 2; }
demo_run="$(echo "$demo_cmd" | grep -o '\-run [^ ]*' | head -1)"
run_demo() { ( cd "$W" && cp "$demo" "$demo_pkg/zz_seeded_demo_test.go" && timeout 600 go test -vet=off -count=1 $demo_run "$demo_pkg" >"$W/.demo.log" 2>&1; rc=$?; rm -f "$demo_pkg/zz_seeded_demo_test.go"; exit $rc ); }
# without the change
run_demo; rc_without=$?
git -C "$W" apply "$D/patch.diff" || { echo "SEED $(basename $(dirname $D))/$(basename $D): patch does not apply"; exit 2; }
( cd "$W" && go build ./... ) || { echo "SEED: mutant does not build"; exit 2; }
run_demo; rc_with=$?
echo "SEED demo_without_change=$([ $rc_without -eq 0 ] && echo PASS || echo FAIL) demo_with_change=$([ $rc_with -eq 0 ] && echo PASS || echo FAIL)"
if [ "$SKIP" != "--skip-suite" ]; then
  ( cd "$W" && timeout 1500 go test -vet=off -count=1 ./... >"$W/.suite.log" 2>&1 ); rc_suite=$?
  echo "SEED suite_with_change=$([ $rc_suite -eq 0 ] && echo PASS || echo FAIL)"
  [ $rc_suite -eq 0 ] || grep -E "^(FAIL|---)" "$W/.suite.log" | head -5
fi
for ID in ${IDS//,/ }; do
  out="$(cd "$ROOT" && VERIF_REPO="$W" VERIF_NO_EVIDENCE=1 ./check "$ID" quick 2>&1)"; code=$?
  sigs="$(echo "$out" | grep '^  signature:' | sed 's/  signature: //' | sort -u | head -6 | tr '\n' ' ')"
  case $code in
    1) echo "SEED check=$ID CAUGHT :: $sigs" ;;
    0) echo "SEED check=$ID MISSED" ;;
    *) echo "SEED check=$ID ERROR"; echo "$out" | tail -4 ;;
  esac
done
