package drv

import (
	"fmt"
	"io"

	aftpb "github.com/openconfig/gribi/v1/proto/gribi_aft"
	spb "github.com/openconfig/gribi/v1/proto/service"
)

// Stream is what a Session needs from a transport (direct or gRPC).
type Stream interface {
	Write(*spb.ModifyRequest) bool
	Read() (*spb.ModifyResponse, error)
	CloseSend()
	AwaitEnd() (error, bool)
}

// Session wraps a Modify stream with request/response helpers.
type Session struct {
	Stream
	Name       string
	DefaultNI  string
	barrierSeq uint64
	// Log receives a line per message when non-nil.
	Log func(string)
}

// BarrierBase is the first operation id used by barrier operations.
const BarrierBase = uint64(1) << 60

// BarrierNH is the next-hop index barrier DELETEs name; never used by generators.
const BarrierNH = uint64(0xFFFFFFF0)

func (s *Session) log(f string, a ...any) {
	if s.Log != nil {
		s.Log(s.Name + ": " + fmt.Sprintf(f, a...))
	}
}

// SinglePrimary returns SINGLE_PRIMARY/PRESERVE parameters with the given ack type.
func SinglePrimary(fib bool) *spb.SessionParameters {
	p := &spb.SessionParameters{Redundancy: spb.SessionParameters_SINGLE_PRIMARY, Persistence: spb.SessionParameters_PRESERVE}
	if fib {
		p.AckType = spb.SessionParameters_RIB_AND_FIB_ACK
	}
	return p
}

// Exchange writes one request and reads one response.
func (s *Session) Exchange(req *spb.ModifyRequest) (*spb.ModifyResponse, error) {
	if !s.Write(req) {
		_, err := s.Read()
		if err == nil {
			err = fmt.Errorf("stream does not accept requests")
		}
		return nil, err
	}
	return s.Read()
}

// Params negotiates session parameters.
func (s *Session) Params(p *spb.SessionParameters) (*spb.ModifyResponse, error) {
	r, err := s.Exchange(&spb.ModifyRequest{Params: p})
	s.log("params %v -> %v %v", p, r, err)
	return r, err
}

// Elect announces an election id and returns the id the server reported.
func (s *Session) Elect(id *spb.Uint128) (*spb.Uint128, error) {
	r, err := s.Exchange(&spb.ModifyRequest{ElectionId: id})
	s.log("election %v -> %v %v", id, r, err)
	if err != nil {
		return nil, err
	}
	if r.GetElectionId() == nil {
		return nil, fmt.Errorf("election response without election id: %v", r)
	}
	return r.GetElectionId(), nil
}

// Barrier builds the barrier operation.
func (s *Session) barrierOp(elec *spb.Uint128) *spb.AFTOperation {
	s.barrierSeq++
	ni := s.DefaultNI
	if ni == "" {
		ni = "DEFAULT"
	}
	return &spb.AFTOperation{
		Id: BarrierBase + s.barrierSeq, NetworkInstance: ni, Op: spb.AFTOperation_DELETE, ElectionId: elec,
		Entry: &spb.AFTOperation_NextHop{NextHop: &aftpb.Afts_NextHopKey{Index: BarrierNH, NextHop: &aftpb.Afts_NextHop{}}},
	}
}

// OpsResult is what came back for a batch up to the barrier.
type OpsResult struct {
	// Results in arrival order, barrier excluded.
	Results []*spb.AFTResult
	// Responses is the number of ModifyResponses read (barrier excluded).
	Responses int
	// PerResponse holds the results of each ModifyResponse read, in order (barrier excluded).
	PerResponse [][]*spb.AFTResult
	// Other lists non-result responses seen (election / params), which must not occur.
	Other []*spb.ModifyResponse
	// RPCErr is set when the RPC ended before the barrier was answered (io.EOF = clean end).
	RPCErr error
	// Unanswered > 0: fewer responses than operations although the RPC stayed up.
	Unanswered int
	// BarrierStatus is the status with which the barrier itself was answered.
	BarrierStatus spb.AFTResult_Status
}

// Ops sends the batch in one ModifyRequest, then a barrier, and collects every
// result up to the barrier's answer. Because one goroutine serves a Modify stream
// in order, every operation of the batch has been processed when the barrier is
// answered: "unanswered at the barrier" is a logical, not a timing, statement.
func (s *Session) Ops(ops []*spb.AFTOperation, barrierElec *spb.Uint128) *OpsResult {
	out := &OpsResult{}
	if len(ops) > 0 {
		if !s.Write(&spb.ModifyRequest{Operation: ops}) {
			_, err := s.Read()
			if err == nil {
				err = io.ErrClosedPipe
			}
			out.RPCErr = err
			return out
		}
	}
	b := s.barrierOp(barrierElec)
	wrote := s.Write(&spb.ModifyRequest{Operation: []*spb.AFTOperation{b}})
	for {
		r, err := s.Read()
		if err != nil {
			out.RPCErr = err
			return out
		}
		if r.GetResult() == nil && (r.GetElectionId() != nil || r.GetSessionParamsResult() != nil) {
			out.Other = append(out.Other, r)
			continue
		}
		isBarrier := false
		var mine []*spb.AFTResult
		for _, res := range r.GetResult() {
			if res.GetId() == b.Id {
				isBarrier = true
				out.BarrierStatus = res.GetStatus()
				continue
			}
			out.Results = append(out.Results, res)
			mine = append(mine, res)
		}
		if isBarrier {
			if len(mine) > 0 {
				out.PerResponse = append(out.PerResponse, mine)
			}
			if len(out.PerResponse) < len(ops) {
				// The server answers every operation it processes with one ModifyResponse
				// (empty if the operation is held). Fewer responses than operations means an
				// operation ended the RPC and the barrier slipped through before the handler
				// tore the stream down: wait for the end and report its status.
				if err, ok := s.AwaitEnd(); ok {
					if err == nil {
						err = io.EOF
					}
					out.RPCErr = err
				} else {
					out.Unanswered = len(ops) - len(out.PerResponse)
				}
			}
			return out
		}
		out.PerResponse = append(out.PerResponse, mine)
		out.Responses++
		if !wrote {
			// barrier could not be written: the RPC is ending; keep reading until it does
			continue
		}
	}
}
