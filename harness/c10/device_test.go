package c10

import (
	"context"
	"crypto/tls"
	"fmt"
	"math/rand"
	"net"
	"strings"
	"time"

	"github.com/openconfig/gribigo/device"
	"github.com/openconfig/gribigo/testcommon"
	"google.golang.org/grpc"
	"google.golang.org/grpc/codes"
	"google.golang.org/grpc/credentials"
	"google.golang.org/grpc/status"

	aftpb "github.com/openconfig/gribi/v1/proto/gribi_aft"
	spb "github.com/openconfig/gribi/v1/proto/service"

	"verifharness/drv"
	"verifharness/gen"
	"verifharness/mon"
)

// deviceCase runs the property against the server as it is deployed: device.New (what
// cmd/rtr starts) listening on a real TCP socket with TLS. Clients go away in the ways a
// network produces - TCP connections that never get as far as the TLS handshake and stay
// open, Modify sessions cancelled or torn down at random points, Gets abandoned after the
// first response - dozens of them; then a new client must be able to connect, negotiate,
// win the election, program an entry, read it back and flush, each step within a generous
// bound.
func deviceCase(r *rand.Rand, logf func(string, ...any)) (probs []string, inconclusive string) {
	ctx, cancel := context.WithCancel(context.Background())
	defer cancel()
	cert, key := testcommon.TLSCreds()
	creds, err := device.TLSCredsFromFile(cert, key)
	if err != nil {
		return []string{"HARNESS|" + err.Error()}, ""
	}
	d, err := device.New(ctx, creds)
	if err != nil {
		return []string{"HARNESS|device.New: " + err.Error()}, ""
	}
	addr := d.GRIBIAddr()
	dial := func() (*grpc.ClientConn, error) {
		return grpc.NewClient(addr, grpc.WithTransportCredentials(credentials.NewTLS(&tls.Config{InsecureSkipVerify: true})))
	}
	const bound = 20 * time.Second
	ni := "DEFAULT"
	nh := func(id, idx uint64, el *spb.Uint128) *spb.ModifyRequest {
		return &spb.ModifyRequest{Operation: []*spb.AFTOperation{{Id: id, NetworkInstance: ni, Op: spb.AFTOperation_ADD, ElectionId: el,
			Entry: &spb.AFTOperation_NextHop{NextHop: &aftpb.Afts_NextHopKey{Index: idx, NextHop: &aftpb.Afts_NextHop{IpAddress: gen.S("192.0.2.1")}}}}}}
	}
	// content for the Gets that will be abandoned
	{
		cc, err := dial()
		if err != nil {
			return []string{"HARNESS|" + err.Error()}, ""
		}
		c2, cancel2 := context.WithTimeout(ctx, bound)
		st, err := spb.NewGRIBIClient(cc).Modify(c2)
		if err != nil {
			cancel2()
			cc.Close()
			return []string{"HARNESS|setup Modify: " + err.Error()}, ""
		}
		el := &spb.Uint128{Low: 1}
		st.Send(&spb.ModifyRequest{Params: drv.SinglePrimary(false)})
		st.Recv()
		st.Send(&spb.ModifyRequest{ElectionId: el})
		st.Recv()
		for k := uint64(1); k <= 40; k++ {
			st.Send(nh(k, k, el))
			if _, err := st.Recv(); err != nil {
				cancel2()
				cc.Close()
				return []string{"HARNESS|setup operation: " + err.Error()}, ""
			}
		}
		st.CloseSend()
		for {
			if _, err := st.Recv(); err != nil {
				break
			}
		}
		cancel2()
		cc.Close()
	}
	// the faults
	var halfOpen []net.Conn
	defer func() {
		for _, c := range halfOpen {
			c.Close()
		}
	}()
	nHalf := r.Intn(4)
	nMod := 20 + r.Intn(40)
	nGet := 5 + r.Intn(20)
	abandon := func(k int, get bool) {
		cc, err := dial()
		if err != nil {
			return
		}
		c2, cancel2 := context.WithTimeout(ctx, bound)
		cl := spb.NewGRIBIClient(cc)
		if get {
			gs, err := cl.Get(c2, &spb.GetRequest{NetworkInstance: &spb.GetRequest_All{All: &spb.Empty{}}, Aft: spb.AFTType_ALL})
			if err == nil {
				gs.Recv()
			}
		} else {
			st, err := cl.Modify(c2)
			if err == nil {
				steps := r.Intn(5)
				el := &spb.Uint128{Low: 2}
				if steps > 0 {
					st.Send(&spb.ModifyRequest{Params: drv.SinglePrimary(false)})
				}
				if steps > 1 {
					st.Recv()
					st.Send(&spb.ModifyRequest{ElectionId: el})
				}
				if steps > 2 {
					st.Recv()
					st.Send(nh(uint64(1000+k), uint64(1000+k), el))
				}
				if steps > 3 {
					st.Recv()
				}
			}
		}
		switch k % 3 {
		case 0:
			cancel2()
			cc.Close()
		case 1:
			cc.Close() // the connection goes away under the RPC
			cancel2()
		default:
			cancel2()
			time.Sleep(time.Duration(r.Intn(300)) * time.Microsecond)
			cc.Close()
		}
	}
	for k := 0; k < nMod; k++ {
		abandon(k, false)
	}
	for k := 0; k < nGet; k++ {
		abandon(k, true)
	}
	// (last, so that the abandoned sessions above are not slowed down by them)
	for k := 0; k < nHalf; k++ {
		c, err := net.Dial("tcp", addr)
		if err == nil {
			halfOpen = append(halfOpen, c) // never handshakes, never closes until the case ends
		}
	}
	time.Sleep(5 * time.Millisecond) // let the accept loop pick them up (scheduling aid only)
	logf("device at %s: %d half-open TCP connections, %d abandoned Modify sessions, %d abandoned Gets", addr, nHalf, nMod, nGet)

	// the probe
	step := ""
	fail := func(err error) {
		code := status.Code(err)
		if code == codes.DeadlineExceeded || code == codes.Unavailable || code == codes.Canceled {
			// not answered within the bound: permanent?
			a := mon.Dump()
			time.Sleep(time.Second)
			b := mon.Dump()
			stuck := func(gs []mon.Goroutine) map[string]string {
				m := map[string]string{}
				for _, g := range gs {
					if strings.Contains(g.Stack, "github.com/openconfig/gribigo/device.") && !strings.Contains(g.Stack, "verifharness/") {
						m[g.ID] = g.State + "\n" + g.Stack
					}
				}
				return m
			}
			sa, sb := stuck(a), stuck(b)
			same := len(sa) > 0
			var where []string
			for id, v := range sa {
				if sb[id] != v {
					same = false
				}
				where = append(where, fmt.Sprintf("g%s [%s]", id, strings.SplitN(v, "\n", 2)[0]))
			}
			if same && len(halfOpen) > 0 {
				probs = append(probs, fmt.Sprintf("server-unreachable:%s|with %d TCP connections open that never completed the TLS handshake, the probe's %s was not answered within %s (%v) and the device's own goroutines sit unchanged in %v", strings.ReplaceAll(step, " ", "-"), len(halfOpen), step, bound, err, where))
			} else {
				inconclusive = fmt.Sprintf("device probe %s: %v without a proven block", step, err)
			}
			return
		}
		probs = append(probs, fmt.Sprintf("probe-%s-rejected:%s|after %d abandoned Modify sessions and %d abandoned Gets a new client's %s failed: %v", strings.ReplaceAll(step, " ", "-"), code, nMod, nGet, step, err))
	}
	cc, err := dial()
	if err != nil {
		return []string{"HARNESS|" + err.Error()}, ""
	}
	defer cc.Close()
	c2, cancel2 := context.WithTimeout(ctx, bound)
	defer cancel2()
	cl := spb.NewGRIBIClient(cc)
	step = "connection and negotiation"
	st, err := cl.Modify(c2)
	if err != nil {
		fail(err)
		return
	}
	if err := st.Send(&spb.ModifyRequest{Params: drv.SinglePrimary(false)}); err != nil {
		fail(err)
		return
	}
	if _, err := st.Recv(); err != nil {
		fail(err)
		return
	}
	step = "election"
	el := &spb.Uint128{High: 7, Low: 1}
	st.Send(&spb.ModifyRequest{ElectionId: el})
	rep, err := st.Recv()
	if err != nil {
		fail(err)
		return
	}
	if rep.GetElectionId().GetHigh() != 7 || rep.GetElectionId().GetLow() != 1 {
		probs = append(probs, fmt.Sprintf("probe-election-not-won|announced (7,1), told %v", rep.GetElectionId()))
		return
	}
	step = "operation"
	st.Send(nh(1, 4242, el))
	res, err := st.Recv()
	if err != nil {
		fail(err)
		return
	}
	if len(res.GetResult()) != 1 || res.GetResult()[0].GetStatus() != spb.AFTResult_RIB_PROGRAMMED {
		probs = append(probs, fmt.Sprintf("probe-operation-not-programmed|%v", res))
		return
	}
	step = "get"
	gs, err := cl.Get(c2, &spb.GetRequest{NetworkInstance: &spb.GetRequest_Name{Name: ni}, Aft: spb.AFTType_NEXTHOP})
	if err != nil {
		fail(err)
		return
	}
	found := false
	for {
		r, err := gs.Recv()
		if err != nil {
			if err.Error() != "EOF" {
				fail(err)
				return
			}
			break
		}
		for _, e := range r.GetEntry() {
			found = found || e.GetNextHop().GetIndex() == 4242
		}
	}
	if !found {
		probs = append(probs, "probe-get-contents:missing|the probe's next-hop 4242 is not reported by Get")
		return
	}
	step = "flush"
	if fr, err := cl.Flush(c2, &spb.FlushRequest{NetworkInstance: &spb.FlushRequest_All{All: &spb.Empty{}}, Election: &spb.FlushRequest_Id{Id: el}}); err != nil {
		fail(err)
	} else if fr.GetResult() != spb.FlushResponse_OK {
		probs = append(probs, fmt.Sprintf("probe-flush-failed|%v", fr))
	}
	st.CloseSend()
	return
}
