package mon

import "verifharness/ev"

// Report turns problems into violations carrying the history as witness.
func Report(run *ev.Run, caseID string, trace []string, problems []string) {
	for _, p := range problems {
		sig, txt := SplitSig(p)
		t := trace
		if len(t) > 400 {
			t = t[len(t)-400:]
		}
		run.Violation(caseID, sig, txt, map[string]any{"history": append([]string{}, t...)})
	}
}
