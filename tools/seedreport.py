#!/usr/bin/env python3
"""Runs every seeded change in /verif/seeded against the check of its property (and optional
extra checks) and writes seeded/<id>/meta.json + seeded/RESULTS.md.  Usage: seedreport.py [id ...]"""
import json, os, subprocess, sys, re
ROOT = os.path.dirname(os.path.dirname(os.path.abspath(__file__)))
SEEDED = os.path.join(ROOT, "seeded")
NOTES = {
 "C07-a": "initially MISSED (generators never drew an explicit zero for a set leaf); caught after generators were changed to draw set-to-zero values",
 "C09-b": "initially MISSED (the session model accepted an in-band FAILED for an operation without election id, as C04 allows); caught after C09 was made to demand termination of the RPC as its statement says",
 "C10-a": "initially MISSED (the abandoned-Get fault only flooded the next-hop table); caught after the fault floods all five tables and cuts inside every table's section of Get(ALL)",
 "C16-b": "schedule dependent: the first version of the check caught it in some runs only; caught reliably after a back-to-back add/delete workload was added to C16",
 "C18-b": "initially MISSED (client programs always used a fresh Modify() handle); caught after handles held across other calls were added to the programs",
 "C13-a": "initially MISSED (conservation was not checked in cases where the scripted server violates the protocol); caught after conservation is demanded there too",
 "C01-d": "second round; initially MISSED by C01 (single-session histories only) though caught by C04 and C06, whose statements it violates directly; caught by C01 after hand-over scripts were added (unanswered operations of a superseded primary must leave no trace)",
 "C04-c": "second round; initially MISSED (all operations of a request carried the same stamp); caught after requests with individually stamped operations were added",
 "C07-d": "second round; initially MISSED (RIBs were populated through package rib, bypassing the server's Modify path); caught after half of the cases program through the Modify RPC",
 "C09-c": "second round; initially MISSED (no multi-field message with a present but all-zero election id in the alphabet); caught after two such symbols were added",
 "C11-d": "second round; initially MISSED (the racy window between two adjacent statements was never hit); caught after yield points before writes to the session table were added to the verif hooks (also caught with the yield point at the racy write itself removed). patch.diff is the agent's change carried over the new hook line; the original is patch.at-6e387b2.diff. The agent's demonstration needs -race",
 "C13-c": "second round; initially MISSED; caught after (a) a violation riding on the response that completes the last outstanding operation, with six fast waiters, (b) the oracle 'AwaitConverged never succeeds once part of a violating response was processed', (c) logging calls of the silent glog stand-in stall for 30 us as the real ones may",
 "C13-d": "second round; initially MISSED (duplicate results always used FAILED, unknown ids never RIB_PROGRAMMED); caught after violations use every status the client does not deliberately tolerate in the negotiated mode",
 "C14-c": "second round; initially MISSED (the stream always failed while requests were outstanding); caught after failures with nothing outstanding were added",
 "C14-d": "second round; initially MISSED (the stub delivered the status of a failed Send to Recv at once, so the receiver had always gone by the time of Close); caught after a late status, a Close/Reset right after Done, and the oracle 'receiver not inside Recv when Close/Reset return'",
 "C15-c": "second round; initially MISSED (one reconciliation per fresh target); caught after chains of reconciliations on the same live target (it is a reference-count leak, which C03 catches directly)",
 "C19-c": "second round; initially MISSED (every test got fresh connections that were closed afterwards, which also removed the session the changed test leaks); caught after a configuration in which all tests share one connection that stays open",
}

# rounds 3-5: changes that were missed at first (details: DESIGN.md 9.5)
for _sid in "C02-e C02-f C04-e C05-e C05-f C06-e C06-f C07-e C08-e C10-f C11-e C11-f C13-f C17-e C18-f C19-e C19-f".split():
    NOTES.setdefault(_sid, "third round; initially MISSED; caught after the check was strengthened (DESIGN.md 9.5, third round)")
for _sid in "C01-g C01-h C04-h C06-g C07-g C08-h C10-g C10-h C13-g C13-h C14-g C14-h C15-h C17-g C17-h C18-g".split():
    NOTES.setdefault(_sid, "fourth round; initially MISSED; caught after the check was strengthened (DESIGN.md 9.5, fourth round)")
for _sid in "C01-i C02-j C05-i C07-i C07-j C08-i C09-i C09-j C10-i C10-j C11-j C13-j C14-i C14-j C15-j C17-i C17-j C19-i".split():
    NOTES.setdefault(_sid, "fifth round; initially MISSED; caught after the check was strengthened (DESIGN.md 9.5, fifth round)")
NOTES.setdefault("C06-i", "fifth round; MISSED by C06 (the change is visible only through the client API); caught by C13 (process-and-acknowledge consumer)")
NOTES.setdefault("C13-i", "fifth round; MISSED by C13; caught by C14 (receiver left behind by Close/Reset, stale state after Reset)")
NOTES.setdefault("C16-i", "fifth round; NOT CAUGHT: needs a Modify racing with a Flush, outside C16's quantifier (histories, configurations); the unchanged tree has the mirror-image race (DESIGN.md 9.4, 9.5)")
for _sid in "C01-k C02-k C02-l C03-l C04-l C06-k C07-k C07-l C08-l C09-k C09-l C10-k C10-l C12-l C13-k C14-k C14-l C16-k C17-l C19-k".split():
    NOTES.setdefault(_sid, "sixth round; initially MISSED; caught after the check was strengthened (DESIGN.md 9.5, sixth round)")
NOTES.setdefault("C13-l", "sixth round; MISSED by C13; caught by C14 (Reset after a failure: the second session)")
for _sid in "C04-m C05-m C06-m C08-n C09-n C12-n C14-m C15-n C17-n C18-m C18-n C19-n".split():
    NOTES.setdefault(_sid, "seventh round; initially MISSED; caught after the check was strengthened (DESIGN.md 9.5, seventh round)")
for _sid, _c in {"C01-m": "C11", "C02-m": "C06", "C02-n": "C01", "C06-n": "C13", "C09-m": "C11", "C11-n": "C06", "C13-m": "C14", "C16-m": "C11"}.items():
    NOTES.setdefault(_sid, "seventh round; MISSED by its own check; caught by %s (DESIGN.md 9.5, seventh round)" % _c)
NOTES.setdefault("C16-n", "seventh round; initially MISSED; caught after the check was strengthened (DESIGN.md 9.5, seventh round)")
EXTRA_CHECKS = {"C06-i": "C13", "C13-i": "C14", "C13-l": "C14", "C01-m": "C11", "C02-m": "C06", "C02-n": "C01", "C06-n": "C13", "C09-m": "C11", "C11-n": "C06", "C13-m": "C14", "C16-m": "C11"}
REBASED = {"C04-b", "C04-d", "C05-c", "C09-d", "C10-d", "C11-d"}
ids = sys.argv[1:] or sorted(d for d in os.listdir(SEEDED) if os.path.isdir(os.path.join(SEEDED, d)))
rows = []
from concurrent.futures import ThreadPoolExecutor
JOBS = int(os.environ.get("SEED_JOBS", "4"))
EXTRA = os.environ.get("SEED_EXTRA_CHECKS", "")  # e.g. "C01-d:C04,C06"
extra = dict(x.split(":") for x in EXTRA.split() if ":" in x)
def one(sid):
    d = os.path.join(SEEDED, sid)
    am = json.load(open(os.path.join(d, "agent_meta.json")))
    prop = sid.split("-")[0]
    out = subprocess.run([os.path.join(ROOT, "tools/seedcheck.sh"), d, prop, "--skip-suite"], capture_output=True, text=True).stdout
    demo = re.search(r"demo_without_change=(\w+) demo_with_change=(\w+)", out)
    chk = re.search(r"check=(\w+) (CAUGHT|MISSED|ERROR)(?: :: (.*))?", out)
    suite = open(os.path.join(d, "suite.txt")).read().strip() if os.path.exists(os.path.join(d, "suite.txt")) else "not run"
    if suite == "not run" and os.path.exists(os.path.join(d, "seedcheck.txt")) and "suite_with_change=PASS" in open(os.path.join(d, "seedcheck.txt")).read():
        suite = "suite PASS (at import)"
    meta = {
        "id": sid, "property": prop,
        "summary": am.get("summary"), "needs": am.get("needs"), "files": am.get("files"),
        "demonstration": {"file": "demo_test.go", "cmd": am.get("demo_cmd") or (am.get("demonstration") or {}).get("cmd")},
        "confirmed_by_us": {
            "demo_passes_without_change": bool(demo and demo.group(1) == "PASS"),
            "demo_fails_with_change": bool(demo and demo.group(2) == "FAIL"),
            "repository_suite_with_change": suite,
        },
        "what_we_ran": f"tools/seedcheck.sh seeded/{sid} {prop} (scratch worktree of /repo HEAD + patch; ./check {prop} quick with VERIF_REPO pointing at it); tools/seedsuite.sh for the repository's own suite",
        "check_result": {"check": prop, "verdict": chk.group(2) if chk else "ERROR", "signatures": (chk.group(3) or "").split() if chk else []},
    }
    if sid in EXTRA_CHECKS:
        out2 = subprocess.run([os.path.join(ROOT, "tools/seedcheck.sh"), d, EXTRA_CHECKS[sid], "--skip-suite"], capture_output=True, text=True).stdout
        chk2 = re.search(r"check=(\w+) (CAUGHT|MISSED|ERROR)(?: :: (.*))?", out2)
        meta["also_checked_with"] = {"check": EXTRA_CHECKS[sid], "verdict": chk2.group(2) if chk2 else "ERROR", "signatures": (chk2.group(3) or "").split() if chk2 else []}
    if sid in NOTES:
        meta["history"] = NOTES[sid]
    import glob as _g
    orig = [os.path.basename(x) for x in _g.glob(os.path.join(d, "patch.at-*.diff"))]
    if orig and sid not in REBASED:
        meta["patch_note"] = "patch.diff carries the agent's change over a later fix: commit in /repo that touched the same lines; the change as delivered is " + orig[0]
    if sid in REBASED:
        meta["patch_note"] = "patch.diff carries the agent's change over the later hook commit 901951d (an inert verifPoint line next to the changed statement); the change as delivered, against 6e387b2, is patch.at-6e387b2.diff"
    json.dump(meta, open(os.path.join(d, "meta.json"), "w"), indent=1)
    print(sid, meta["check_result"]["verdict"], " ".join(meta["check_result"]["signatures"][:2]), flush=True)
with ThreadPoolExecutor(JOBS) as ex:
    list(ex.map(one, ids))
# confirmation pass: with several checks running side by side a result can be an artefact of
# the load (a schedule-dependent change not hit; a build that lost a race for the shared
# go.sum): every seed that was not CAUGHT by its own check is run once more on its own
if JOBS > 1:
    for sid in ids:
        mp = os.path.join(SEEDED, sid, "meta.json")
        if os.path.exists(mp) and json.load(open(mp))["check_result"]["verdict"] != "CAUGHT":
            one(sid)
for sid in sorted(d for d in os.listdir(SEEDED) if os.path.isfile(os.path.join(SEEDED, d, "meta.json"))):
    meta = json.load(open(os.path.join(SEEDED, sid, "meta.json")))
    verdict = meta["check_result"]["verdict"] + (" (after strengthening)" if "history" in meta and "initially MISSED" in meta["history"] else "")
    if "also_checked_with" in meta:
        verdict += "; " + meta["also_checked_with"]["check"] + ": " + meta["also_checked_with"]["verdict"]
    rows.append((sid, verdict, " ".join(meta["check_result"]["signatures"][:3]), meta["confirmed_by_us"]["repository_suite_with_change"].split(" at ")[0]))
with open(os.path.join(SEEDED, "RESULTS.md"), "w") as f:
    f.write("| seeded change | caught by its check (quick tier) | first signatures | repository suite with the change |\n|---|---|---|---|\n")
    for r in rows:
        f.write(f"| {r[0]} | {r[1]} | `{r[2]}` | {r[3]} |\n")
