// Package child runs batches of a workload in a sacrificial child process (the
// test binary re-executing itself), so that a panic, fatal error or wedge of the
// code under test ends one batch, not every monitor.
package child

import (
	"bufio"
	"context"
	"encoding/json"
	"fmt"
	"os"
	"os/exec"
	"path/filepath"
	"regexp"
	"strings"
	"syscall"
	"time"
)

// Spec is handed to the child through the environment.
type Spec struct {
	Prop string `json:"prop"`
	Tier string `json:"tier"`
	Seed int64  `json:"seed"`
	Case string `json:"case"`
	Arg  string `json:"arg"`
}

// IsChild reports whether this process is a child, and its spec.
func IsChild() (*Spec, bool) {
	s := os.Getenv("VERIF_CHILD_SPEC")
	if s == "" {
		return nil, false
	}
	var sp Spec
	if err := json.Unmarshal([]byte(s), &sp); err != nil {
		return nil, false
	}
	return &sp, true
}

// Outcome is what the parent learns about one child.
type Outcome struct {
	ExitOK   bool
	Killed   bool // watchdog killed it (SIGQUIT)
	Records  []map[string]any
	LastLog  string // last line of the progress log: the input in flight when it died
	Stderr   string // tail of stderr (panic message / goroutine dump)
	Stdout   string // tail of stdout (testing package messages)
	PanicSig string // condensed signature of a crash
}

var tmpBase = func() string {
	if d := os.Getenv("VERIF_TMP"); d != "" {
		return d
	}
	return os.TempDir()
}

// Run executes TestChild of the current test binary with the given spec.
func Run(sp Spec, timeout time.Duration) *Outcome {
	dir, err := os.MkdirTemp(tmpBase(), "child-")
	if err != nil {
		return &Outcome{Stderr: err.Error()}
	}
	defer os.RemoveAll(dir)
	b, _ := json.Marshal(sp)
	ctx, cancel := context.WithTimeout(context.Background(), timeout)
	defer cancel()
	cmd := exec.CommandContext(ctx, os.Args[0], "-test.run", "^TestChild$", "-test.count=1", "-test.timeout=0")
	cmd.Cancel = func() error { return cmd.Process.Signal(syscall.SIGQUIT) }
	cmd.WaitDelay = 10 * time.Second
	cmd.Env = append(os.Environ(), "VERIF_CHILD_SPEC="+string(b), "VERIF_CHILD_LOG="+filepath.Join(dir, "log"), "VERIF_CHILD_OUT="+filepath.Join(dir, "out"), "VERIF_CASE=")
	errf, _ := os.Create(filepath.Join(dir, "stderr"))
	outf, _ := os.Create(filepath.Join(dir, "stdout"))
	cmd.Stderr, cmd.Stdout = errf, outf
	runErr := cmd.Run()
	errf.Close()
	outf.Close()
	o := &Outcome{ExitOK: runErr == nil, Killed: ctx.Err() != nil}
	if f, err := os.Open(filepath.Join(dir, "out")); err == nil {
		sc := bufio.NewScanner(f)
		sc.Buffer(make([]byte, 1<<20), 64<<20)
		for sc.Scan() {
			var rec map[string]any
			if json.Unmarshal(sc.Bytes(), &rec) == nil {
				o.Records = append(o.Records, rec)
			}
		}
		f.Close()
	}
	if b, err := os.ReadFile(filepath.Join(dir, "log")); err == nil {
		lines := strings.Split(strings.TrimRight(string(b), "\n"), "\n")
		o.LastLog = lines[len(lines)-1]
		if len(o.LastLog) > 4000 {
			o.LastLog = o.LastLog[:4000] + "...(truncated)"
		}
	}
	if b, err := os.ReadFile(filepath.Join(dir, "stdout")); err == nil {
		s := string(b)
		if len(s) > 3000 {
			s = s[len(s)-3000:]
		}
		o.Stdout = s
	}
	if b, err := os.ReadFile(filepath.Join(dir, "stderr")); err == nil {
		s := string(b)
		o.PanicSig = panicSig(s)
		if len(s) > 6000 {
			// keep the head (panic message and first stack) rather than the tail
			s = s[:6000]
		}
		o.Stderr = s
	}
	return o
}

var frameRe = regexp.MustCompile(`(?m)^(github\.com/openconfig/(?:gribigo|ygot)[^\s(]*)\(`)

// panicSig condenses a crash into "panic message class @ first repo/ygot frame".
func panicSig(stderr string) string {
	i := strings.Index(stderr, "panic: ")
	j := strings.Index(stderr, "fatal error: ")
	if i < 0 && j < 0 {
		return ""
	}
	if i < 0 || (j >= 0 && j < i) {
		i = j
	}
	rest := stderr[i:]
	msg := strings.SplitN(rest, "\n", 2)[0]
	if len(msg) > 70 {
		msg = msg[:70]
	}
	msg = regexp.MustCompile(`0x[0-9a-f]+|\d{3,}`).ReplaceAllString(msg, "N")
	fr := "?"
	if m := frameRe.FindStringSubmatch(rest); m != nil {
		fr = m[1]
	}
	return strings.ReplaceAll(msg, " ", "_") + "@" + fr
}

// Writer is the child's side: a progress log and a result stream.
type Writer struct {
	log *os.File
	out *os.File
}

// NewWriter opens the files named by the environment.
func NewWriter() (*Writer, error) {
	l, err := os.OpenFile(os.Getenv("VERIF_CHILD_LOG"), os.O_CREATE|os.O_WRONLY|os.O_TRUNC, 0o644)
	if err != nil {
		return nil, err
	}
	o, err := os.OpenFile(os.Getenv("VERIF_CHILD_OUT"), os.O_CREATE|os.O_WRONLY|os.O_APPEND, 0o644)
	if err != nil {
		return nil, err
	}
	return &Writer{l, o}, nil
}

// InFlight records (overwriting) the input about to be sent.
func (w *Writer) InFlight(s string) {
	w.log.Truncate(0)
	w.log.Seek(0, 0)
	fmt.Fprintln(w.log, strings.ReplaceAll(s, "\n", " "))
}

// Record appends one result record.
func (w *Writer) Record(rec map[string]any) {
	b, _ := json.Marshal(rec)
	w.out.Write(append(b, '\n'))
}

// Close closes the files.
func (w *Writer) Close() { w.log.Close(); w.out.Close() }
