// C10: client disconnects / abandoned RPCs never change state or wedge the server.
package c10

import (
	"github.com/golang/glog"

	"fmt"
	"math/rand"
	"strings"
	"testing"
	"time"

	"github.com/openconfig/gribigo/server"
	"google.golang.org/grpc/codes"
	"google.golang.org/grpc/status"

	aftpb "github.com/openconfig/gribi/v1/proto/gribi_aft"
	spb "github.com/openconfig/gribi/v1/proto/service"

	"verifharness/canon"
	"verifharness/child"
	"verifharness/drv"
	"verifharness/ev"
	"verifharness/gen"
	"verifharness/model"
	"verifharness/mon"
)

// ---------------------------------------------------------------- fault catalogue

type fault struct {
	kind      string // "modify" | "get"
	transport string // "direct" | "grpc"
	mode      string // modify: close|cancel|kill ; get: cancel|kill|sendfail
	cut       int    // modify: number of script steps executed before the cut; get: responses read before the cut
	entries   int    // get: number of entries in the flooded NI
}

func (f fault) String() string {
	if f.kind == "storm" {
		return fmt.Sprintf("storm/%s/%d-sessions", f.transport, f.cut)
	}
	if f.kind == "bigbatch" {
		return fmt.Sprintf("bigbatch/%s/%d-operations", f.transport, f.cut)
	}
	if f.kind == "get" {
		return fmt.Sprintf("get/%s/%s/after-%d-of-%d", f.transport, f.mode, f.cut, f.entries)
	}
	return fmt.Sprintf("modify/%s/%s/after-step-%d", f.transport, f.mode, f.cut)
}

const scriptSteps = 14

func catalogue() []fault {
	var out []fault
	for cut := 0; cut <= scriptSteps; cut++ {
		for _, tm := range [][2]string{{"direct", "close"}, {"direct", "cancel"}, {"grpc", "close"}, {"grpc", "cancel"}, {"grpc", "kill"}} {
			out = append(out, fault{kind: "modify", transport: tm[0], mode: tm[1], cut: cut})
		}
	}
	for _, n := range []int{2, 5, 40, 200} {
		cuts := map[int]bool{}
		for k := 1; k <= n && k <= 6; k++ {
			cuts[k] = true
		}
		cuts[n-1] = true
		cuts[n] = true
		// Get(ALL) emits the tables one after the other (a fifth of the entries each): cut inside each
		for sec := 0; sec < 5; sec++ {
			if k := sec*n/5 + n/10 + 1; k >= 1 && k <= n {
				cuts[k] = true
			}
		}
		for k := range cuts {
			for _, tm := range [][2]string{{"direct", "sendfail"}, {"grpc", "cancel"}, {"grpc", "kill"}} {
				out = append(out, fault{kind: "get", transport: tm[0], mode: tm[1], cut: k, entries: n})
			}
		}
	}
	// deterministic order
	for i := 0; i < len(out); i++ {
		for j := i + 1; j < len(out); j++ {
			if out[j].String() < out[i].String() {
				out[i], out[j] = out[j], out[i]
			}
		}
	}
	return out
}

type caseSpec struct {
	id     string
	faults []fault
	// tie[k]: the probe after fault k announces the id that already is the maximum
	tie []bool
}

func cases(run *ev.Run) []caseSpec {
	cat := catalogue()
	var out []caseSpec
	for _, f := range cat {
		out = append(out, caseSpec{id: "single:" + f.String(), faults: []fault{f}, tie: []bool{false}})
		out = append(out, caseSpec{id: "single-tie:" + f.String(), faults: []fault{f}, tie: []bool{true}})
	}
	// disconnect storms: many sessions are cut off one after the other WHILE fresh sessions
	// negotiate (the session table is written by departures and arrivals and read by every
	// negotiation), then the usual probe
	nStorm := run.Pick(12, 300)
	for i := 0; i < nStorm; i++ {
		out = append(out, caseSpec{id: fmt.Sprintf("storm-%d", i), faults: []fault{{kind: "storm", transport: []string{"direct", "grpc"}[i%2], mode: "mixed", cut: 40 + 20*(i%4)}}, tie: []bool{i%2 == 0}})
	}
	// a very large batch abandoned after its first answer, and a new primary that flushes at once
	nBig := run.Pick(6, 120)
	for i := 0; i < nBig; i++ {
		out = append(out, caseSpec{id: fmt.Sprintf("bigbatch-%d", i), faults: []fault{{kind: "bigbatch", transport: []string{"direct", "grpc"}[i%2], mode: "cancel", cut: 3000 + 1000*(i%4)}}, tie: []bool{i%2 == 1}})
	}
	// the server as deployed (device.New: TCP + TLS), see deviceCase
	nDev := run.Pick(8, 120)
	for i := 0; i < nDev; i++ {
		out = append(out, caseSpec{id: fmt.Sprintf("device-%d", i), faults: []fault{{kind: "device", transport: "tcp+tls", mode: "mixed"}}, tie: []bool{false}})
	}
	nSeq := run.Pick(200, 10000)
	for i := 0; i < nSeq; i++ {
		id := fmt.Sprintf("sequence-%d", i)
		r := run.Rand(id)
		n := 2 + r.Intn(3)
		var fs []fault
		var ties []bool
		for k := 0; k < n; k++ {
			fs = append(fs, cat[r.Intn(len(cat))])
			ties = append(ties, r.Intn(2) == 0)
		}
		out = append(out, caseSpec{id: id, faults: fs, tie: ties})
	}
	return out
}

const perChild = 25

func TestCheck(t *testing.T) {
	if _, ok := child.IsChild(); ok {
		t.Skip("child process")
	}
	run := ev.Start(t, "C10", "fault_enumeration")
	cs := cases(run)
	run.Set("single_fault_catalogue_size", len(catalogue()))
	nChild := (len(cs) + perChild - 1) / perChild
	ev.Parallel(nChild, ev.Workers(), func(b int) {
		lo, hi := b*perChild, (b+1)*perChild
		if hi > len(cs) {
			hi = len(cs)
		}
		if run.OnlyCase != "" {
			found := false
			for _, c := range cs[lo:hi] {
				if c.id == run.OnlyCase {
					found = true
				}
			}
			if !found {
				return
			}
		}
		o := child.Run(child.Spec{Prop: "C10", Tier: run.Tier, Seed: run.Seed, Case: run.OnlyCase, Arg: fmt.Sprintf("%d:%d", lo, hi)}, 30*time.Minute)
		for _, rec := range o.Records {
			switch rec["kind"] {
			case "problem":
				run.Violation(fmt.Sprint(rec["case"]), fmt.Sprint(rec["sig"]), fmt.Sprint(rec["text"]), map[string]any{"trace": rec["trace"]})
			case "inconclusive":
				run.Inconclusive(fmt.Sprint(rec["case"]) + ": " + fmt.Sprint(rec["text"]))
			case "case":
				run.Eval(1)
				run.Distinct(fmt.Sprint(rec["case"]))
				run.Count("faults_injected", int64(rec["faults"].(float64)))
				run.Count("liveness_probes_passed", int64(rec["probes"].(float64)))
				run.Count("state_comparisons", int64(rec["compares"].(float64)))
				run.Count("probe_negotiation_retries", int64(rec["retries"].(float64)))
				for _, k := range rec["kinds"].([]any) {
					run.Seen("fault_kinds", fmt.Sprint(k))
				}
				if b == 0 && rec["trace"] != nil {
					run.Sample(map[string]any{"case": rec["case"], "trace": rec["trace"]})
				}
			}
		}
		switch {
		case o.Killed:
			run.Inconclusive(fmt.Sprintf("child %d exceeded the wall-clock watchdog; in flight: %s", b, o.LastLog))
		case !o.ExitOK:
			sig := "crash:" + o.PanicSig
			if o.PanicSig == "" {
				sig = "crash:child-exited-abnormally"
			}
			run.Violation(fmt.Sprintf("child-%d", b), sig, "the server process died: "+strings.SplitN(o.Stderr, "\n", 2)[0], map[string]any{"in_flight": o.LastLog, "stderr_head": o.Stderr})
		}
	})
	run.Assume("a message the client sent but whose answer it did not read may or may not have been processed when the client is cancelled or its transport killed over gRPC (any prefix of the unacknowledged messages is accepted); after a half-close, and on direct streams, everything sent was received and must have been processed")
	run.Finish("fault enumeration: a 5-message Modify script (params, election, three batches incl. a held operation that resolves) cut after each of its 14 send/read steps x {direct: half-close, cancel; gRPC: half-close, cancel, transport kill}; a Get(ALL) over an instance holding 2/5/40/200 entries spread over all five tables, cut after 1..6, n-1, n and inside every table's section x {direct: Send fails; gRPC: cancel, transport kill}; plus seeded sequences of 2-4 such faults on one server; plus disconnect storms (40-100 negotiated sessions cut off one after the other in all modes while fresh sessions keep negotiating, the server's yield points around the session table perturbed); plus very large batches (3000-6000 operations in one request) abandoned after their first answer with the next primary flushing at once (at most a handful of operations in progress may land afterwards); plus the server as it is deployed - device.New on a real TCP socket with TLS - hit by TCP connections that never complete the handshake, 20-60 abandoned Modify sessions and 5-25 abandoned Gets before the probe connects. After every fault: contents and highest id/primary vs the model (hooks), then a bounded-progress probe - a new session negotiates, announces max+1 or (every other probe) the very id that is the maximum, adds a next-hop plus the next-hop the cut-off session's held operations were waiting for, reads back with Get exactly what the model predicts (nothing of the departed session may surface, no foreign result on the probe's stream), flushes - each step under a watchdog; a watchdog firing is a violation only if two goroutine dumps prove the server permanently blocked. Distinct = by fault case", 50, false)
}

// ---------------------------------------------------------------- child side

type world struct {
	srv          *server.Server
	gs           *drv.GRPCServer
	m            *model.RIB
	max          *spb.Uint128
	nextOp       uint64
	trace        []string
	probeRetries int
	probeN       int
	g            *gen.Gen
}

func (w *world) logf(f string, a ...any) { w.trace = append(w.trace, fmt.Sprintf(f, a...)) }

func mkNH(id uint64, ni string, idx uint64) gen.OpSpec {
	return gen.OpSpec{NI: ni, Op: &spb.AFTOperation{Id: id, NetworkInstance: ni, Op: spb.AFTOperation_ADD,
		Entry: &spb.AFTOperation_NextHop{NextHop: &aftpb.Afts_NextHopKey{Index: idx, NextHop: &aftpb.Afts_NextHop{IpAddress: gen.S("192.0.2.1")}}}}}
}
func mkNHG(id uint64, ni string, nhg uint64, nhs ...uint64) gen.OpSpec {
	p := &aftpb.Afts_NextHopGroup{}
	for _, n := range nhs {
		p.NextHop = append(p.NextHop, &aftpb.Afts_NextHopGroup_NextHopKey{Index: n, NextHop: &aftpb.Afts_NextHopGroup_NextHop{Weight: gen.U(1)}})
	}
	return gen.OpSpec{NI: ni, Op: &spb.AFTOperation{Id: id, NetworkInstance: ni, Op: spb.AFTOperation_ADD,
		Entry: &spb.AFTOperation_NextHopGroup{NextHopGroup: &aftpb.Afts_NextHopGroupKey{Id: nhg, NextHopGroup: p}}}}
}
func mkV4(id uint64, ni, pfx string, nhg uint64, kind spb.AFTOperation_Operation) gen.OpSpec {
	return gen.OpSpec{NI: ni, Op: &spb.AFTOperation{Id: id, NetworkInstance: ni, Op: kind,
		Entry: &spb.AFTOperation_Ipv4{Ipv4: &aftpb.Afts_Ipv4EntryKey{Prefix: pfx, Ipv4Entry: &aftpb.Afts_Ipv4Entry{NextHopGroup: gen.U(nhg)}}}}}
}
func mkV6(id uint64, ni, pfx string, nhg uint64) gen.OpSpec {
	return gen.OpSpec{NI: ni, Op: &spb.AFTOperation{Id: id, NetworkInstance: ni, Op: spb.AFTOperation_ADD,
		Entry: &spb.AFTOperation_Ipv6{Ipv6: &aftpb.Afts_Ipv6EntryKey{Prefix: pfx, Ipv6Entry: &aftpb.Afts_Ipv6Entry{NextHopGroup: gen.U(nhg)}}}}}
}

func inc(u *spb.Uint128) *spb.Uint128 {
	if u == nil {
		return &spb.Uint128{Low: 1}
	}
	if u.Low == ^uint64(0) {
		return &spb.Uint128{High: u.High + 1}
	}
	return &spb.Uint128{High: u.High, Low: u.Low + 1}
}

// implContents reads the server's contents through a Get from a fresh direct stream.
func (w *world) implContents() (canon.Contents, string) {
	resps, err, wd := drv.Get(w.srv, &spb.GetRequest{NetworkInstance: &spb.GetRequest_All{All: &spb.Empty{}}, Aft: spb.AFTType_ALL}, 0)
	if wd != nil {
		return nil, "WATCHDOG"
	}
	if err != nil {
		return nil, err.Error()
	}
	c, _ := canon.FromGet(resps)
	return c, ""
}

type candidate struct {
	m   *model.RIB
	max *spb.Uint128
	j   int
}

// modifyFault runs the scripted session up to the cut and returns the acceptable model states.
func (w *world) modifyFault(f fault) ([]candidate, string) {
	var st drv.Stream
	var direct *drv.ModStream
	var g *drv.GRPCModStream
	if f.transport == "direct" {
		direct = drv.OpenModify(w.srv)
		st = direct
	} else {
		var err error
		g, err = w.gs.OpenModify()
		if err != nil {
			return nil, "HARNESS: " + err.Error()
		}
		st = g
	}
	elec := inc(w.max)
	base := w.nextOp
	w.nextOp += 20
	ni := "DEFAULT"
	batch1 := []gen.OpSpec{mkNH(base+1, ni, 1), mkNH(base+2, ni, 2), mkNHG(base+3, ni, 1, 1, 2)}
	// (the held operation comes first and a successful install follows it in the same
	// session: whatever the server remembers about held operations at that point must not
	// outlive the hand-over to the next primary)
	batch2 := []gen.OpSpec{mkV6(base+5, "VRF1", "2001:db8::/32", 2), mkV4(base+4, ni, "10.0.0.0/8", 1, spb.AFTOperation_ADD)}
	batch3 := []gen.OpSpec{mkNHG(base+6, "VRF1", 2, 1), mkNH(base+7, "VRF1", 1), gen.OpSpec{NI: ni, Op: &spb.AFTOperation{Id: base + 8, NetworkInstance: ni, Op: spb.AFTOperation_DELETE, Entry: &spb.AFTOperation_Ipv4{Ipv4: &aftpb.Afts_Ipv4EntryKey{Prefix: "10.0.0.0/8"}}}}}
	stamp := func(b []gen.OpSpec) []*spb.AFTOperation {
		var o []*spb.AFTOperation
		for _, s := range b {
			s.Op.ElectionId = elec
			o = append(o, s.Op)
		}
		return o
	}
	type msg struct {
		req   *spb.ModifyRequest
		reads int
		// units are the individually processed parts of the message (one per operation)
		units []func(c *candidate)
	}
	opUnits := func(b []gen.OpSpec) []func(c *candidate) {
		var u []func(c *candidate)
		for _, s := range b {
			s := s
			u = append(u, func(c *candidate) { c.m.Predict(s) })
		}
		return u
	}
	msgs := []msg{
		{&spb.ModifyRequest{Params: drv.SinglePrimary(false)}, 1, []func(c *candidate){func(c *candidate) {}}},
		{&spb.ModifyRequest{ElectionId: elec}, 1, []func(c *candidate){func(c *candidate) { c.max = elec; c.m.DropHeld() }}},
		{&spb.ModifyRequest{Operation: stamp(batch1)}, 3, opUnits(batch1)},
		{&spb.ModifyRequest{Operation: stamp(batch2)}, 2, opUnits(batch2)},
		{&spb.ModifyRequest{Operation: stamp(batch3)}, 3, opUnits(batch3)},
	}
	// step numbering: each message contributes 1 send step + `reads` read steps: 2+2+4+3+4 = 15 -> cut in 0..14 means
	// "execute that many steps"; the last read of the last message is never executed before the cut.
	steps := 0
	sent, acked := 0, 0
	for mi, m := range msgs {
		if steps >= f.cut {
			break
		}
		if !st.Write(m.req) {
			return nil, fmt.Sprintf("script message %d not accepted by the stream", mi)
		}
		sent++
		steps++
		readAll := true
		for k := 0; k < m.reads; k++ {
			if steps >= f.cut {
				readAll = false
				break
			}
			if _, err := st.Read(); err != nil {
				if err == drv.ErrWatchdog {
					return nil, "WATCHDOG reading script response"
				}
				return nil, fmt.Sprintf("script response %d/%d: %v", mi, k, err)
			}
			steps++
		}
		if readAll {
			acked++
		}
	}
	w.logf("fault %s: %d messages sent, %d fully acknowledged, then %s", f, sent, acked, f.mode)
	switch f.mode {
	case "close":
		st.CloseSend()
	case "cancel":
		if direct != nil {
			direct.Abort(status.Error(codes.Canceled, "context canceled"))
		} else {
			g.Cancel()
		}
	case "kill":
		g.Kill()
	}
	// wait until the handler is gone (bounded): state is then quiescent
	if direct != nil {
		if _, wd := direct.WaitEnd(); wd != nil {
			return nil, "WATCHDOG waiting for Modify to return after " + f.mode
		}
	} else {
		if f.mode == "close" {
			if _, ok := g.AwaitEnd(); !ok {
				return nil, "WATCHDOG waiting for the RPC to end after half-close"
			}
		}
		g.Close()
		// the handler goroutine removes the session when it returns: wait for the session table to shrink
		deadline := time.Now().Add(drv.Watchdog)
		for len(w.srv.VerifSessions()) > 0 {
			if time.Now().After(deadline) {
				return nil, "WATCHDOG waiting for the session to be removed after " + f.mode
			}
			time.Sleep(200 * time.Microsecond)
		}
	}
	// The handler's receive goroutine can outlive the handler by the operation it is
	// working on: wait until nothing of the server is running any more.
	if !mon.WaitQuiescent(drv.Watchdog) {
		return nil, "WATCHDOG server did not become quiescent after " + f.mode
	}
	// Acceptable states: the units (session message / single operation) of all fully
	// acknowledged messages, plus any prefix of the units of the remaining sent messages.
	// After a half-close, and on a direct stream (a Write returns when the server has
	// received the message), everything sent must have been processed.
	var units []func(c *candidate)
	ackedUnits := 0
	for k := 0; k < sent; k++ {
		units = append(units, msgs[k].units...)
		if k < acked {
			ackedUnits = len(units)
		}
	}
	lo := len(units)
	if f.mode != "close" {
		// cancellation / transport failure: the server may stop anywhere after what it acknowledged
		lo = ackedUnits
	}
	var out []candidate
	for j := lo; j <= len(units); j++ {
		c := candidate{m: w.m.Clone(), max: w.max, j: j}
		for k := 0; k < j; k++ {
			units[k](&c)
		}
		out = append(out, c)
	}
	return out, ""
}

// getFault floods one NI with entries of all five tables, then abandons a Get(ALL) part-way.
func (w *world) getFault(f fault) string {
	ni := "VRF2"
	allNIs := f.cut%2 == 0
	if allNIs {
		// a Get of ALL instances abandoned while the first of them (in the server's order) is
		// being written: the instances behind it must not be left locked
		ni = "DEFAULT"
	}
	add := func(s gen.OpSpec) string {
		if oks, fails, err := mon.Apply(w.srv.VerifRIB(), s); err != nil || len(fails) > 0 || len(oks) == 0 {
			return fmt.Sprintf("HARNESS: cannot install %s: %v %v %v", s, oks, fails, err)
		}
		w.m.Predict(s)
		return ""
	}
	id := func() uint64 { w.nextOp++; return w.nextOp }
	if e := add(mkNH(id(), ni, 900)); e != "" {
		return e
	}
	if e := add(mkNHG(id(), ni, 900, 900)); e != "" {
		return e
	}
	for k := 2; k < f.entries; k++ {
		var s gen.OpSpec
		switch k % 5 {
		case 0:
			s = mkV4(id(), ni, fmt.Sprintf("10.%d.%d.0/24", k/250, k%250), 900, spb.AFTOperation_ADD)
		case 1:
			s = mkV6(id(), ni, fmt.Sprintf("2001:db8:%x::/48", k), 900)
		case 2:
			s = gen.OpSpec{NI: ni, Op: &spb.AFTOperation{Id: id(), NetworkInstance: ni, Op: spb.AFTOperation_ADD, Entry: &spb.AFTOperation_Mpls{Mpls: &aftpb.Afts_LabelEntryKey{Label: &aftpb.Afts_LabelEntryKey_LabelUint64{LabelUint64: uint64(1000 + k)}, LabelEntry: &aftpb.Afts_LabelEntry{NextHopGroup: gen.U(900)}}}}}
		case 3:
			s = mkNHG(id(), ni, uint64(1000+k), 900)
		default:
			s = mkNH(id(), ni, uint64(1000+k))
		}
		if e := add(s); e != "" {
			return e
		}
	}
	req := &spb.GetRequest{NetworkInstance: &spb.GetRequest_Name{Name: ni}, Aft: spb.AFTType_ALL}
	if allNIs {
		req.NetworkInstance = &spb.GetRequest_All{All: &spb.Empty{}}
	}
	var got []*spb.GetResponse
	var err, wd error
	switch f.transport {
	case "direct":
		got, err, wd = drv.Get(w.srv, req, f.cut+1) // the (cut+1)-th Send fails: the client read `cut` responses
	default:
		got, err, wd = w.gs.GRPCGet(req, f.cut, f.mode == "kill")
	}
	w.logf("fault %s: read %d responses, then abandoned (err=%v)", f, len(got), err)
	if wd != nil {
		return "WATCHDOG abandoned Get did not return"
	}
	return ""
}

// bigBatchFault: the primary sends ONE request with thousands of operations, reads the first
// answer and is cancelled. At once - not waiting for the server to calm down - another
// session wins the election and flushes everything. Once the server is quiescent, nothing
// of the abandoned batch may be installed beyond the handful of operations that were in progress
// when the RPC ended (9.4): the rest of a batch is not applied on behalf of a session
// that no longer exists, least of all after the next primary has flushed.
func (w *world) bigBatchFault(f fault) (probs []string, harness string) {
	var st drv.Stream
	var direct *drv.ModStream
	var g *drv.GRPCModStream
	if f.transport == "direct" {
		direct = drv.OpenModify(w.srv)
		st = direct
	} else {
		var err error
		if g, err = w.gs.OpenModify(); err != nil {
			return nil, "HARNESS: " + err.Error()
		}
		st = g
	}
	s := &drv.Session{Stream: st, Name: "bulk", DefaultNI: "DEFAULT"}
	if _, err := s.Params(drv.SinglePrimary(false)); err != nil {
		return nil, "bulk session negotiation: " + err.Error()
	}
	elec := inc(w.max)
	if _, err := s.Elect(elec); err != nil {
		return nil, "bulk session election: " + err.Error()
	}
	w.max = elec
	w.m.DropHeld()
	var ops []*spb.AFTOperation
	for k := 0; k < f.cut; k++ {
		o := mkNH(w.nextOp, "VRF1", uint64(100000+k))
		w.nextOp++
		o.Op.ElectionId = elec
		ops = append(ops, o.Op)
	}
	if !st.Write(&spb.ModifyRequest{Operation: ops}) {
		return nil, "the stream did not take the large request"
	}
	if _, err := st.Read(); err != nil {
		return nil, fmt.Sprintf("first answer of the large request: %v", err)
	}
	if direct != nil {
		direct.Abort(status.Error(codes.Canceled, "context canceled"))
	} else {
		g.Cancel()
		g.Close()
	}
	// the next primary, at once
	ns := &drv.Session{Stream: drv.OpenModify(w.srv), Name: "next-primary", DefaultNI: "DEFAULT"}
	for attempt := 0; ; attempt++ {
		_, err := ns.Params(drv.SinglePrimary(false))
		if err == nil {
			break
		}
		if err == drv.ErrWatchdog {
			return nil, "WATCHDOG negotiation of the next primary after an abandoned large batch"
		}
		if attempt > 200 || status.Code(err) != codes.FailedPrecondition {
			return []string{fmt.Sprintf("probe-negotiation-rejected|after an abandoned batch of %d operations: %v", f.cut, err)}, ""
		}
		time.Sleep(500 * time.Microsecond)
		ns = &drv.Session{Stream: drv.OpenModify(w.srv), Name: "next-primary", DefaultNI: "DEFAULT"}
	}
	id := inc(w.max)
	if rep, err := ns.Elect(id); err != nil || rep.GetHigh() != id.High || rep.GetLow() != id.Low {
		if err == drv.ErrWatchdog {
			return nil, "WATCHDOG election of the next primary after an abandoned large batch"
		}
		return []string{fmt.Sprintf("probe-election-not-won|after an abandoned batch: announced %s, got %v %v", mon.IDStr(id), rep, err)}, ""
	}
	w.max = id
	if _, ferr, wd := drv.Flush(w.srv, &spb.FlushRequest{NetworkInstance: &spb.FlushRequest_All{All: &spb.Empty{}}, Election: &spb.FlushRequest_Id{Id: id}}); wd != nil {
		return nil, "WATCHDOG Flush by the next primary after an abandoned large batch"
	} else if ferr != nil {
		return []string{fmt.Sprintf("probe-flush-failed|after an abandoned batch: %v", ferr)}, ""
	}
	w.m.Flush([]string{"DEFAULT", "VRF1", "VRF2"})
	ns.CloseSend()
	if !mon.WaitQuiescent(drv.Watchdog) {
		return nil, "WATCHDOG server did not become quiescent after an abandoned large batch"
	}
	got, e := w.implContents()
	if e == "WATCHDOG" {
		return nil, "WATCHDOG Get after an abandoned large batch"
	}
	if e != "" {
		return []string{"probe-get-error|" + e}, ""
	}
	left := 0
	for _, m := range got {
		left += len(m)
	}
	w.logf("fault %s: one request of %d operations abandoned after its first answer; the next primary flushed at once; %d entries installed at quiescence", f, f.cut, left)
	// (the operation in progress, and one or two whose results the stream's writer still took
	// over before it stopped, may land after the RPC has ended - a handful, not the batch)
	if left > 8 {
		probs = append(probs, fmt.Sprintf("state-after-disconnect:abandoned-batch-applied-after-the-rpc|a request of %d operations was abandoned after its first answer and the next primary flushed everything at once, yet %d entries of the abandoned batch are installed when the server has become quiescent", f.cut, left))
	}
	// whatever little was applied late is cleared for the checks that follow
	if left > 0 {
		drv.Flush(w.srv, &spb.FlushRequest{NetworkInstance: &spb.FlushRequest_All{All: &spb.Empty{}}, Election: &spb.FlushRequest_Id{Id: id}})
	}
	return probs, ""
}

// stormFault: f.cut sessions negotiate (sequentially, so that all of them are admitted),
// then one goroutine cuts them off one by one in all termination modes while two other
// goroutines keep opening fresh sessions that negotiate and leave; the server's yield
// points around the session table are perturbed. Every negotiation must be answered
// (accepted, or rejected with FailedPrecondition because an un-negotiated newcomer is in
// the table at that moment); nothing may hang.
func (w *world) stormFault(f fault, seed int64) string {
	y := mon.NewYielder(seed, 2, 60)
	server.VerifSetPoint(y.Point)
	defer server.VerifSetPoint(nil)
	type sess struct {
		d *drv.ModStream
		g *drv.GRPCModStream
	}
	open := func() (*sess, drv.Stream, string) {
		if f.transport == "direct" {
			d := drv.OpenModify(w.srv)
			return &sess{d: d}, d, ""
		}
		g, err := w.gs.OpenModify()
		if err != nil {
			return nil, nil, "HARNESS: " + err.Error()
		}
		return &sess{g: g}, g, ""
	}
	cut := func(s *sess, mode int) {
		switch {
		case s.d != nil && mode%2 == 0:
			s.d.CloseSend()
		case s.d != nil:
			s.d.Abort(status.Error(codes.Canceled, "context canceled"))
		case mode%3 == 0:
			s.g.CloseSend()
			s.g.Close()
		case mode%3 == 1:
			s.g.Cancel()
			s.g.Close()
		default:
			s.g.Kill()
			s.g.Close()
		}
	}
	var all []*sess
	for k := 0; k < f.cut; k++ {
		s, st, e := open()
		if e != "" {
			return e
		}
		ss := &drv.Session{Stream: st, Name: fmt.Sprintf("storm%d", k), DefaultNI: "DEFAULT"}
		if _, err := ss.Params(drv.SinglePrimary(false)); err != nil {
			if err == drv.ErrWatchdog {
				return "WATCHDOG negotiation of storm session"
			}
			return "HARNESS: storm session could not negotiate: " + err.Error()
		}
		all = append(all, s)
	}
	errc := make(chan string, 3)
	stop := make(chan struct{})
	go func() { // the cutter
		for k, s := range all {
			cut(s, k)
		}
		errc <- ""
	}()
	for n := 0; n < 2; n++ {
		go func(n int) { // newcomers
			cnt := 0
			for {
				select {
				case <-stop:
					errc <- ""
					return
				default:
				}
				s, st, e := open()
				if e != "" {
					errc <- e
					return
				}
				ss := &drv.Session{Stream: st, Name: "newcomer", DefaultNI: "DEFAULT"}
				_, err := ss.Params(drv.SinglePrimary(false))
				if err == drv.ErrWatchdog {
					errc <- "WATCHDOG negotiation of a newcomer during the disconnect storm"
					return
				}
				if err != nil && status.Code(err) != codes.FailedPrecondition {
					errc <- fmt.Sprintf("PROBLEM negotiation-rejected-during-disconnect-storm|newcomer %d/%d: %v", n, cnt, err)
					return
				}
				cut(s, cnt)
				cnt++
			}
		}(n)
	}
	res := <-errc // the cutter (or an early failure of a newcomer)
	close(stop)
	for k := 0; k < 2; k++ {
		select {
		case e := <-errc:
			if res == "" {
				res = e
			}
		case <-time.After(drv.Watchdog):
			if res == "" {
				res = "WATCHDOG a newcomer's negotiation never returned during the disconnect storm"
			}
		}
	}
	w.logf("fault %s: %d sessions cut off while newcomers negotiated -> %q", f, len(all), res)
	if res != "" {
		return res
	}
	// every handler has to be gone
	deadline := time.Now().Add(drv.Watchdog)
	for len(w.srv.VerifSessions()) > 0 {
		if time.Now().After(deadline) {
			return fmt.Sprintf("PROBLEM session-footprint-not-removed|%d sessions are still in the server's table after the disconnect storm", len(w.srv.VerifSessions()))
		}
		time.Sleep(500 * time.Microsecond)
	}
	if !mon.WaitQuiescent(drv.Watchdog) {
		return "WATCHDOG server did not become quiescent after the disconnect storm"
	}
	return ""
}

// probe: a new session must be served promptly. Returns problem strings.
func (w *world) probe(label string, tie bool) (probs []string, inconclusive string) {
	st := drv.OpenModify(w.srv)
	s := &drv.Session{Stream: st, Name: "probe", DefaultNI: "DEFAULT"}
	block := func(step, needle string) {
		if ok, desc := mon.ProvenBlock(needle, 700*time.Millisecond); ok {
			probs = append(probs, fmt.Sprintf("server-wedged:%s:%s|after %s the probe's %s was never answered and the server is permanently blocked: %s", step, mon.BlockSignature(desc), label, step, desc))
		} else {
			inconclusive = fmt.Sprintf("probe %s after %s: watchdog fired without a proven block (%s)", step, label, desc)
		}
	}
	// A session that was cut off over gRPC may still be arriving at / leaving the server
	// (its handler can start after the client has gone); while it is in the session table
	// un-negotiated it counts as a session with default parameters and keeps newcomers
	// out. "Promptly" is therefore a bounded number of attempts, not the first one.
	attempts := 0
	for {
		attempts++
		_, err := s.Params(drv.SinglePrimary(false))
		if err == nil {
			break
		}
		if err == drv.ErrWatchdog {
			block("negotiation", "gribigo/server.")
			return
		}
		if attempts >= 200 || status.Code(err) != codes.FailedPrecondition {
			return []string{fmt.Sprintf("probe-negotiation-rejected|after %s a new session could not negotiate in %d attempts: %v", label, attempts, err)}, ""
		}
		time.Sleep(500 * time.Microsecond)
		st = drv.OpenModify(w.srv)
		s = &drv.Session{Stream: st, Name: "probe", DefaultNI: "DEFAULT"}
	}
	w.probeRetries += attempts - 1
	// Every other probe announces the SAME id as the highest one learnt (a controller
	// replica taking over after the session that held the role went away announces what
	// the election system gave it, which may be that very id): it becomes the primary all
	// the same, and whatever the departed session left unanswered is not its business.
	w.probeN++
	id := inc(w.max)
	if tie && w.max != nil {
		id = &spb.Uint128{High: w.max.High, Low: w.max.Low}
	}
	rep, err := s.Elect(id)
	if err != nil {
		if err == drv.ErrWatchdog {
			block("election", "gribigo/server.")
			return
		}
		return []string{fmt.Sprintf("probe-election-rejected|after %s: %v", label, err)}, ""
	}
	if rep.GetHigh() != id.High || rep.GetLow() != id.Low {
		return []string{fmt.Sprintf("probe-election-not-won|after %s the probe announced %s (model maximum %s) and was told %s", label, mon.IDStr(id), mon.IDStr(w.max), mon.IDStr(rep))}, ""
	}
	w.max = id
	w.m.DropHeld()
	// one unrelated next-hop, and the next-hop and the group the scripted session's held
	// operations were waiting for: only these may appear
	ops := []gen.OpSpec{mkNH(w.nextOp, "VRF2", 77), mkNH(w.nextOp+1, "VRF1", 1), mkNHG(w.nextOp+2, "VRF1", 2, 1), mkNH(w.nextOp+3, "DEFAULT", 1)}
	w.nextOp += 4
	sentIDs := map[uint64]bool{}
	var pbs []*spb.AFTOperation
	for _, o := range ops {
		o.Op.ElectionId = id
		pbs = append(pbs, o.Op)
		sentIDs[o.Op.GetId()] = true
	}
	res := s.Ops(pbs, id)
	if res.RPCErr == drv.ErrWatchdog {
		block("operation", "gribigo/")
		return
	}
	okN := 0
	for _, r := range res.Results {
		if !sentIDs[r.GetId()] {
			return []string{fmt.Sprintf("probe-received-foreign-result|after %s the probe session received %v for operation %d, which it never sent", label, r.GetStatus(), r.GetId())}, ""
		}
		if r.GetStatus() == spb.AFTResult_RIB_PROGRAMMED {
			okN++
		}
	}
	if okN != len(ops) {
		return []string{fmt.Sprintf("probe-operation-not-programmed|after %s: results %v err %v", label, res.Results, res.RPCErr)}, ""
	}
	for _, o := range ops[:len(ops)-1] {
		w.m.Predict(o)
	}
	op := ops[len(ops)-1]
	w.m.Predict(op)
	got, e := w.implContents()
	if e == "WATCHDOG" {
		block("get", "gribigo/")
		return
	}
	if e != "" {
		return []string{"probe-get-error|" + e}, ""
	}
	for _, d := range canon.Diff(w.m.Contents(), got) {
		probs = append(probs, fmt.Sprintf("probe-get-contents:%s|after %s: %s", strings.Fields(d)[0], label, d))
	}
	resp, ferr, wd := drv.Flush(w.srv, &spb.FlushRequest{NetworkInstance: &spb.FlushRequest_All{All: &spb.Empty{}}, Election: &spb.FlushRequest_Id{Id: id}})
	if wd != nil {
		block("flush", "gribigo/")
		return
	}
	if ferr != nil || resp.GetResult() != spb.FlushResponse_OK {
		probs = append(probs, fmt.Sprintf("probe-flush-failed|after %s: %v %v", label, resp, ferr))
	}
	w.m.Flush([]string{"DEFAULT", "VRF1", "VRF2"})
	got, e = w.implContents()
	if e == "" && got.Count() != 0 {
		probs = append(probs, fmt.Sprintf("probe-flush-left-entries|%d entries", got.Count()))
	}
	s.CloseSend()
	st.WaitEnd()
	return
}

func TestChild(t *testing.T) {
	sp, ok := child.IsChild()
	if !ok {
		t.Skip("not a child")
	}
	wr, err := child.NewWriter()
	if err != nil {
		t.Fatal(err)
	}
	defer wr.Close()
	drv.Watchdog = 20 * time.Second
	glog.SetStall(func() { time.Sleep(30 * time.Microsecond) }) // logging can hold a goroutine up
	run := &ev.Run{Prop: "C10", Tier: sp.Tier, Seed: sp.Seed}
	cs := cases(run)
	var lo, hi int
	fmt.Sscanf(sp.Arg, "%d:%d", &lo, &hi)
	for _, c := range cs[lo:hi] {
		if sp.Case != "" && c.id != sp.Case {
			continue
		}
		wr.InFlight(c.id)
		if strings.HasPrefix(c.id, "device-") {
			var trace []string
			dr := rand.New(rand.NewSource(sp.Seed*104729 + hashID(c.id)))
			probs, inconcl := deviceCase(dr, func(f string, a ...any) { trace = append(trace, fmt.Sprintf(f, a...)) })
			for _, p := range probs {
				sig, txt := mon.SplitSig(p)
				if sig == "HARNESS" {
					wr.Record(map[string]any{"kind": "inconclusive", "case": c.id, "text": "harness: " + txt})
					continue
				}
				wr.Record(map[string]any{"kind": "problem", "case": c.id, "sig": sig, "text": txt, "trace": trace})
			}
			if inconcl != "" {
				wr.Record(map[string]any{"kind": "inconclusive", "case": c.id, "text": inconcl})
			}
			np := 0
			if len(probs) == 0 && inconcl == "" {
				np = 1
			}
			wr.Record(map[string]any{"kind": "case", "case": c.id, "faults": 1, "probes": np, "compares": 0, "kinds": []string{"device/tcp+tls/mixed"}, "retries": 0})
			continue
		}
		r := rand.New(rand.NewSource(sp.Seed*7919 + int64(len(c.id))))
		g := gen.New(r)
		g.S.Default = server.DefaultNetworkInstanceName
		srv, err := drv.NewServer(g.S.NIs[1:])
		if err != nil {
			t.Fatal(err)
		}
		w := &world{srv: srv, gs: drv.Serve(srv), m: model.NewRIB(g.S.Default, g.S.NIs, false), nextOp: 1000, g: g}
		var probs []string
		inconcl := ""
		kinds := map[string]bool{}
		nFaults, nProbes, nCompares := 0, 0, 0
		for fi, f := range c.faults {
			if len(probs) > 0 || inconcl != "" {
				break
			}
			// pre-existing content installed by an earlier primary
			pre := drv.OpenModify(srv)
			ps := &drv.Session{Stream: pre, Name: "setup", DefaultNI: g.S.Default}
			if _, err := ps.Params(drv.SinglePrimary(false)); err != nil {
				probs = append(probs, "HARNESS|setup params: "+err.Error())
				break
			}
			id := inc(w.max)
			if _, err := ps.Elect(id); err != nil {
				probs = append(probs, "HARNESS|setup election: "+err.Error())
				break
			}
			w.max = id
			w.m.DropHeld()
			for k := 0; k < 3; k++ {
				o := mkNH(w.nextOp, g.S.NIs[k%3], uint64(50+fi*10+k))
				w.nextOp++
				o.Op.ElectionId = id
				ps.Ops([]*spb.AFTOperation{o.Op}, id)
				w.m.Predict(o)
			}
			ps.CloseSend()
			pre.WaitEnd()

			kinds[f.kind+"/"+f.transport+"/"+f.mode] = true
			nFaults++
			label := f.String()
			switch f.kind {
			case "modify":
				cands, e := w.modifyFault(f)
				if strings.HasPrefix(e, "WATCHDOG") {
					if ok, desc := mon.ProvenBlock("gribigo/server.", 700*time.Millisecond); ok {
						probs = append(probs, fmt.Sprintf("server-wedged:disconnect:%s|%s: %s", mon.BlockSignature(desc), e, desc))
					} else {
						inconcl = e
					}
					break
				}
				if e != "" {
					probs = append(probs, "HARNESS|"+e)
					break
				}
				got, ge := w.implContents()
				if ge == "WATCHDOG" {
					if ok, desc := mon.ProvenBlock("gribigo/", 700*time.Millisecond); ok {
						probs = append(probs, fmt.Sprintf("server-wedged:get:%s|after %s a Get from a fresh stream never returned: %s", mon.BlockSignature(desc), label, desc))
					} else {
						inconcl = "Get after " + label + ": watchdog without proven block"
					}
					break
				}
				eid, _ := srv.VerifElection()
				matched := false
				for _, cnd := range cands {
					if len(canon.Diff(cnd.m.Contents(), got)) == 0 && mon.IDStr(eid) == mon.IDStr(cnd.max) {
						w.m, w.max = cnd.m, cnd.max
						matched = true
						w.logf("state after the fault = %d script units (messages/operations) processed", cnd.j)
						break
					}
				}
				nCompares++
				if !matched {
					last := cands[len(cands)-1]
					d := canon.Diff(last.m.Contents(), got)
					sig := "state-after-disconnect"
					if len(d) > 0 {
						sig += ":contents-" + strings.Fields(d[0])[0]
					} else {
						sig += ":election-id"
					}
					probs = append(probs, fmt.Sprintf("%s|after %s the server state matches none of the %d acceptable states; vs all-processed: %v; highest id %s (acceptable up to %s)", sig, label, len(cands), d, mon.IDStr(eid), mon.IDStr(last.max)))
				}
			case "bigbatch":
				p, e := w.bigBatchFault(f)
				probs = append(probs, p...)
				if strings.HasPrefix(e, "WATCHDOG") {
					inconcl = e
				} else if e != "" {
					probs = append(probs, "HARNESS|"+e)
				}
				nCompares++
			case "storm":
				e := w.stormFault(f, int64(len(c.id))+sp.Seed)
				if strings.HasPrefix(e, "WATCHDOG") {
					if ok, desc := mon.ProvenBlock("gribigo/server.", 700*time.Millisecond); ok {
						probs = append(probs, fmt.Sprintf("server-wedged:disconnect-storm:%s|%s: %s", mon.BlockSignature(desc), e, desc))
					} else {
						inconcl = e
					}
					break
				}
				if strings.HasPrefix(e, "PROBLEM ") {
					probs = append(probs, e[8:])
					break
				}
				if e != "" {
					probs = append(probs, "HARNESS|"+e)
					break
				}
				eid, _ := srv.VerifElection()
				if mon.IDStr(eid) != mon.IDStr(w.max) {
					probs = append(probs, fmt.Sprintf("state-after-disconnect-storm:election-id|%s vs %s", mon.IDStr(eid), mon.IDStr(w.max)))
				}
				rc, _ := srv.VerifRIB().RIBContents()
				for _, d := range canon.Diff(w.m.Contents(), canon.FromYgot(rc)) {
					probs = append(probs, fmt.Sprintf("state-after-disconnect-storm:contents-%s|%s", strings.Fields(d)[0], d))
				}
				nCompares++
			case "get":
				e := w.getFault(f)
				if strings.HasPrefix(e, "WATCHDOG") {
					inconcl = e
					break
				}
				if e != "" {
					probs = append(probs, "HARNESS|"+e)
					break
				}
				eid, _ := srv.VerifElection()
				if mon.IDStr(eid) != mon.IDStr(w.max) {
					probs = append(probs, fmt.Sprintf("state-after-abandoned-get:election-id|%s vs %s", mon.IDStr(eid), mon.IDStr(w.max)))
				}
				rc, _ := srv.VerifRIB().RIBContents()
				for _, d := range canon.Diff(w.m.Contents(), canon.FromYgot(rc)) {
					probs = append(probs, fmt.Sprintf("state-after-abandoned-get:contents-%s|%s", strings.Fields(d)[0], d))
				}
				nCompares++
			}
			if len(probs) == 0 && inconcl == "" {
				p, inc := w.probe(label, c.tie[fi])
				probs = append(probs, p...)
				inconcl = inc
				if len(p) == 0 && inc == "" {
					nProbes++
				}
			}
		}
		w.gs.Stop()
		for _, p := range probs {
			sig, txt := mon.SplitSig(p)
			if sig == "HARNESS" {
				wr.Record(map[string]any{"kind": "inconclusive", "case": c.id, "text": "harness: " + txt})
				continue
			}
			wr.Record(map[string]any{"kind": "problem", "case": c.id, "sig": sig, "text": txt, "trace": w.trace})
		}
		if inconcl != "" {
			wr.Record(map[string]any{"kind": "inconclusive", "case": c.id, "text": inconcl})
		}
		var ks []string
		for k := range kinds {
			ks = append(ks, k)
		}
		rec := map[string]any{"kind": "case", "case": c.id, "faults": nFaults, "probes": nProbes, "compares": nCompares, "kinds": ks, "retries": w.probeRetries}
		if lo == 0 && len(w.trace) > 0 && c.id == cs[0].id {
			rec["trace"] = w.trace
		}
		wr.Record(rec)
	}
}

func hashID(s string) int64 {
	var h int64 = 1469598103
	for i := 0; i < len(s); i++ {
		h = h*16777619 ^ int64(s[i])
	}
	if h < 0 {
		h = -h
	}
	return h
}
