package c19

import (
	"fmt"
	"strings"

	"google.golang.org/grpc/codes"
	"google.golang.org/grpc/status"

	spb "github.com/openconfig/gribi/v1/proto/service"
)

func (st *sessState) lastElec() *spb.Uint128 {
	if st.lastReq == nil {
		return nil
	}
	return st.lastReq.GetElectionId()
}

// fib reports whether the session negotiated FIB acknowledgements (learnt from its first request).
func (st *sessState) fib() bool { return false }

func itoa(u uint64) string { return fmt.Sprint(u) }

func keyOf(op *spb.AFTOperation) string {
	k := op.GetNetworkInstance() + "|"
	switch e := op.GetEntry().(type) {
	case *spb.AFTOperation_Ipv4:
		return k + "v4:" + e.Ipv4.GetPrefix()
	case *spb.AFTOperation_Ipv6:
		return k + "v6:" + e.Ipv6.GetPrefix()
	case *spb.AFTOperation_Mpls:
		return k + "mpls:" + fmt.Sprint(e.Mpls.GetLabelUint64())
	case *spb.AFTOperation_NextHopGroup:
		return k + "nhg:" + fmt.Sprint(e.NextHopGroup.GetId())
	case *spb.AFTOperation_NextHop:
		return k + "nh:" + fmt.Sprint(e.NextHop.GetIndex())
	}
	return k + "?"
}

func isInvalidNI(err error) bool {
	return status.Code(err) == codes.InvalidArgument && strings.Contains(err.Error(), "network instance")
}
