package mon

import (
	"fmt"
	"math/big"
	"sort"
	"strings"

	"github.com/openconfig/gribigo/server"
	"google.golang.org/grpc/codes"
	"google.golang.org/grpc/status"

	spb "github.com/openconfig/gribi/v1/proto/service"

	"verifharness/canon"
	"verifharness/drv"
	"verifharness/gen"
	"verifharness/model"
)

// Big128 converts an election id to a big integer (high word most significant).
func Big128(u *spb.Uint128) *big.Int {
	b := new(big.Int).SetUint64(u.GetHigh())
	b.Lsh(b, 64)
	return b.Add(b, new(big.Int).SetUint64(u.GetLow()))
}

// IDStr renders an election id.
func IDStr(u *spb.Uint128) string {
	if u == nil {
		return "nil"
	}
	return fmt.Sprintf("(%d,%d)", u.High, u.Low)
}

func idEq(a, b *spb.Uint128) bool {
	if a == nil || b == nil {
		return a == b
	}
	return a.High == b.High && a.Low == b.Low
}

// SS is the model's view of one Modify session.
type SS struct {
	Name   string
	S      *drv.Session
	St     *drv.ModStream // nil for gRPC sessions
	UUID   string
	Open   bool
	GotMsg bool
	// Negotiated: parameters were accepted (SINGLE_PRIMARY/PRESERVE, FIB says which ack).
	Negotiated bool
	FIB        bool
	Last       *spb.Uint128
	Prev       *spb.Uint128
	// Sent / answered operation ids on this stream (result accounting, C06).
	Sent     map[uint64]bool
	Terminal map[uint64][]spb.AFTResult_Status
}

// SessWorld drives a real server and the session/election/RIB model in lock step.
type SessWorld struct {
	Srv   *server.Server
	GS    *drv.GRPCServer // non-nil: sessions run over real gRPC
	X     *RIBMon
	Sess  []*SS
	Max   *spb.Uint128
	Prim  *SS
	Trace []string
	// StrictNoElectionID: an operation that carries no election id must end the RPC
	// (C09's statement); otherwise an in-band FAILED is accepted as well (C04's).
	StrictNoElectionID bool
	// LastCascade accumulates the number of held operations released (evidence).
	LastCascade int
	n           int
	// HeldOwner records which session's operation is held under an id (operation ids are
	// only unique per stream: a rejected operation of another session may reuse the id).
	HeldOwner map[uint64]*SS
}

// NewSessWorld creates a server with the space's VRFs and an empty model.
func NewSessWorld(s gen.Space, noFwdRef bool, grpc bool) (*SessWorld, error) {
	var opts []server.ServerOpt
	if noFwdRef {
		opts = append(opts, server.WithNoRIBForwardReferences())
	}
	srv, err := drv.NewServer(s.NIs[1:], opts...)
	if err != nil {
		return nil, err
	}
	w := &SessWorld{Srv: srv, X: &RIBMon{R: srv.VerifRIB(), M: model.NewRIB(s.Default, s.NIs, noFwdRef), CheckHeld: true, CheckRefs: true}}
	if grpc {
		w.GS = drv.Serve(srv)
	}
	return w, nil
}

// Close releases transports.
func (w *SessWorld) Close() {
	for _, s := range w.Sess {
		if s.Open {
			s.S.CloseSend()
		}
	}
	if w.GS != nil {
		w.GS.Stop()
	}
	// a gRPC session owns a client connection (two 1 MB in-memory pipes, reconnecting in
	// the background once the server has gone): release it
	for _, s := range w.Sess {
		if g, ok := s.S.Stream.(*drv.GRPCModStream); ok {
			g.Close()
		}
	}
}

func (w *SessWorld) logf(f string, a ...any) {
	w.Trace = append(w.Trace, fmt.Sprintf(f, a...))
	w.X.Trace = w.Trace
}

func (w *SessWorld) uuids() map[string]bool {
	m := map[string]bool{}
	for _, v := range w.Srv.VerifSessions() {
		m[v.ID] = true
	}
	return m
}

// Connect opens a new session and learns its server-side id from the session table.
func (w *SessWorld) Connect() (*SS, []string) {
	before := w.uuids()
	w.n++
	ss := &SS{Name: fmt.Sprintf("s%d", w.n), Open: true, Sent: map[uint64]bool{}, Terminal: map[uint64][]spb.AFTResult_Status{}}
	if w.GS != nil {
		st, err := w.GS.OpenModify()
		if err != nil {
			return nil, []string{"HARNESS|cannot open grpc stream: " + err.Error()}
		}
		ss.S = &drv.Session{Stream: st, Name: ss.Name, DefaultNI: w.X.M.Default}
	} else {
		ss.St = drv.OpenModify(w.Srv)
		ss.S = &drv.Session{Stream: ss.St, Name: ss.Name, DefaultNI: w.X.M.Default}
	}
	// the session is registered by the handler goroutine: wait for it to appear
	for i := 0; i < 200000; i++ {
		for id := range w.uuids() {
			if !before[id] {
				ss.UUID = id
			}
		}
		if ss.UUID != "" {
			break
		}
		yield()
	}
	w.Sess = append(w.Sess, ss)
	w.logf("%s connects", ss.Name)
	if ss.UUID == "" {
		return ss, []string{"session-not-registered|a new Modify stream did not appear in the session table"}
	}
	return ss, nil
}

// Expect describes the acceptable outcomes of a message that must end the RPC.
type Expect struct {
	Codes    []codes.Code
	Reasons  []spb.ModifyRPCErrorDetails_Reason // empty = not asserted
	AnyNonOK bool
}

func (e Expect) String() string {
	if e.AnyNonOK {
		return "any non-OK status"
	}
	return fmt.Sprintf("codes %v reasons %v", e.Codes, e.Reasons)
}

// CheckStatus judges the status an RPC ended with.
func (e Expect) CheckStatus(err error) string {
	if err == nil {
		return "RPC ended with OK"
	}
	st, ok := status.FromError(err)
	if !ok {
		return fmt.Sprintf("RPC ended with a non-status error %v", err)
	}
	if st.Code() == codes.OK {
		return "RPC ended with OK"
	}
	if e.AnyNonOK {
		return ""
	}
	okc := false
	for _, c := range e.Codes {
		if st.Code() == c {
			okc = true
		}
	}
	if !okc {
		return fmt.Sprintf("status code %s not in %v (%s)", st.Code(), e.Codes, st.Message())
	}
	if len(e.Reasons) == 0 {
		return ""
	}
	var got []string
	for _, d := range st.Details() {
		if md, ok := d.(*spb.ModifyRPCErrorDetails); ok {
			for _, r := range e.Reasons {
				if md.GetReason() == r {
					return ""
				}
			}
			got = append(got, md.GetReason().String())
		}
	}
	return fmt.Sprintf("status %s carries reasons %v, want one of %v", st.Code(), got, e.Reasons)
}

// endRPC reads until the RPC has ended and returns its status error (nil = OK).
func (w *SessWorld) endRPC(s *SS) (error, bool) {
	for i := 0; i < 64; i++ {
		_, err := s.S.Read()
		if err == drv.ErrWatchdog {
			return nil, false
		}
		if err != nil {
			s.Open = false
			if err.Error() == "EOF" {
				return nil, true
			}
			return err, true
		}
	}
	return nil, false
}

// mustEnd: the message just sent must terminate the RPC as described; resp is what Exchange returned.
func (w *SessWorld) mustEnd(s *SS, what string, resp *spb.ModifyResponse, err error, e Expect, sigClass string) []string {
	if err == drv.ErrWatchdog {
		return []string{"INCONCLUSIVE|" + what + ": no reply within the watchdog"}
	}
	if err == nil {
		// a response arrived instead of termination
		return []string{fmt.Sprintf("violation-accepted:%s|%s on %s was answered %v instead of ending the RPC (%s)", sigClass, what, s.Name, resp, e)}
	}
	s.Open = false
	if s == w.Prim {
		// the primary role is not given to anyone else by a disconnect
	}
	if err.Error() == "EOF" {
		err = nil
	}
	if msg := e.CheckStatus(err); msg != "" {
		code := codes.OK
		if err != nil {
			code = status.Code(err)
		}
		return []string{fmt.Sprintf("wrong-termination-status:%s:%s|%s on %s: %s", sigClass, code, what, s.Name, msg)}
	}
	if !e.AnyNonOK && err != nil && !NoDetailsClasses[sigClass] {
		if n := errorDetails(err); n != 1 {
			return []string{fmt.Sprintf("wrong-termination-status:%s:%d-error-details|%s on %s ended with %v, which carries %d ModifyRPCErrorDetails messages instead of one", sigClass, n, what, s.Name, err, n)}
		}
	}
	return nil
}

// errorDetails counts the ModifyRPCErrorDetails messages of a status: the status of a
// protocol violation carries one (whose reason may be the zero value where the
// specification names none).
func errorDetails(err error) int {
	n := 0
	if st, ok := status.FromError(err); ok {
		for _, d := range st.Details() {
			if _, ok := d.(*spb.ModifyRPCErrorDetails); ok {
				n++
			}
		}
	}
	return n
}

// NoDetailsClasses lists the violation classes whose status carries no
// ModifyRPCErrorDetails: a malformed message (INVALID_ARGUMENT: several fields populated,
// zero election id), for which the specification defines no reason.
var NoDetailsClasses = map[string]bool{"multi-field": true, "bad-election": true}

// ParamsClass classifies a SessionParameters message.
func ParamsSupported(p *spb.SessionParameters) bool {
	return p.GetRedundancy() == spb.SessionParameters_SINGLE_PRIMARY && p.GetPersistence() == spb.SessionParameters_PRESERVE
}

// SendParams sends session parameters on s and checks the outcome.
func (w *SessWorld) SendParams(s *SS, p *spb.SessionParameters) []string {
	what := fmt.Sprintf("params{%s,%s,%s}", p.GetRedundancy(), p.GetPersistence(), p.GetAckType())
	resp, err := s.S.Exchange(&spb.ModifyRequest{Params: p})
	w.logf("%s sends %s -> %v %v", s.Name, what, resp, errStr(err))
	first := !s.GotMsg
	s.GotMsg = true
	if !first {
		return w.mustEnd(s, what+" (not the first message)", resp, err, Expect{Codes: []codes.Code{codes.FailedPrecondition}, Reasons: []spb.ModifyRPCErrorDetails_Reason{spb.ModifyRPCErrorDetails_MODIFY_NOT_ALLOWED}}, "late-params")
	}
	fib := p.GetAckType() == spb.SessionParameters_RIB_AND_FIB_ACK
	// consistency with the other live sessions
	differsNegotiated, differsDefault := false, false
	for _, o := range w.Sess {
		if o == s || !o.Open {
			continue
		}
		if o.Negotiated {
			if o.FIB != fib || !ParamsSupported(p) {
				differsNegotiated = true
			}
		} else {
			// an un-negotiated live session has the default parameters (ALL_PRIMARY/DELETE/RIB_ACK):
			// whether it constrains newcomers is left open (DESIGN 4.20)
			differsDefault = true
		}
	}
	var e Expect
	reject := false
	if !ParamsSupported(p) {
		reject = true
		e.Codes = append(e.Codes, codes.Unimplemented, codes.FailedPrecondition)
		e.Reasons = append(e.Reasons, spb.ModifyRPCErrorDetails_UNSUPPORTED_PARAMS)
	}
	if differsNegotiated {
		reject = true
		e.Codes = append(e.Codes, codes.FailedPrecondition)
		e.Reasons = append(e.Reasons, spb.ModifyRPCErrorDetails_PARAMS_DIFFER_FROM_OTHER_CLIENTS)
	}
	if reject {
		if differsDefault {
			e.Codes = append(e.Codes, codes.FailedPrecondition)
			e.Reasons = append(e.Reasons, spb.ModifyRPCErrorDetails_PARAMS_DIFFER_FROM_OTHER_CLIENTS)
		}
		return w.mustEnd(s, what, resp, err, e, "bad-params")
	}
	if differsDefault && err != nil && err != drv.ErrWatchdog {
		// acceptable reading: the un-negotiated session counts as default parameters
		return w.mustEnd(s, what, resp, err, Expect{Codes: []codes.Code{codes.FailedPrecondition}, Reasons: []spb.ModifyRPCErrorDetails_Reason{spb.ModifyRPCErrorDetails_PARAMS_DIFFER_FROM_OTHER_CLIENTS}}, "params-vs-unnegotiated")
	}
	if err != nil {
		s.Open = false
		if err == drv.ErrWatchdog {
			return []string{"INCONCLUSIVE|" + what + ": no reply within the watchdog"}
		}
		return []string{fmt.Sprintf("valid-params-rejected|%s on %s: %v", what, s.Name, err)}
	}
	if resp.GetSessionParamsResult().GetStatus() != spb.SessionParametersResult_OK || resp.GetElectionId() != nil || len(resp.GetResult()) != 0 {
		return []string{fmt.Sprintf("params-response-malformed|%v", resp)}
	}
	s.Negotiated, s.FIB = true, fib
	return nil
}

// SendElection announces id on s and checks the outcome.
func (w *SessWorld) SendElection(s *SS, id *spb.Uint128) []string {
	what := "election" + IDStr(id)
	resp, err := s.S.Exchange(&spb.ModifyRequest{ElectionId: id})
	w.logf("%s sends %s -> %v %v", s.Name, what, resp, errStr(err))
	s.GotMsg = true
	zero := id.GetHigh() == 0 && id.GetLow() == 0
	var e Expect
	reject := false
	if !s.Negotiated {
		reject = true
		e.Codes = append(e.Codes, codes.FailedPrecondition)
		e.Reasons = append(e.Reasons, spb.ModifyRPCErrorDetails_ELECTION_ID_IN_ALL_PRIMARY)
	}
	if zero {
		if reject {
			e.Reasons = nil // two applicable statuses: codes only
		}
		reject = true
		e.Codes = append(e.Codes, codes.InvalidArgument)
	}
	if reject {
		return w.mustEnd(s, what, resp, err, e, "bad-election")
	}
	if err != nil {
		s.Open = false
		if err == drv.ErrWatchdog {
			return []string{"INCONCLUSIVE|" + what + ": no reply within the watchdog"}
		}
		return []string{fmt.Sprintf("valid-election-rejected|%s on %s: %v", what, s.Name, err)}
	}
	s.Prev, s.Last = s.Last, id
	if w.Max == nil || Big128(id).Cmp(Big128(w.Max)) >= 0 {
		if w.Prim != s {
			w.onPrimaryChange(w.Prim, s)
		}
		w.Max, w.Prim = id, s
	}
	if !idEq(resp.GetElectionId(), w.Max) || len(resp.GetResult()) != 0 || resp.GetSessionParamsResult() != nil {
		return []string{fmt.Sprintf("election-response-not-running-max|%s announced %s, reply %v, maximum so far %s", s.Name, IDStr(id), resp, IDStr(w.Max))}
	}
	return nil
}

// Orphans are held operations whose session lost the primary role or ended: they may
// stay unanswered and without effect, or be answered on their own stream later.
func (w *SessWorld) onPrimaryChange(old, new *SS) {
	// nothing to do eagerly: the comparison of the pending set tolerates either policy (see CompareState)
}

// OpStamp selects the election id stamped on an operation.
type OpStamp int

const (
	StampLast OpStamp = iota
	StampMax
	StampStale
	StampFuture
	StampOther
	StampAbsent
	NumStamps
)

func (o OpStamp) String() string {
	return [...]string{"own-last", "server-max", "stale", "future", "other-session", "absent"}[o]
}

// StampFor returns the id for the stamp choice (nil = absent / unavailable).
func (w *SessWorld) StampFor(s *SS, st OpStamp) *spb.Uint128 {
	switch st {
	case StampLast:
		return s.Last
	case StampMax:
		return w.Max
	case StampStale:
		if s.Prev != nil {
			return s.Prev
		}
		if w.Max != nil && (w.Max.Low > 1 || w.Max.High > 0) {
			b := new(big.Int).Sub(Big128(w.Max), big.NewInt(1))
			return fromBig(b)
		}
		return nil
	case StampFuture:
		if w.Max != nil {
			return fromBig(new(big.Int).Add(Big128(w.Max), big.NewInt(1)))
		}
		return &spb.Uint128{Low: 77}
	case StampOther:
		for _, o := range w.Sess {
			if o != s && o.Last != nil {
				return o.Last
			}
		}
		return nil
	}
	return nil
}

func fromBig(b *big.Int) *spb.Uint128 {
	mask := new(big.Int).SetUint64(^uint64(0))
	lo := new(big.Int).And(b, mask).Uint64()
	hi := new(big.Int).And(new(big.Int).Rsh(b, 64), mask).Uint64()
	return &spb.Uint128{High: hi, Low: lo}
}

// OpVerdict is the model's classification of one operation w.r.t. session state.
type OpVerdict int

const (
	OpApply      OpVerdict = iota // goes to the RIB: judged by the RIB model
	OpFailInBand                  // FAILED in-band (or RPC termination), no effect
	OpEndsRPC                     // RPC termination with the given expectation (in-band FAILED also accepted where noted)
)

// ClassifyOp decides what must happen to an operation stamped with id on s.
func (w *SessWorld) ClassifyOp(s *SS, id *spb.Uint128) (OpVerdict, Expect, bool, string) {
	switch {
	case !s.Negotiated:
		e := Expect{Codes: []codes.Code{codes.Unimplemented}, Reasons: []spb.ModifyRPCErrorDetails_Reason{spb.ModifyRPCErrorDetails_UNSUPPORTED_PARAMS}}
		if id != nil {
			e.Codes = append(e.Codes, codes.FailedPrecondition)
			e.Reasons = append(e.Reasons, spb.ModifyRPCErrorDetails_ELECTION_ID_IN_ALL_PRIMARY)
		}
		return OpEndsRPC, e, false, "operation on a session that has not negotiated SINGLE_PRIMARY"
	case id == nil:
		return OpEndsRPC, Expect{AnyNonOK: true}, !w.StrictNoElectionID, "operation without election id"
	case s.Last == nil || w.Max == nil:
		return OpEndsRPC, Expect{AnyNonOK: true}, true, "operation before the session announced an id"
	case Big128(id).Cmp(Big128(w.Max)) > 0:
		return OpEndsRPC, Expect{AnyNonOK: true}, true, "operation stamped with an id above the server's maximum"
	case s != w.Prim:
		return OpFailInBand, Expect{}, true, "session is not the primary"
	case !idEq(id, s.Last):
		return OpFailInBand, Expect{}, true, "stamp differs from the session's last announced id"
	case !idEq(id, w.Max):
		return OpFailInBand, Expect{}, true, "stamp is below the server's maximum"
	}
	return OpApply, Expect{}, false, ""
}

// SendOps sends a batch on s with a trailing barrier and judges every result.
// All operations of one batch carry the same stamp choice.
func (w *SessWorld) SendOps(s *SS, specs []gen.OpSpec, stamp *spb.Uint128) []string {
	var probs []string
	ops := make([]*spb.AFTOperation, len(specs))
	for i := range specs {
		specs[i].Op.ElectionId = stamp
		ops[i] = specs[i].Op
		s.Sent[specs[i].Op.GetId()] = true
	}
	verdict, exp, inBandOK, why := w.ClassifyOp(s, stamp)
	s.GotMsg = true
	barrierStamp := stamp
	res := s.S.Ops(ops, barrierStamp)
	var txt []string
	for _, sp := range specs {
		txt = append(txt, sp.String())
	}
	w.logf("%s sends ops stamped %s [%s] -> results=%s rpcErr=%v", s.Name, IDStr(stamp), strings.Join(txt, "; "), resultsStr(res.Results), errStr(res.RPCErr))
	if res.RPCErr == drv.ErrWatchdog {
		return []string{"INCONCLUSIVE|operations on " + s.Name + ": no barrier answer within the watchdog"}
	}
	if res.Unanswered > 0 {
		probs = append(probs, fmt.Sprintf("operation-without-response|%s: %d operations produced no ModifyResponse although the RPC stayed up", s.Name, res.Unanswered))
	}
	if len(res.Other) > 0 {
		probs = append(probs, fmt.Sprintf("unsolicited-response|%s received non-result responses while operating: %v", s.Name, res.Other))
	}
	// group results per id, in order
	per := map[uint64][]spb.AFTResult_Status{}
	var order []uint64
	for _, r := range res.Results {
		if _, ok := per[r.GetId()]; !ok {
			order = append(order, r.GetId())
		}
		per[r.GetId()] = append(per[r.GetId()], r.GetStatus())
	}
	for id, sts := range per {
		if !s.Sent[id] {
			probs = append(probs, fmt.Sprintf("result-for-operation-not-sent-on-this-stream|%s received %v for operation %d which it never sent", s.Name, sts, id))
		}
		s.Terminal[id] = append(s.Terminal[id], sts...)
	}

	switch verdict {
	case OpEndsRPC, OpFailInBand:
		// no operation may take effect; each is FAILED in-band, or the RPC ends
		for _, sp := range specs {
			sts := per[sp.Op.GetId()]
			for _, st := range sts {
				if st != spb.AFTResult_FAILED {
					probs = append(probs, fmt.Sprintf("unauthorised-operation-acknowledged:%s|%s: %s answered %s although %s", strings.ReplaceAll(why, " ", "-"), s.Name, sp, st, why))
				}
			}
		}
		if res.RPCErr != nil {
			s.Open = false
			if verdict == OpFailInBand {
				// termination instead of in-band failure is tolerated by C04
			}
			var err error = res.RPCErr
			if err.Error() == "EOF" {
				err = nil
			}
			if msg := exp.CheckStatus(err); msg != "" && verdict == OpEndsRPC {
				probs = append(probs, fmt.Sprintf("wrong-termination-status:bad-operation:%s|%s (%s): %s", status.Code(res.RPCErr), s.Name, why, msg))
			}
			if verdict == OpEndsRPC && err != nil && status.Code(err) == codes.FailedPrecondition {
				if n := errorDetails(err); n != 1 {
					probs = append(probs, fmt.Sprintf("wrong-termination-status:bad-operation:%d-error-details|%s (%s): the RPC ended with %v, which carries %d ModifyRPCErrorDetails messages instead of one", n, s.Name, why, err, n))
				}
			}
		} else {
			if verdict == OpEndsRPC && !inBandOK {
				probs = append(probs, fmt.Sprintf("violation-accepted:%s|%s: %s, but the RPC continued (results %s)", strings.ReplaceAll(why, " ", "-"), s.Name, why, resultsStr(res.Results)))
			}
			for _, sp := range specs {
				if len(per[sp.Op.GetId()]) == 0 {
					probs = append(probs, fmt.Sprintf("unauthorised-operation-unanswered|%s: %s got no result although the RPC continued (%s)", s.Name, sp, why))
				}
			}
		}
		return probs
	}

	// OpApply: judged by the RIB model, one operation at a time. The server answers each
	// operation with exactly one ModifyResponse (its own verdict first, then the held
	// operations it released; empty if the operation is held), so response i belongs to
	// operation i of the batch.
	if res.RPCErr != nil {
		s.Open = false
		probs = append(probs, fmt.Sprintf("rpc-ended-on-authorised-operations|%s: %v", s.Name, res.RPCErr))
		return probs
	}
	if len(res.PerResponse) != len(specs) {
		probs = append(probs, fmt.Sprintf("response-count-mismatch|%s sent %d operations and received %d responses before the barrier: %s", s.Name, len(specs), len(res.PerResponse), resultsStr(res.Results)))
		return probs
	}
	for i, sp := range specs {
		oks, fails := w.split(s, res.PerResponse[i], &probs)
		if _, known := w.X.M.NI[sp.NI]; !known || sp.NI == "" {
			if len(oks) != 0 || len(fails) != 1 || fails[0] != sp.Op.GetId() {
				probs = append(probs, fmt.Sprintf("unknown-ni-not-failed-once|%s: %s answered oks=%v fails=%v", s.Name, sp, oks, fails))
			}
			continue
		}
		r := w.X.M.Step(sp, oks, fails)
		probs = append(probs, r.Problems...)
		w.LastCascade += r.Cascade
		if _, held := w.X.M.Held[sp.Op.GetId()]; held {
			if w.HeldOwner == nil {
				w.HeldOwner = map[uint64]*SS{}
			}
			w.HeldOwner[sp.Op.GetId()] = s
		}
	}
	return probs
}

// SendOpsMixed sends ONE request whose operations carry individual stamps (the
// election check is per operation, not per request). Only stamps that are judged
// in-band (applied, or FAILED without ending the RPC) are mixed: if any of them would
// end the RPC, what happens to the operations behind it in the same request is not
// determined by the property, and the whole batch falls back to the first stamp.
func (w *SessWorld) SendOpsMixed(s *SS, specs []gen.OpSpec, stamps []*spb.Uint128) []string {
	uniform := true
	verdicts := make([]OpVerdict, len(specs))
	whys := make([]string, len(specs))
	for i, st := range stamps {
		v, _, _, why := w.ClassifyOp(s, st)
		verdicts[i], whys[i] = v, why
		if v == OpEndsRPC {
			return w.SendOps(s, specs, stamps[0])
		}
		if !idEq(st, stamps[0]) {
			uniform = false
		}
	}
	if uniform {
		return w.SendOps(s, specs, stamps[0])
	}
	var probs []string
	ops := make([]*spb.AFTOperation, len(specs))
	var txt []string
	for i := range specs {
		specs[i].Op.ElectionId = stamps[i]
		ops[i] = specs[i].Op
		s.Sent[specs[i].Op.GetId()] = true
		txt = append(txt, fmt.Sprintf("%s stamped %s", specs[i].String(), IDStr(stamps[i])))
	}
	s.GotMsg = true
	res := s.S.Ops(ops, s.Last)
	w.logf("%s sends one request with mixed stamps [%s] -> results=%s rpcErr=%v", s.Name, strings.Join(txt, "; "), resultsStr(res.Results), errStr(res.RPCErr))
	if res.RPCErr == drv.ErrWatchdog {
		return []string{"INCONCLUSIVE|operations on " + s.Name + ": no barrier answer within the watchdog"}
	}
	if res.RPCErr != nil {
		s.Open = false
		return append(probs, fmt.Sprintf("rpc-ended-on-in-band-operations|%s: every operation of the request is to be applied or FAILED in-band, but the RPC ended: %v", s.Name, res.RPCErr))
	}
	if res.Unanswered > 0 {
		probs = append(probs, fmt.Sprintf("operation-without-response|%s: %d operations produced no ModifyResponse although the RPC stayed up", s.Name, res.Unanswered))
	}
	if len(res.Other) > 0 {
		probs = append(probs, fmt.Sprintf("unsolicited-response|%s received non-result responses while operating: %v", s.Name, res.Other))
	}
	for _, r := range res.Results {
		if !s.Sent[r.GetId()] {
			probs = append(probs, fmt.Sprintf("result-for-operation-not-sent-on-this-stream|%s received %v for operation %d which it never sent", s.Name, r.GetStatus(), r.GetId()))
		}
		s.Terminal[r.GetId()] = append(s.Terminal[r.GetId()], r.GetStatus())
	}
	if len(res.PerResponse) != len(specs) {
		return append(probs, fmt.Sprintf("response-count-mismatch|%s sent %d operations and received %d responses before the barrier: %s", s.Name, len(specs), len(res.PerResponse), resultsStr(res.Results)))
	}
	for i, sp := range specs {
		if verdicts[i] != OpApply {
			rs := res.PerResponse[i]
			if len(rs) != 1 || rs[0].GetId() != sp.Op.GetId() || rs[0].GetStatus() != spb.AFTResult_FAILED {
				sig := "unauthorised-operation-acknowledged:" + strings.ReplaceAll(whys[i], " ", "-")
				probs = append(probs, fmt.Sprintf("%s|%s: %s (operation %d of a request whose other operations are correctly stamped) answered %s although %s", sig, s.Name, sp, i+1, resultsStr(rs), whys[i]))
			}
			continue
		}
		oks, fails := w.split(s, res.PerResponse[i], &probs)
		if _, known := w.X.M.NI[sp.NI]; !known || sp.NI == "" {
			if len(oks) != 0 || len(fails) != 1 || fails[0] != sp.Op.GetId() {
				probs = append(probs, fmt.Sprintf("unknown-ni-not-failed-once|%s: %s answered oks=%v fails=%v", s.Name, sp, oks, fails))
			}
			continue
		}
		r := w.X.M.Step(sp, oks, fails)
		probs = append(probs, r.Problems...)
		w.LastCascade += r.Cascade
		if _, held := w.X.M.Held[sp.Op.GetId()]; held {
			if w.HeldOwner == nil {
				w.HeldOwner = map[uint64]*SS{}
			}
			w.HeldOwner[sp.Op.GetId()] = s
		}
	}
	return probs
}

// split turns the results of one response into the ids answered programmed (in
// order) and failed, checking RIB-before-FIB and multiplicities on the way.
func (w *SessWorld) split(s *SS, rs []*spb.AFTResult, probs *[]string) (oks, fails []uint64) {
	type acc struct {
		rib, fib, fail int
		fibFirst       bool
	}
	per := map[uint64]*acc{}
	var order []uint64
	for _, r := range rs {
		a := per[r.GetId()]
		if a == nil {
			a = &acc{}
			per[r.GetId()] = a
			order = append(order, r.GetId())
		}
		switch r.GetStatus() {
		case spb.AFTResult_RIB_PROGRAMMED:
			a.rib++
		case spb.AFTResult_FIB_PROGRAMMED:
			if a.rib == 0 {
				a.fibFirst = true
			}
			a.fib++
		case spb.AFTResult_FAILED:
			a.fail++
		default:
			*probs = append(*probs, fmt.Sprintf("unexpected-status|operation %d answered %s", r.GetId(), r.GetStatus()))
		}
	}
	for _, id := range order {
		a := per[id]
		switch {
		case a.fail > 0 && (a.rib > 0 || a.fib > 0):
			*probs = append(*probs, fmt.Sprintf("failed-and-programmed|%s: operation %d answered both FAILED and programmed", s.Name, id))
		case a.fail > 1:
			*probs = append(*probs, fmt.Sprintf("failed-more-than-once|%s: operation %d answered FAILED %d times in one response", s.Name, id, a.fail))
		case a.rib > 1 || a.fib > 1:
			*probs = append(*probs, fmt.Sprintf("programmed-more-than-once|%s: operation %d answered rib=%d fib=%d", s.Name, id, a.rib, a.fib))
		}
		if a.rib > 0 || a.fib > 0 {
			switch {
			case a.rib == 0:
				*probs = append(*probs, fmt.Sprintf("fib-without-rib|%s: operation %d", s.Name, id))
			case s.FIB && a.fib != 1:
				*probs = append(*probs, fmt.Sprintf("fib-ack-missing|%s negotiated FIB acknowledgement: operation %d answered rib=%d fib=%d", s.Name, id, a.rib, a.fib))
			case s.FIB && a.fibFirst:
				*probs = append(*probs, fmt.Sprintf("fib-before-rib|%s: operation %d", s.Name, id))
			case !s.FIB && a.fib > 0:
				*probs = append(*probs, fmt.Sprintf("fib-ack-without-negotiation|%s negotiated RIB acknowledgement only: operation %d got FIB_PROGRAMMED", s.Name, id))
			}
			oks = append(oks, id)
		}
		if a.fail > 0 {
			fails = append(fails, id)
		}
	}
	return
}

// Disconnect ends s in the given way: "close" (half-close), "cancel", "abort".
func (w *SessWorld) Disconnect(s *SS, mode string) []string {
	w.logf("%s disconnects (%s)", s.Name, mode)
	switch mode {
	case "close":
		s.S.CloseSend()
	default:
		if s.St != nil {
			s.St.Abort(status.Error(codes.Canceled, "context canceled"))
		} else if g, ok := s.S.Stream.(*drv.GRPCModStream); ok {
			if mode == "abort" {
				g.Kill()
			} else {
				g.Cancel()
			}
		}
	}
	s.Open = false
	if s.St != nil {
		if _, wd := s.St.WaitEnd(); wd != nil {
			return []string{"INCONCLUSIVE|Modify did not return after " + mode}
		}
	}
	return nil
}

// CompareState checks every hooked observable against the model: contents,
// reference counters, election state, the session table, held operations.
func (w *SessWorld) CompareState() []string {
	var probs []string
	// (the hooks take the server's and the RIB's locks: on a wedged server they never return)
	if !w.X.guarded("hooked server state", func() { probs = w.compareState() }) {
		return []string{deadMsg}
	}
	return probs
}

func (w *SessWorld) compareState() []string {
	var probs []string
	save := w.X.CheckHeld
	w.X.CheckHeld = false
	probs = append(probs, w.X.Compare()...)
	w.X.CheckHeld = save
	// held operations: the implementation may have dropped those of superseded/ended sessions
	impl := map[uint64]bool{}
	for _, p := range w.X.R.VerifPendingOps() {
		impl[p.ID] = true
		if _, ok := w.X.M.Held[p.ID]; !ok {
			probs = append(probs, fmt.Sprintf("pending-not-held-in-model|implementation holds operation %d unknown to the model (held=%v)", p.ID, w.X.M.HeldIDs()))
		}
	}
	for id, h := range w.X.M.Held {
		if !impl[id] {
			owner := w.ownerOf(id)
			if owner != nil && owner.Open && owner == w.Prim {
				probs = append(probs, fmt.Sprintf("held-operation-lost|%s of the live primary %s vanished from the pending set", h.Spec, owner.Name))
			} else {
				delete(w.X.M.Held, id) // dropped with its session / on primary change: acceptable
			}
		}
	}
	// election state
	id, master := w.Srv.VerifElection()
	if !idEq(id, w.Max) {
		probs = append(probs, fmt.Sprintf("election-id-state|server's highest learnt id %s, model %s", IDStr(id), IDStr(w.Max)))
	}
	if w.Prim != nil && master != w.Prim.UUID {
		probs = append(probs, fmt.Sprintf("primary-state|server's primary is %s, model says %s (%s)", w.nameOf(master), w.Prim.Name, w.Prim.UUID))
	}
	// session table
	live := map[string]*SS{}
	for _, s := range w.Sess {
		if s.Open && s.UUID != "" {
			live[s.UUID] = s
		}
	}
	// a session whose RPC just ended is removed by its handler goroutine: give it a moment
	var tbl []server.VerifSession
	for i := 0; i < 200000; i++ {
		tbl = w.Srv.VerifSessions()
		if len(tbl) <= len(live) {
			break
		}
		yield()
	}
	seen := map[string]bool{}
	for _, v := range tbl {
		seen[v.ID] = true
		s, ok := live[v.ID]
		if !ok {
			probs = append(probs, fmt.Sprintf("session-footprint-not-removed|session %s is still in the server's table after its RPC ended", w.nameOf(v.ID)))
			continue
		}
		if s.Negotiated != v.ExpectElecID || (s.Negotiated && s.FIB != v.FIBAck) {
			probs = append(probs, fmt.Sprintf("session-params-state|%s: server has single-primary=%v fib=%v, model negotiated=%v fib=%v", s.Name, v.ExpectElecID, v.FIBAck, s.Negotiated, s.FIB))
		}
		if !idEq(v.LastElecID, s.Last) {
			probs = append(probs, fmt.Sprintf("session-last-id-state|%s: server %s, model %s", s.Name, IDStr(v.LastElecID), IDStr(s.Last)))
		}
	}
	for id, s := range live {
		if !seen[id] {
			probs = append(probs, fmt.Sprintf("live-session-missing|%s is open but not in the server's table", s.Name))
		}
	}
	sort.Strings(probs)
	return probs
}

func (w *SessWorld) ownerOf(opID uint64) *SS {
	if o := w.HeldOwner[opID]; o != nil {
		return o
	}
	for _, s := range w.Sess {
		if s.Sent[opID] {
			return s
		}
	}
	return nil
}

func (w *SessWorld) nameOf(uuid string) string {
	for _, s := range w.Sess {
		if s.UUID == uuid {
			return s.Name
		}
	}
	if uuid == "" {
		return "none"
	}
	return uuid
}

// QuietOthers checks that no session other than s received anything.
func (w *SessWorld) QuietOthers(s *SS) []string {
	var probs []string
	if s == nil {
		s = &SS{Name: "nobody (a Flush RPC)"}
	}
	for _, o := range w.Sess {
		if o == s || !o.Open || o.St == nil {
			continue
		}
		if p := o.St.Pending(); len(p) > 0 {
			probs = append(probs, fmt.Sprintf("message-on-bystander-stream|%s received %v while %s was acting", o.Name, p, s.Name))
		}
		if ended, err := o.St.Ended(); ended {
			o.Open = false
			probs = append(probs, fmt.Sprintf("bystander-session-ended|%s ended (%v) while %s was acting", o.Name, err, s.Name))
		}
	}
	return probs
}

func errStr(err error) string {
	if err == nil {
		return "ok"
	}
	s := err.Error()
	if len(s) > 160 {
		s = s[:160]
	}
	return s
}

func resultsStr(rs []*spb.AFTResult) string {
	var out []string
	for _, r := range rs {
		out = append(out, fmt.Sprintf("%d:%s", r.GetId(), strings.TrimSuffix(strings.TrimSuffix(r.GetStatus().String(), "_PROGRAMMED"), "")))
	}
	return "[" + strings.Join(out, " ") + "]"
}

// Contents returns the model's contents (convenience).
func (w *SessWorld) Contents() canon.Contents { return w.X.M.Contents() }

// SendMulti sends a message populating more than one of params / election id /
// operations; it must end the RPC with INVALID_ARGUMENT and change nothing.
func (w *SessWorld) SendMulti(s *SS, req *spb.ModifyRequest) []string {
	var parts []string
	if req.Params != nil {
		parts = append(parts, "params")
	}
	if req.ElectionId != nil {
		parts = append(parts, "election")
	}
	if len(req.Operation) > 0 {
		parts = append(parts, "operation")
		for _, o := range req.Operation {
			s.Sent[o.GetId()] = true
		}
	}
	what := "multi-field message {" + strings.Join(parts, "+") + "}"
	resp, err := s.S.Exchange(req)
	w.logf("%s sends %s -> %v %v", s.Name, what, resp, errStr(err))
	s.GotMsg = true
	return w.mustEnd(s, what, resp, err, Expect{Codes: []codes.Code{codes.InvalidArgument}}, "multi-field")
}

// SendGoodThenUnstamped sends ONE request whose first operation is correctly stamped and
// whose second operation carries no election id (optionally with an operation type the
// protocol does not define). On the session of the primary the first operation is judged
// by the RIB model as always; the second one must end the RPC (an operation without an
// election id is a protocol violation wherever it stands in a request, whatever else is
// wrong with it) and must not be applied. On any other session it degenerates to an
// operation without an election id.
func (w *SessWorld) SendGoodThenUnstamped(s *SS, first, second gen.OpSpec, unknownType bool) []string {
	if !(s.Negotiated && w.Prim == s && s.Last != nil && idEq(s.Last, w.Max)) {
		return w.SendOps(s, []gen.OpSpec{second}, nil)
	}
	var probs []string
	first.Op.ElectionId = s.Last
	second.Op.ElectionId = nil
	if unknownType {
		second.Op.Op = spb.AFTOperation_Operation(77)
	}
	s.Sent[first.Op.GetId()], s.Sent[second.Op.GetId()] = true, true
	s.GotMsg = true
	res := s.S.Ops([]*spb.AFTOperation{first.Op, second.Op}, s.Last)
	w.logf("%s sends one request [%s stamped %s; %s without election id (unknown type: %v)] -> results=%s rpcErr=%v", s.Name, first.String(), IDStr(s.Last), second.String(), unknownType, resultsStr(res.Results), errStr(res.RPCErr))
	if res.RPCErr == drv.ErrWatchdog {
		return []string{"INCONCLUSIVE|operations on " + s.Name + ": no answer within the watchdog"}
	}
	var oks, fails []uint64
	for _, r := range res.Results {
		s.Terminal[r.GetId()] = append(s.Terminal[r.GetId()], r.GetStatus())
		switch {
		case r.GetId() == second.Op.GetId() && r.GetStatus() != spb.AFTResult_FAILED:
			probs = append(probs, fmt.Sprintf("unauthorised-operation-acknowledged:no-election-id-later-in-request|%s: %s carries no election id (second operation of a request whose first is correctly stamped) and was answered %s", s.Name, second.String(), r.GetStatus()))
		case r.GetId() == first.Op.GetId() && r.GetStatus() == spb.AFTResult_RIB_PROGRAMMED:
			oks = append(oks, r.GetId())
		case r.GetId() == first.Op.GetId() && r.GetStatus() == spb.AFTResult_FAILED:
			fails = append(fails, r.GetId())
		case r.GetId() != first.Op.GetId() && r.GetId() != second.Op.GetId() && r.GetStatus() == spb.AFTResult_RIB_PROGRAMMED:
			oks = append(oks, r.GetId()) // a held operation released by the first one
		case r.GetId() != first.Op.GetId() && r.GetId() != second.Op.GetId() && r.GetStatus() == spb.AFTResult_FAILED:
			fails = append(fails, r.GetId())
		}
	}
	if _, known := w.X.M.NI[first.NI]; known && first.NI != "" {
		r := w.X.M.Step(first, oks, fails)
		probs = append(probs, r.Problems...)
		w.LastCascade += r.Cascade
		if _, held := w.X.M.Held[first.Op.GetId()]; held {
			if w.HeldOwner == nil {
				w.HeldOwner = map[uint64]*SS{}
			}
			w.HeldOwner[first.Op.GetId()] = s
		}
	}
	if res.RPCErr == nil {
		probs = append(probs, fmt.Sprintf("violation-accepted:operation-without-election-id-later-in-request|%s: the second operation of the request carries no election id, but the RPC continued (results %s)", s.Name, resultsStr(res.Results)))
		return probs
	}
	s.Open = false
	var err error = res.RPCErr
	if err.Error() == "EOF" {
		err = nil
	}
	if msg := (Expect{Codes: []codes.Code{codes.FailedPrecondition}}).CheckStatus(err); msg != "" {
		probs = append(probs, fmt.Sprintf("wrong-termination-status:no-election-id-later-in-request:%s|%s: %s", status.Code(res.RPCErr), s.Name, msg))
	} else if n := errorDetails(err); n != 1 {
		probs = append(probs, fmt.Sprintf("wrong-termination-status:no-election-id-later-in-request:%d-error-details|%s: the RPC ended with %v, which carries %d ModifyRPCErrorDetails messages instead of one", n, s.Name, err, n))
	}
	return probs
}
