package mon

import "verifharness/ev"

// Report turns problems into violations carrying the history as witness. Problems
// whose signature is INCONCLUSIVE (a wait on the code under test exceeded the watchdog:
// decided once, at the end of the run, by ev.Finish) or HARNESS are not violations.
func Report(run *ev.Run, caseID string, trace []string, problems []string) {
	problems = Quarantine(problems)
	for _, p := range problems {
		sig, txt := SplitSig(p)
		switch sig {
		case "INCONCLUSIVE":
			run.Inconclusive(caseID + ": " + txt)
			continue
		case "HARNESS":
			run.Fatal(caseID + ": " + txt)
			continue
		}
		t := trace
		if len(t) > 400 {
			t = t[len(t)-400:]
		}
		run.Violation(caseID, sig, txt, map[string]any{"history": append([]string{}, t...)})
	}
}

// Quarantine: a case in which a wait exceeded the watchdog has no verdict at all. Whatever
// else the case reports (the model has applied operations the stalled server answers
// later, or never) is a consequence of the stall, not an observation about the property:
// only the inconclusive entries are kept.
func Quarantine(problems []string) []string {
	var inc []string
	for _, p := range problems {
		if sig, _ := SplitSig(p); sig == "INCONCLUSIVE" {
			inc = append(inc, p)
		}
	}
	if len(inc) > 0 {
		return inc
	}
	return problems
}
