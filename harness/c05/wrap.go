package c05

import wpb "github.com/openconfig/ygot/proto/ywrapper"

type wrapperString = wpb.StringValue
