// C08: Flush empties exactly the requested instances, reports OK, is election-gated.
package c08

import (
	"fmt"
	"math/big"
	"strings"
	"testing"

	"github.com/openconfig/gribigo/server"
	"google.golang.org/grpc/codes"
	"google.golang.org/grpc/status"

	spb "github.com/openconfig/gribi/v1/proto/service"

	"verifharness/canon"
	"verifharness/drv"
	"verifharness/ev"
	"verifharness/gen"
	"verifharness/model"
	"verifharness/mon"
)

func big128(u *spb.Uint128) *big.Int {
	b := new(big.Int).SetUint64(u.GetHigh())
	b.Lsh(b, 64)
	return b.Add(b, new(big.Int).SetUint64(u.GetLow()))
}

// setup builds a server with the usual VRFs, content programmed through the RIB
// monitor, and optionally a learnt election id (through a real Modify session).
func setup(g *gen.Gen, learnt *spb.Uint128, nOps int) (*server.Server, *mon.RIBMon, []string, error) {
	g.S.Default = server.DefaultNetworkInstanceName
	srv, err := drv.NewServer(g.S.NIs[1:])
	if err != nil {
		return nil, nil, nil, err
	}
	x := &mon.RIBMon{R: srv.VerifRIB(), M: model.NewRIB(g.S.Default, g.S.NIs, false), CheckHeld: true, CheckRefs: true}
	var probs []string
	for i := 0; i < nOps && len(probs) == 0; i++ {
		_, p := x.Do(g.Op())
		probs = append(probs, p...)
	}
	if learnt != nil {
		st := drv.OpenModify(srv)
		s := &drv.Session{Stream: st, Name: "setter", DefaultNI: g.S.Default}
		if _, err := s.Params(drv.SinglePrimary(false)); err != nil {
			return nil, nil, nil, fmt.Errorf("params: %v", err)
		}
		if _, err := s.Elect(learnt); err != nil {
			return nil, nil, nil, fmt.Errorf("elect: %v", err)
		}
		// a new primary: operations held so far (programmed through the RIB API above) are dropped
		x.M.DropHeld()
		if g.R.Intn(2) == 0 {
			s.CloseSend()
			st.WaitEnd()
		}
	}
	return srv, x, probs, nil
}

type elecField struct {
	name string
	set  func(req *spb.FlushRequest, learnt *spb.Uint128)
	// relation of the id to the learnt id: "absent","override","zero","lower","equal","higher"
	rel func(learnt *spb.Uint128) string
}

func idField(name string, mk func(l *spb.Uint128) *spb.Uint128) elecField {
	return elecField{name: name,
		set: func(req *spb.FlushRequest, l *spb.Uint128) { req.Election = &spb.FlushRequest_Id{Id: mk(l)} },
		rel: func(l *spb.Uint128) string {
			id := mk(l)
			if id.High == 0 && id.Low == 0 {
				return "zero"
			}
			if l == nil {
				return "unexpected-id"
			}
			switch big128(id).Cmp(big128(l)) {
			case -1:
				return "lower"
			case 0:
				return "equal"
			}
			return "higher"
		}}
}

func nz(l *spb.Uint128) *spb.Uint128 {
	if l == nil {
		return &spb.Uint128{High: 1, Low: 1}
	}
	return l
}

var elecFields = []elecField{
	{name: "absent", set: func(*spb.FlushRequest, *spb.Uint128) {}, rel: func(*spb.Uint128) string { return "absent" }},
	{name: "override", set: func(r *spb.FlushRequest, _ *spb.Uint128) {
		r.Election = &spb.FlushRequest_Override{Override: &spb.Empty{}}
	}, rel: func(*spb.Uint128) string { return "override" }},
	idField("zero", func(*spb.Uint128) *spb.Uint128 { return &spb.Uint128{} }),
	idField("equal", func(l *spb.Uint128) *spb.Uint128 { l = nz(l); return &spb.Uint128{High: l.High, Low: l.Low} }),
	idField("low-1", func(l *spb.Uint128) *spb.Uint128 { l = nz(l); return &spb.Uint128{High: l.High, Low: l.Low - 1} }),
	idField("low+1", func(l *spb.Uint128) *spb.Uint128 { l = nz(l); return &spb.Uint128{High: l.High, Low: l.Low + 1} }),
	idField("high-1,low-max", func(l *spb.Uint128) *spb.Uint128 { l = nz(l); return &spb.Uint128{High: l.High - 1, Low: ^uint64(0)} }),
	idField("high+1,low-0", func(l *spb.Uint128) *spb.Uint128 { l = nz(l); return &spb.Uint128{High: l.High + 1, Low: 0} }),
	idField("high+1,low-1", func(l *spb.Uint128) *spb.Uint128 { l = nz(l); return &spb.Uint128{High: l.High + 1, Low: l.Low - 1} }),
	idField("high-1,low+1", func(l *spb.Uint128) *spb.Uint128 { l = nz(l); return &spb.Uint128{High: l.High - 1, Low: l.Low + 1} }),
}

type niField struct {
	name    string
	set     func(req *spb.FlushRequest)
	targets func(s gen.Space) []string // nil = malformed / unknown
	valid   bool
}

var niFields = []niField{
	{name: "absent", set: func(*spb.FlushRequest) {}},
	{name: "empty-name", set: func(r *spb.FlushRequest) { r.NetworkInstance = &spb.FlushRequest_Name{Name: ""} }},
	{name: "unknown", set: func(r *spb.FlushRequest) { r.NetworkInstance = &spb.FlushRequest_Name{Name: "NOSUCH"} }},
	{name: "default", valid: true, set: func(r *spb.FlushRequest) {
		r.NetworkInstance = &spb.FlushRequest_Name{Name: server.DefaultNetworkInstanceName}
	}, targets: func(s gen.Space) []string { return []string{s.Default} }},
	{name: "vrf1", valid: true, set: func(r *spb.FlushRequest) { r.NetworkInstance = &spb.FlushRequest_Name{Name: "VRF1"} }, targets: func(s gen.Space) []string { return []string{"VRF1"} }},
	{name: "all", valid: true, set: func(r *spb.FlushRequest) { r.NetworkInstance = &spb.FlushRequest_All{All: &spb.Empty{}} }, targets: func(s gen.Space) []string { return s.NIs }},
}

// learnt ids (nil = no id learnt); halves chosen so that -1/+1 never wrap.
var learntIDs = []*spb.Uint128{nil, {High: 0, Low: 5}, {High: 1, Low: 5}, {High: 7, Low: 1 << 63}, {High: 1 << 40, Low: 2}}

// expectation returns (authorised, acceptable codes when not OK).
func expectation(learnt *spb.Uint128, rel string, ni niField) (bool, []codes.Code) {
	var bad []codes.Code
	auth := false
	switch rel {
	case "override":
		auth = true
	case "absent":
		if learnt == nil {
			auth = true
		} else {
			bad = append(bad, codes.FailedPrecondition)
		}
	case "zero":
		bad = append(bad, codes.InvalidArgument)
		if learnt == nil {
			bad = append(bad, codes.FailedPrecondition)
		}
	case "unexpected-id":
		bad = append(bad, codes.FailedPrecondition)
	case "lower":
		bad = append(bad, codes.FailedPrecondition)
	case "equal", "higher":
		auth = true
	}
	if !ni.valid {
		bad = append(bad, codes.InvalidArgument)
	}
	return auth && ni.valid, bad
}

func flushAndJudge(run *ev.Run, caseID string, g *gen.Gen, srv *server.Server, x *mon.RIBMon, req *spb.FlushRequest, authorised bool, bad []codes.Code, targets []string, label string) []string {
	var probs []string
	beforeElec, beforeMaster := srv.VerifElection()
	resp, err, wd := drv.Flush(srv, req)
	if wd != nil {
		run.Inconclusive(caseID + ": Flush did not return within the watchdog")
		return nil
	}
	x.Trace = append(x.Trace, fmt.Sprintf("FLUSH-RPC [%s] %v => %v %v", label, req, resp, err))
	if authorised {
		x.M.Flush(targets)
		if err != nil {
			// which of the two failure modes: entries left behind, or everything removed but an error reported
			left := 0
			rc, _ := x.R.RIBContents()
			got := canon.FromYgot(rc)
			for _, ni := range targets {
				left += len(got[ni])
			}
			sig := "flush-error-but-emptied"
			if left > 0 {
				sig = "flush-error-entries-left"
			}
			probs = append(probs, fmt.Sprintf("%s:%s|authorised Flush [%s] returned %v (code %s); %d entries left in the targeted instances", sig, status.Code(err), label, strings.ReplaceAll(err.Error(), "\n", "; "), status.Code(err), left))
		} else if resp.GetResult() != spb.FlushResponse_OK {
			probs = append(probs, fmt.Sprintf("flush-result-not-ok|%v", resp))
		}
	} else {
		if err == nil {
			probs = append(probs, fmt.Sprintf("flush-accepted-but-must-be-rejected:%s|Flush [%s] was accepted: %v", label, label, resp))
			x.M.Flush(targets) // follow
		} else {
			ok := false
			for _, c := range bad {
				if status.Code(err) == c {
					ok = true
				}
			}
			if !ok {
				probs = append(probs, fmt.Sprintf("flush-wrong-status:%s:%s|Flush [%s] rejected with %s, acceptable: %v (%v)", label, status.Code(err), label, status.Code(err), bad, err))
			}
		}
	}
	probs = append(probs, x.Compare()...)
	afterElec, afterMaster := srv.VerifElection()
	if fmt.Sprint(beforeElec) != fmt.Sprint(afterElec) || beforeMaster != afterMaster {
		probs = append(probs, fmt.Sprintf("flush-changed-election-state|%v/%s -> %v/%s", beforeElec, beforeMaster, afterElec, afterMaster))
	}
	return probs
}

// aftermath: after a flush the RIB must behave as a consistent one: further
// operations and a delete sweep are judged by the model.
func aftermath(run *ev.Run, g *gen.Gen, x *mon.RIBMon, n int) []string {
	var probs []string
	for i := 0; i < n && len(probs) == 0; i++ {
		_, p := x.Do(g.Op())
		probs = append(probs, p...)
		probs = append(probs, x.Compare()...)
	}
	for _, t := range []canon.Table{canon.NHG, canon.NH} {
		for _, ni := range g.S.NIs {
			for k := 0; k < 3 && len(probs) == 0; k++ {
				_, p := x.Do(g.MkOp(spb.AFTOperation_DELETE, t, ni, k, false))
				probs = append(probs, p...)
				probs = append(probs, x.Compare()...)
				run.Count("post_flush_sweep_deletes", 1)
			}
		}
	}
	return probs
}

func TestCheck(t *testing.T) {
	run := ev.Start(t, "C08", "exploration")

	// Part A: the complete decision table.
	type cell struct {
		l  int
		e  elecField
		ni niField
	}
	var cells []cell
	for l := range learntIDs {
		for _, e := range elecFields {
			for _, ni := range niFields {
				cells = append(cells, cell{l, e, ni})
			}
		}
	}
	reps := run.Pick(1, 6)
	ev.Parallel(len(cells)*reps, ev.Workers(), func(i int) {
		c := cells[i%len(cells)]
		caseID := fmt.Sprintf("table:%d:%s:%s#%d", c.l, c.e.name, c.ni.name, i/len(cells))
		if !run.Want(caseID) {
			return
		}
		r := run.Rand(caseID)
		g := gen.New(r)
		g.PInvalid = 0
		learnt := learntIDs[c.l]
		srv, x, probs, err := setup(g, learnt, 30+r.Intn(30))
		if err != nil {
			run.Fatal(caseID + ": " + err.Error())
			return
		}
		req := &spb.FlushRequest{}
		c.e.set(req, learnt)
		c.ni.set(req)
		rel := c.e.rel(learnt)
		auth, bad := expectation(learnt, rel, c.ni)
		var targets []string
		if c.ni.targets != nil {
			targets = c.ni.targets(g.S)
		}
		label := fmt.Sprintf("learnt=%v election=%s(%s) ni=%s", learnt != nil, c.e.name, rel, c.ni.name)
		if len(probs) == 0 {
			probs = flushAndJudge(run, caseID, g, srv, x, req, auth, bad, targets, label)
		}
		if len(probs) == 0 {
			probs = aftermath(run, g, x, 10)
		}
		mon.Report(run, caseID, x.Trace, probs)
		run.Eval(1)
		run.Seen("decision_cells", fmt.Sprintf("%v|%s|%s", learnt != nil, rel, c.ni.name))
		run.Count("table_cases", 1)
		run.Distinct(caseID[:strings.LastIndex(caseID, "#")] + x.M.Contents().String())
	})
	run.Set("decision_table_cells_enumerated", len(cells))

	// Part B: contents workload, authorised flushes (override, or >= learnt id) of every target selection.
	nB := run.Pick(600, 30000)
	ev.Parallel(nB, ev.Workers(), func(i int) {
		caseID := fmt.Sprintf("contents-%d", i)
		if !run.Want(caseID) {
			return
		}
		r := run.Rand(caseID)
		g := gen.New(r)
		g.PInvalid = 0.01
		g.WDelete = 1
		g.WTable = [5]int{3, 2, 2, 5, 5}
		g.DupNH = i%7 == 0
		var learnt *spb.Uint128
		if i%2 == 0 {
			learnt = learntIDs[1+r.Intn(len(learntIDs)-1)]
		}
		srv, x, probs, err := setup(g, learnt, 20+r.Intn(80))
		if err != nil {
			run.Fatal(caseID + ": " + err.Error())
			return
		}
		rounds := 1 + r.Intn(3)
		lateNI := i%3 == 1
		if lateNI {
			rounds = 2 + r.Intn(2)
		}
		for round := 0; round < rounds && len(probs) == 0; round++ {
			if lateNI && round == 1 {
				// a network instance created at run time, after requests for "all instances"
				// (a Get and at least one Flush) have been served: it must be flushed like the others
				if _, err, _ := drv.Get(srv, &spb.GetRequest{Aft: spb.AFTType_ALL, NetworkInstance: &spb.GetRequest_All{All: &spb.Empty{}}}, 0); err != nil {
					probs = append(probs, fmt.Sprintf("get-error-on-valid-request|Get(all, ALL): %v", err))
				}
				if _, err, _ := drv.Flush(srv, &spb.FlushRequest{NetworkInstance: &spb.FlushRequest_All{All: &spb.Empty{}}, Election: &spb.FlushRequest_Override{Override: &spb.Empty{}}}); err != nil {
					probs = append(probs, fmt.Sprintf("flush-error-but-emptied:%s|Flush(all, override): %v", status.Code(err), err))
				}
				x.M.Flush(g.S.NIs)
				const late = "VRF-LATE"
				if err := srv.AddNetworkInstance(late); err != nil {
					run.Fatal(caseID + ": AddNetworkInstance: " + err.Error())
					return
				}
				x.M.NI[late] = map[canon.Key]*model.Entry{}
				g.S.NIs = append(append([]string{}, g.S.NIs...), late)
				probs = append(probs, aftermath(run, g, x, 15+r.Intn(20))...)
				run.Count("network_instances_created_at_run_time", 1)
				if len(probs) > 0 {
					break
				}
			}
			req := &spb.FlushRequest{}
			switch {
			case learnt == nil && r.Intn(2) == 0:
			case learnt != nil && r.Intn(2) == 0:
				e := elecFields[3+2*r.Intn(2)] // equal or low+1
				e.set(req, learnt)
			default:
				req.Election = &spb.FlushRequest_Override{Override: &spb.Empty{}}
			}
			ni := niFields[3+r.Intn(3)]
			ni.set(req)
			nBackups, shared := backupStats(x.M, ni.targets(g.S))
			if nBackups > 0 {
				run.Count("flushes_over_groups_with_backup", 1)
			}
			if shared {
				run.Count("flushes_over_shared_or_missing_backup", 1)
			}
			probs = flushAndJudge(run, caseID, g, srv, x, req, true, nil, ni.targets(g.S), "authorised ni="+ni.name)
			run.Count("authorised_flushes", 1)
			if len(probs) == 0 {
				probs = aftermath(run, g, x, 5+r.Intn(20))
			}
		}
		mon.Report(run, caseID, x.Trace, probs)
		run.Eval(1)
		run.Distinct(strings.Join(x.Trace, "\n"))
		if i < 2 {
			run.Sample(map[string]any{"case": caseID, "history": x.Trace})
		}
	})
	concurrentPhase(run)
	electionRace(run)
	flushAllWithReaders(run)
	flushAfterPrimaryLeft(run)
	run.Assume("expected gRPC codes: INVALID_ARGUMENT for missing/empty/unknown network instance and zero id; FAILED_PRECONDITION for a lower id, a missing election field when an id was learnt, or an id when none was learnt; where a request is malformed in two ways either code is accepted; detail reasons are not asserted")
	run.Finish("A: the complete decision table {no id learnt, 4 learnt 128-bit ids} x {absent, override, zero, equal, low+-1, high+-1 with opposing low} x {NI absent, empty, unknown, default, VRF1, all} on servers with generated contents - status code, contents unchanged / emptied exactly, election state untouched, consistent aftermath (further ops + delete sweep judged by the model). B: authorised flushes of every target selection over generated reference-closed and dangling RIBs (shared / missing / cyclic backup groups, cross-NI refs both ways, duplicate next-hop indices), up to 3 rounds with operations in between. C: a Flush naming one instance concurrent with deletes of unreferenced groups / next-hops of that instance by four goroutines (yield points perturbed): everything answered, instance empty, the other untouched, counters == recount, consistent aftermath. D: two sessions winning the election in turn in quick succession while four goroutines send Flushes carrying a lower id: none issued after the higher election was answered may be accepted, nor one at quiescence. Distinct = by decision cell + contents / by history", 100, false)
}

// backupStats: number of groups with a backup in the targets; whether some backup is shared or not installed.
func backupStats(m *model.RIB, targets []string) (int, bool) {
	n := 0
	shared := false
	for _, ni := range targets {
		seen := map[uint64]int{}
		for k, e := range m.NI[ni] {
			if k.T == canon.NHG && e.Backup != 0 {
				n++
				seen[e.Backup]++
				if _, ok := m.NI[ni][canon.Key{T: canon.NHG, K: fmt.Sprint(e.Backup)}]; !ok {
					shared = true
				}
			}
		}
		for _, c := range seen {
			if c > 1 {
				shared = true
			}
		}
	}
	return n, shared
}
