#!/bin/bash
# tools/selftest.sh <ID>[,<ID>...] <patch.diff | revert:<commit>> [tier]
# Applies a mutation to a scratch worktree of /repo (outside /repo and /verif), runs the
# check(s) against it via VERIF_REPO and reports whether each raised a VIOLATION.
# The scratch worktree and its build output are removed afterwards.
set -u
IDS="$1"; MUT="$2"; TIER="${3:-quick}"
ROOT="$(cd "$(dirname "${BASH_SOURCE[0]}")/.." && pwd)"
W="$(mktemp -d /tmp/verif-mut-XXXXXX)"
rmdir "$W"
git -C /repo worktree add -q --detach "$W" HEAD || exit 2
cleanup() { git -C /repo worktree remove --force "$W" >/dev/null 2>&1; rm -rf "$W"; }
trap cleanup EXIT
case "$MUT" in
  revert:*) git -C "$W" revert --no-commit "${MUT#revert:}" >/dev/null 2>&1 || { echo "SELFTEST cannot revert ${MUT#revert:}"; exit 2; } ;;
  *) git -C "$W" apply "$MUT" || { echo "SELFTEST patch does not apply: $MUT"; exit 2; } ;;
esac
( cd "$W" && GOFLAGS=-mod=mod GOPROXY=off go build ./... ) || { echo "SELFTEST mutant does not build"; exit 2; }
rc=0
for ID in ${IDS//,/ }; do
  out="$(cd "$ROOT" && VERIF_ROOT_OVERRIDE=1 VERIF_REPO="$W" VERIF_NO_EVIDENCE=1 ./check "$ID" "$TIER" 2>&1)"
  code=$?
  sigs="$(echo "$out" | grep '^  signature:' | sed 's/  signature: //' | tr '\n' ' ')"
  if [ $code -eq 1 ]; then echo "SELFTEST $ID CAUGHT $(basename "$MUT") :: $sigs"
  elif [ $code -eq 0 ]; then echo "SELFTEST $ID MISSED $(basename "$MUT")"; rc=1
  else echo "SELFTEST $ID ERROR $(basename "$MUT")"; echo "$out" | tail -5; rc=2; fi
done
exit $rc
