// C03: referenced groups/next-hops cannot be deleted; unreferenced ones always can.
package c03

import (
	"fmt"
	"strings"
	"testing"

	spb "github.com/openconfig/gribi/v1/proto/service"

	"verifharness/canon"
	"verifharness/ev"
	"verifharness/gen"
	"verifharness/mon"
)

// sweep attempts a DELETE of every group and next-hop of every NI, in the given
// table order; each verdict is judged by the model (FAILED iff referenced now).
func sweep(run *ev.Run, g *gen.Gen, x *mon.RIBMon, order []canon.Table) []string {
	var probs []string
	for _, t := range order {
		for _, ni := range g.S.NIs {
			n := len(g.S.NHGs)
			if t == canon.NH {
				n = len(g.S.NHs)
			}
			for k := 0; k < n; k++ {
				spec := g.MkOp(spb.AFTOperation_DELETE, t, ni, k, false)
				res, p := x.Do(spec)
				run.Count("sweep_deletes", 1)
				run.Seen("sweep_verdicts", fmt.Sprintf("%s/%s", t, res.Expected))
				probs = append(probs, p...)
				probs = append(probs, x.Compare()...)
				if len(probs) > 0 {
					return probs
				}
			}
		}
	}
	return nil
}

func TestCheck(t *testing.T) {
	run := ev.Start(t, "C03", "exploration")
	nHist := run.Pick(2500, 60000)
	ev.Parallel(nHist, ev.Workers(), func(i int) {
		caseID := fmt.Sprintf("hist-%d", i)
		if !run.Want(caseID) {
			return
		}
		r := run.Rand(caseID)
		g := gen.New(r)
		g.DupNH = i%3 == 0
		g.PInvalid = 0.01
		g.PUnknownNHGNI = 0.01
		// Retargeting bias: many top-level writes and group rewrites, fewer deletes.
		g.WAdd, g.WReplace, g.WDelete = 6, 3, 2
		g.WTable = [5]int{4, 3, 3, 5, 2}
		g.Rich = false
		via := 0
		if i%3 == 2 {
			via = 1
			if i%60 == 2 {
				via = 2
			}
		}
		x, err := mon.NewRIBMonVia(g.S, false, via)
		if err == nil && i%3 == 1 {
			x.WithIdleHooks()
		}
		if err != nil {
			run.Fatal(err.Error())
			return
		}
		defer x.Close()
		run.Seen("programmed_via", mon.ViaName(via))
		n := 10 + r.Intn(50)
		var probs []string
		// Seed the RIB with all next-hops so that references resolve quickly.
		for _, ni := range g.S.NIs {
			for k := range g.S.NHs {
				if r.Intn(4) > 0 {
					_, p := x.Do(g.MkOp(spb.AFTOperation_ADD, canon.NH, ni, k, true))
					probs = append(probs, p...)
				}
			}
		}
		for step := 0; step < n && len(probs) == 0; step++ {
			if r.Intn(20) == 0 {
				nis := []string{g.S.NIs[r.Intn(len(g.S.NIs))]}
				if r.Intn(3) == 0 {
					nis = g.S.NIs
				}
				run.Count("flushes", 1)
				x.Flush(nis) // flush verdict itself belongs to C08
			} else {
				spec := g.Op()
				res, p := x.Do(spec)
				probs = append(probs, p...)
				run.Count("ops", 1)
				if spec.Op.GetOp() == spb.AFTOperation_DELETE && (strings.Contains(spec.String(), "/nhg:") || strings.Contains(spec.String(), "/nh:")) {
					run.Seen("delete_verdicts", fmt.Sprintf("%s", res.Expected))
					if res.Expected.String() == "fail" {
						run.Count("deletes_refused_as_referenced", 1)
					}
				}
			}
			probs = append(probs, x.Compare()...)
			run.Count("refcount_comparisons", 1)
		}
		refs := 0
		for _, m := range x.M.RefCounts() {
			for _, n := range m {
				refs += n
			}
		}
		if len(probs) == 0 {
			orders := [][]canon.Table{{canon.NHG, canon.NH}, {canon.NH, canon.NHG}}
			probs = sweep(run, g, x, orders[i%2])
		}
		if len(probs) == 0 && r.Intn(2) == 0 {
			// Remove every top-level entry, then everything must be deletable: groups first, then next-hops.
			for _, t := range []canon.Table{canon.V4, canon.V6, canon.MPLS} {
				for _, ni := range g.S.NIs {
					for k := 0; k < 4; k++ {
						_, p := x.Do(g.MkOp(spb.AFTOperation_DELETE, t, ni, k, false))
						probs = append(probs, p...)
					}
				}
			}
			if len(probs) == 0 {
				probs = sweep(run, g, x, []canon.Table{canon.NHG, canon.NH})
			}
			if len(probs) == 0 && x.M.Contents().Count() != 0 {
				probs = append(probs, fmt.Sprintf("model-not-empty-after-full-sweep|%s", x.M.Contents()))
			}
			run.Count("full_teardowns", 1)
		}
		mon.Report(run, caseID, x.Trace, probs)
		run.Eval(1)
		if refs > 0 {
			run.Distinct(strings.Join(x.Trace, "\n"))
		}
		if i < 2 {
			run.Sample(map[string]any{"case": caseID, "duplicate_nh_indices": g.DupNH, "history": x.Trace})
		}
	})
	run.Finish("seeded histories (10-60 ops) biased to retargeting references (implicit/explicit replace onto other groups / other NIs / other next-hop sets, duplicate next-hop indices in 1/3 of the cases, named and full flushes), counters compared with referrers recounted from contents after every operation, then a DELETE sweep over every group and next-hop of every NI judged by the model, half the cases followed by a full teardown. Non-trivial = at least one live reference before the sweep", 100, false)
}
