package mon

import (
	"fmt"
	"regexp"
	"runtime"
	"sort"
	"strings"
	"time"
)

// Goroutine is one parsed goroutine of a full stack dump.
type Goroutine struct {
	ID    string
	State string
	Stack string // frames, addresses stripped
}

var hdrRe = regexp.MustCompile(`^goroutine (\d+) (?:gp=\S+ m=\S+ (?:mp=\S+ )?)?\[([^\],]+)`)
var addrRe = regexp.MustCompile(`\(0x[0-9a-f, .x]*\)|\+0x[0-9a-f]+|0x[0-9a-f]+`)

// Dump returns all goroutines of the process.
func Dump() []Goroutine {
	buf := make([]byte, 1<<20)
	for {
		n := runtime.Stack(buf, true)
		if n < len(buf) {
			buf = buf[:n]
			break
		}
		buf = make([]byte, 2*len(buf))
	}
	var out []Goroutine
	for _, blk := range strings.Split(string(buf), "\n\n") {
		lines := strings.Split(strings.TrimSpace(blk), "\n")
		if len(lines) == 0 {
			continue
		}
		m := hdrRe.FindStringSubmatch(lines[0])
		if m == nil {
			continue
		}
		out = append(out, Goroutine{ID: m[1], State: m[2], Stack: addrRe.ReplaceAllString(strings.Join(lines[1:], "\n"), "")})
	}
	return out
}

// InRepo filters goroutines having a frame of the code under test (not the harness).
func InRepo(gs []Goroutine, pkgs ...string) []Goroutine {
	if len(pkgs) == 0 {
		pkgs = []string{"github.com/openconfig/gribigo/server.", "github.com/openconfig/gribigo/rib.", "github.com/openconfig/gribigo/client."}
	}
	var out []Goroutine
	for _, g := range gs {
		for _, p := range pkgs {
			if strings.Contains(g.Stack, p) {
				out = append(out, g)
				break
			}
		}
	}
	return out
}

func blockedState(s string) bool {
	switch {
	case strings.HasPrefix(s, "chan send"), strings.HasPrefix(s, "chan receive"), strings.HasPrefix(s, "select"),
		strings.HasPrefix(s, "sync.Mutex.Lock"), strings.HasPrefix(s, "sync.RWMutex"), strings.HasPrefix(s, "semacquire"),
		strings.HasPrefix(s, "sync.WaitGroup.Wait"), strings.HasPrefix(s, "sync.Cond.Wait"):
		return true
	}
	return false
}

// ProvenBlock decides whether the code under test is permanently blocked: two
// dumps, gap apart, in which every goroutine with a frame of the code under test
// is the same goroutine, with the same stack, in a blocked state - and at least one
// of them contains the frame `needle` (the path of the awaited step). In such a
// quiescent system nothing is left that could produce the awaited event. Returns
// (proven, description).
func ProvenBlock(needle string, gap time.Duration, pkgs ...string) (bool, string) {
	a := InRepo(Dump(), pkgs...)
	time.Sleep(gap)
	b := InRepo(Dump(), pkgs...)
	key := func(gs []Goroutine) map[string]Goroutine {
		m := map[string]Goroutine{}
		for _, g := range gs {
			m[g.ID] = g
		}
		return m
	}
	ma, mb := key(a), key(b)
	if len(ma) == 0 || len(ma) != len(mb) {
		return false, fmt.Sprintf("goroutine sets differ between dumps (%d vs %d)", len(ma), len(mb))
	}
	found := false
	var desc []string
	for id, ga := range ma {
		gb, ok := mb[id]
		if !ok || ga.Stack != gb.Stack || ga.State != gb.State {
			return false, "an in-repo goroutine is still moving: " + id
		}
		if !blockedState(ga.State) {
			return false, "an in-repo goroutine is not blocked: " + id + " [" + ga.State + "]"
		}
		if strings.Contains(ga.Stack, needle) {
			found = true
		}
		first := strings.SplitN(strings.TrimSpace(ga.Stack), "\n", 2)[0]
		desc = append(desc, fmt.Sprintf("g%s [%s] %s", id, ga.State, top(ga.Stack)))
		_ = first
	}
	sort.Strings(desc)
	if !found {
		return false, "no blocked goroutine on the awaited path " + needle
	}
	return true, strings.Join(desc, "; ")
}

// top returns the first in-repo function of a stack.
func top(stack string) string {
	for _, l := range strings.Split(stack, "\n") {
		l = strings.TrimSpace(l)
		if strings.HasPrefix(l, "github.com/openconfig/gribigo/") {
			return strings.TrimPrefix(l, "github.com/openconfig/gribigo/")
		}
	}
	return "?"
}

// BlockSignature condenses a ProvenBlock description into a stable signature:
// the sorted set of top in-repo functions the blocked goroutines sit in.
func BlockSignature(desc string) string {
	set := map[string]bool{}
	for _, p := range strings.Split(desc, "; ") {
		f := strings.Fields(p)
		if len(f) > 0 {
			fn := f[len(f)-1]
			if i := strings.LastIndex(fn, "("); i > 0 {
				fn = fn[:i]
			}
			set[fn] = true
		}
	}
	var out []string
	for s := range set {
		out = append(out, s)
	}
	sort.Strings(out)
	return strings.Join(out, ",")
}
