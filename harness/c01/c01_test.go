// C01: installed state equals the fold of acknowledged operations.
package c01

import (
	"fmt"
	"strings"
	"testing"

	"verifharness/ev"
	"verifharness/gen"
	"verifharness/mon"
)

func sigOf(p string) (string, string) {
	i := strings.Index(p, "|")
	if i < 0 {
		return p, p
	}
	return p[:i], p[i+1:]
}

func report(run *ev.Run, caseID string, x *mon.RIBMon, problems []string) {
	for _, p := range problems {
		sig, txt := sigOf(p)
		run.Violation(caseID, sig, txt, map[string]any{"history": x.Trace})
	}
}

func TestCheck(t *testing.T) {
	run := ev.Start(t, "C01", "exploration")
	nHist := run.Pick(3000, 100000)
	maxLen := 40
	ev.Parallel(nHist, ev.Workers(), func(i int) {
		caseID := fmt.Sprintf("rib-%d", i)
		if !run.Want(caseID) {
			return
		}
		r := run.Rand(caseID)
		g := gen.New(r)
		noFwd := i%4 == 3
		x := mon.NewRIBMon(g.S, noFwd)
		n := 8 + r.Intn(maxLen-8)
		if run.Thorough() && i%500 == 0 {
			n = 2000
		}
		full := n <= 60
		bad := false
		for step := 0; step < n && !bad; step++ {
			if r.Intn(25) == 0 {
				var nis []string
				if r.Intn(2) == 0 {
					nis = g.S.NIs
				} else {
					nis = []string{g.S.NIs[r.Intn(len(g.S.NIs))]}
				}
				run.Count("flushes", 1)
				// Flush verdicts belong to C08; only the resulting contents are judged here.
				x.Flush(nis)
				x.M.Held = x.M.Held // held operations survive a flush
			} else {
				spec := g.Op()
				res, probs := x.Do(spec)
				run.Count("ops", 1)
				run.Seen("op_kinds", fmt.Sprintf("%s/%s/%s", spec.Op.GetOp(), opTable(spec), res.Expected))
				if res.Cascade > 0 {
					run.Count("held_ops_resolved", int64(res.Cascade))
				}
				if len(probs) > 0 {
					report(run, caseID, x, probs)
					bad = true
				}
			}
			if full || step%16 == 15 || step == n-1 {
				if probs := x.Compare(); len(probs) > 0 {
					report(run, caseID, x, probs)
					bad = true
				}
				run.Count("contents_comparisons", 1)
			}
			if full {
				run.Seen("states", fmt.Sprintf("%x", hash(x.M.StateHash())))
			}
		}
		if !bad {
			if probs := x.CompareGet(); len(probs) > 0 {
				report(run, caseID, x, probs)
			}
			run.Count("get_comparisons", 1)
		}
		run.Eval(1)
		if x.M.Contents().Count() > 0 || len(x.M.Held) > 0 {
			run.Distinct(strings.Join(x.Trace, "\n"))
		}
		if i < 2 {
			run.Sample(map[string]any{"case": caseID, "forward_refs_disallowed": noFwd, "history": x.Trace})
		}
	})
	run.Assume("content-validity of generated payloads is decided by the generator's class tag (calibrated against the schema), not re-derived by the model")
	run.Finish("seeded random histories (8-40 ops; a few of 2000 in thorough) of ADD/REPLACE/DELETE over 5 tables x 3 NIs with 3-4 keys per table, rich payloads, cross-NI group refs, 4% content-invalid ops, interleaved flushes; 1 in 4 with forward references disallowed. Non-trivial = history leaves entries or held operations; distinct = by full history text", 100, false)
}

func opTable(s gen.OpSpec) string {
	str := s.String()
	i := strings.Index(str, "/")
	if i < 0 {
		return "?"
	}
	rest := str[i+1:]
	if j := strings.Index(rest, ":"); j >= 0 {
		return rest[:j]
	}
	return "?"
}

func hash(s string) uint64 {
	var h uint64 = 1469598103934665603
	for i := 0; i < len(s); i++ {
		h ^= uint64(s[i])
		h *= 1099511628211
	}
	return h
}
