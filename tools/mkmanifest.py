#!/usr/bin/env python3
"""Regenerates /verif/MANIFEST.json from the table below (single source of truth)."""
import json, os, subprocess
ROOT = os.path.dirname(os.path.dirname(os.path.abspath(__file__)))

# id -> (category, technique, level text, level note, design ref)
CHECKS = {
 "C01": ("exploration", "reference-model monitor (RIB fold) over seeded operation histories, compared after every operation via RIBContents, hooked pending set / refcounts and GetRIB",
         "Runs the real rib.RIB in lock step with an independent executable model of gRIBI ADD/REPLACE/DELETE/flush semantics over thousands of generated histories (tiny key space, rich payloads, invalid operations, both forward-reference modes); every verdict and the complete contents are compared after every step. Held on the histories produced, not a proof.",
         "trusted: the model (harness/model/rib.go), the canonicaliser (harness/canon), ygot's RIBContents deep copy; payload validity classes are calibrated against the schema, not re-derived", "4 C01"),
 "C02": ("exploration", "reference-model monitor following the implementation's cascade order; bounded-exhaustive arrival orders of small dependency graphs plus random graphs with perturbations; hooked pending-set completeness check",
         "Every arrival order of 12 small dependency graphs (both forward-reference modes, repeated to sample map-iteration order) and thousands of random graphs with delete/re-add/replace/flush perturbations are run against the real RIB; after every operation the verdict, the hooked pending set (== model's held set), completeness (nothing resolvable left held) and reference closure are checked.",
         "trusted: model + canonicaliser; cascade orders are those Go's map iteration produced in this run (counted in evidence), not all possible ones", "4 C02"),
 "C03": ("exploration", "invariant at a hook (reference counters == referrers recounted from contents) after every operation, plus model-judged DELETE sweep over every group/next-hop",
         "Histories biased to retargeting references (implicit/explicit replace to other groups, NIs, next-hop sets, duplicate indices, flushes) run on the real RIB; the hooked counters are compared with referrers recounted from RIBContents after every operation and a DELETE of every group and next-hop is judged by the model (FAILED iff referenced now), followed by full teardowns.",
         "trusted: model + canonicaliser + VerifRefCounts hook (read-only snapshot)", "4 C03"),
 "C04": ("exploration", "session/election/RIB reference model run in lock step with the real server over direct streams (and gRPC); full hooked-state comparison (contents, refcounts, held ops, highest id, primary, session table) and bystander-stream silence after every step",
         "Thousands of seeded interleavings of connect/negotiate, announce, operate and disconnect steps by up to four sessions, with announced ids that are ties and +-1 / opposing-halves neighbours of the maximum and operations stamped with the session's last id, the server maximum, a stale, a future, another session's id or none. Every operation's verdict is judged by the model and the complete server state is compared with the model after every step, so an unauthorised operation that changes anything is seen at once.",
         "trusted: session model (harness/mon/sessmon.go), RIB model, hooks VerifElection/VerifSessions; sequential interleavings decide (the concurrent side is C11)", "4 C04"),
 "C05": ("exploration", "bounded-exhaustive 128-bit id lattice + boundary-structured random announcement sequences against a running-maximum model; concurrent announcements under the race detector checked with porcupine (max-register) and a quiescent primary probe; yield-point injection",
         "All ordered pairs/triples of the 16 ids with halves in {0,1,2,2^64-1}, thousands of random sequences over boundary neighbours, and concurrent announcement histories by 4-8 sessions (own direct stream each, scheduling perturbed at the election yield points) are executed; every reply must be the running 128-bit maximum, the history must linearise as a max-register, and afterwards exactly the session entitled to it can program an operation.",
         "trusted: porcupine v1.3.0, the max-register model; built with -race (reports in repo frames are violations)", "4 C05"),
 "C06": ("exploration", "result-stream accountant + RIB reference model: every ModifyResponse attributed to its operation (barrier-delimited), per-stream multiset accounting over whole histories, hand-over scripts with colliding operation ids",
         "Single-session histories (RIB/FIB acknowledgement, batches up to 200, empty/unknown network instances, held operations that resolve or fail) and primary hand-over scripts (old primary connected / gone / re-announcing; equal or higher id; colliding operation ids) are run through the real server; each result is attributed and judged by the model, no stream may carry a result for an id it did not send, and the multiset of results per (stream, id) is accounted at the end.",
         "trusted: session + RIB models; 'answered by the time the barrier is answered' relies on one goroutine serving a Modify stream in order", "4 C06"),
 "C07": ("exploration", "round-trip/differential oracle: Get responses (direct stream and real gRPC) vs reference-model contents with an independent field-by-field canonicaliser; FromGetResponses rebuild",
         "RIBs built from generated histories with every payload field independently present are read back with every (network-instance selection x table) Get combination; the streamed entries are compared with the model as keyed multisets with field-level payload equality, Get(ALL) with the union of per-table Gets, and a RIB rebuilt with rib.FromGetResponses with the source. Evidence lists the fields whose round trip was actually exercised.",
         "trusted: model + canonicaliser (does not use the repository's protomap-based conversion); status codes of malformed Gets are not asserted (property silent)", "4 C07"),
 "C08": ("exploration", "complete election/NI decision table of Flush executed on generated RIBs + contents workload; reference model, hooked refcount invariant and model-judged aftermath (ops + delete sweep)",
         "All 300 cells of {learnt id} x {election field incl. 128-bit neighbours} x {network-instance field} are executed against servers with generated contents: status code, exact emptying / no change, election state untouched, consistent aftermath. Authorised flushes of every target selection run over generated RIBs with shared, missing and cyclic backup groups and cross-NI references.",
         "trusted: model; expected status codes taken from gRIBI spec 4.3 (detail reasons not asserted)", "4 C08"),
 "C09": ("exploration", "bounded-exhaustive message sequences (length <= 3 over a 20-symbol alphabet, 4 start states, 6 bystander configurations) plus random longer ones against the session model: termination status (code + reason), full hooked-state comparison, bystander silence, footprint probe",
         "Every sequence of up to three messages from {8 parameter combinations, election zero/low/equal/high, operation with/without id, 4 multi-field messages} is sent on a session started fresh / negotiated / primary / superseded, with other sessions present in six configurations; the status the RPC ends with must be in the set the gRIBI specification allows, the complete server state must equal the model after every message, other streams must stay silent, and afterwards a fresh session must be able to negotiate.",
         "trusted: session model; acceptance sets where the specification leaves room are listed in the evidence assumptions", "4 C09"),
 "C10": ("fault_enumeration", "systematic enumeration of client cut points (every send/read step of a Modify script x half-close/cancel/transport kill, Get cut after k responses) with a prefix-closed state oracle and a bounded-progress liveness probe under watchdog + quiescent goroutine-dump classifier, in child processes",
         "Every step of a scripted Modify session and every cut position of a streamed Get is used as a disconnect point, over direct streams and real gRPC (half-close, cancellation, killed transport), alone and in sequences. After each fault the contents and the highest election id must equal the state after some prefix of the unacknowledged operations, and a new session must negotiate, win the election, program an entry, read it back and flush - every step under a watchdog whose firing counts as a violation only if two goroutine dumps prove the server permanently blocked.",
         "trusted: model.Predict for operations whose answers were not read; quiescence detection by goroutine dumps (one workload per child process)", "4 C10"),
 "C11": ("exploration", "Go race detector (-race) over concurrent Modify/Get/Flush workloads with yield-point injection, in child processes; watchdog + quiescent goroutine-dump classifier for deadlock; porcupine linearizability of per-key registers and of the election max-register over the recorded history; quiescent invariants (hooked refcounts, election probe)",
         "2-16 sessions on their own transports negotiate, announce, modify, drop and reconnect while Get readers and Flush callers run against the same server, with scheduling perturbed at the repository's yield points. A race report with a repository frame, a proven permanent block, a process exit, a non-linearizable key or election history, or an inconsistent quiescent state is a violation. Held on the executions produced: a clean run is not absence of races.",
         "trusted: Go race detector, porcupine v1.3.0; single writer per key by construction; contents under an overlapping Flush are not judged beyond register semantics (the property exempts them)", "4 C11"),
 "C12": ("exploration", "hostile-input workload (structured protobuf mutation + named invalid classes) in sacrificial child processes with a state-unchanged oracle (contents, hooked pending set and refcounts), crash detection by process exit and hang detection by watchdog + quiescent goroutine-dump classifier",
         "Child processes each send hundreds of mutated or deliberately invalid AFT operations (through the RIB API and through a Modify stream) and Get/Flush request variants to a populated server that also carries a bystander session; each input is logged before it is sent so that a crash names its input. Invalid classes must be FAILED (or a clean RPC error) with contents, held operations and reference counters unchanged; inputs of unknown validity must not crash or hang and must leave state unchanged when rejected.",
         "trusted: the class tags of the generator; only wire-representable inputs are sent; the process boundary is the crash detector", "4 C12"),
 "C13": ("exploration", "conservation / exactly-once / convergence monitors over the real client library behind a scripted adversarial server (stub stream), with concurrent application, sampler and waiter goroutines; child processes with watchdog + proven-block classifier",
         "The client library runs against a scripted server that answers with arbitrary delay, cross-id reordering, batching and interleaved election/session responses (per-id RIB before FIB respected), or violates the protocol (unknown id, duplicate terminal result). A sampler checks that every operation whose Q returned is pending or represented by a result, a waiter checks that AwaitConverged succeeds only when every operation queued before the call already has its terminal result on the stream (RIB acks never complete operations in FIB mode), and at quiescence each id has exactly one terminal result whose details match the queued operation.",
         "trusted: the scripted server's own record of what it sent; terminal-status table; violations use statuses the client does not deliberately tolerate", "4 C13"),
 "C14": ("fault_enumeration", "enumeration of stream faults (failing Send index x failing receive position x 8 status codes x burst size x Close/Reset) against the real client over a scripted stub stream, with watchdog + proven-block classifier and a goroutine census, in child processes",
         "Every fault position of a scripted exchange on the send side and on the receive side, for eight gRPC status classes, is injected while the application queues a burst of further requests; each case then closes the client or resets, reconnects on a healthy stream and runs a further exchange. Every Q must return, Done must be signalled, AwaitConverged must return the recorded error, Close/Reset must return, no goroutine of the client package may survive, and the reset client must look fresh. A step that never returns is a violation only if two goroutine dumps prove the client permanently blocked.",
         "trusted: the stub's model of the gRPC stream contract (Send returns EOF, status arrives through Recv)", "4 C14"),
 "C15": ("exploration", "round-trip oracle: reconciler operations applied one by one to a live target RIB with reference checking on, then canonical contents equality",
         "Generated pairs of reference-closed RIBs (independent, equal, intended-plus-overlay; target network instances a superset) are reconciled; the emitted operations are applied in the documented order to the live target, each must be acknowledged, and the target's contents must equal the intended contents in every network instance; ids must be base+1..base+n and equal RIBs must yield no operations. 1 in 10 pairs observe the target through a real Get RPC.",
         "trusted: canonicaliser; generator of closed RIBs", "4 C15"),
 "C16": ("exploration", "folding monitor over post-change notifications compared with the reference model after every step; snapshot re-hash for resolved-entry notifications; 4 hook/NI creation orders",
         "A consumer registered through rib.SetPostChangeHook / server.WithPostChangeRIBHook folds ADD/DELETE notifications; after every step of generated histories (Modify-like ops, held-op resolution, flushes) the fold must equal the model in every NI, in four configurations of hook registration vs NI creation. Resolved-entry snapshots are hashed on receipt and re-hashed at the end.",
         "trusted: model + canonicaliser; resolved-entry callbacks are asynchronous: a run whose callbacks do not all arrive is inconclusive", "4 C16"),
 "C17": ("exploration", "differential oracle: each chk helper run on a capturing testing.TB against a direct field-by-field specification over generated result lists / Get responses / client errors, wants biased to one-aspect near-misses",
         "Tens of thousands of generated inputs per run for HasResult, HasResultsCache, GetResponseHasEntries, HasNSendErrors/HasNRecvErrors and HasRecvClientErrorWithStatus, over every entry kind and option combination, with about half of the wanted items absent by construction (other status, other id, same key of another kind or network instance, absent key, other type, key-less details); the helper must fail exactly when the specification says the item is absent, the cached checker must never pass where the plain one fails and must agree with it when keys are unique.",
         "trusted: the direct specifications in harness/c17; nil-versus-empty protobuf pairs are not generated", "4 C17"),
 "C18": ("exploration", "differential oracle: random programs of fluent builder calls interpreted by the real builders and by an expectation constructed from the call log; client programs through a recording stub stream with deep copies taken at capture",
         "Random call sequences over every With*/Add* method of every builder (repeats, any order, OpProto() taken mid-program) must yield exactly the message the calls specify; client programs of Add/Replace/DeleteEntry and UpdateElectionID with reused and re-modified builders must put ids 1,2,3.. , the requested operation type and the most recently set election id (or the entry's own) on the wire, and no queued message may change after it was queued.",
         "trusted: the expectation builder in harness/c18 (last call wins at the documented granularity)", "4 C18"),
 "C19": ("exploration", "re-execution of the compliance suite on long-lived reference servers in seeded permutations and configurations with a fatal-capturing testing.TB; fault enumeration over a catalogue of traffic-rewriting proxies (single-requirement faulty servers) whose designated tests must fail",
         "The whole suite runs in random orders on one long-lived in-memory server per configuration (election base 1 .. 2^63-2^20, renamed and unicode network-instance names): every non-skipped test must pass. Twenty proxies around the reference server each break one protocol requirement (misreported election id, accepted zero id, failed idempotent delete, REPLACE of a missing entry accepted, no implicit replace, stale / incomplete Get, ignored / over-eager / unauthorised Flush, repeated or differing parameters accepted, leaked results, unknown network instance accepted, forward references mishandled, non-primary operations acknowledged, omitted FIB acks, multi-field messages accepted): every test written for that requirement must fail while a control sample still passes.",
         "trusted: the proxies' faithfulness (control tests); compliance tests are run sequentially per process because the suite keeps its election id in a package-level counter", "4 C19"),
}
NOT_YET = "check not built yet in this session (planned, see DESIGN.md section 4); not claimed until it exists"

props = [json.loads(l)["id"] for l in open(os.path.join(ROOT, "properties.jsonl"))]
hook_commits = subprocess.run(["git", "-C", "/repo", "log", "--format=%h %s", "--grep=^verif:"], capture_output=True, text=True).stdout.strip().splitlines()
m = {
 "version": 1,
 "setup_cmd": "./check --build",
 "hooks": {
  "guard": "verif",
  "enable": "go test -tags verif (the harness module replaces github.com/openconfig/gribigo with /repo's working tree)",
  "baseline_off_cmd": "cd /repo && GOFLAGS=-mod=mod GOPROXY=off go test -json -vet=off -count=1 -timeout 25m ./...",
  "source_commits": [c.split()[0] for c in hook_commits],
  "add_only": True,
 },
 "engines": [
  {"name": "harness", "path": "harness", "serves_properties": sorted(CHECKS), "kind_free_text": "Go test binaries that run the real gribigo code under generated/hostile/fault-injected workloads next to reference models and monitors; driver ./check"},
 ],
 "checks": [],
 "not_applicable": [],
 "notes": "Runtime monitoring only. Every check rebuilds from /repo's working tree with -tags verif. Known findings: known_findings.txt. See DESIGN.md.",
}
for p in props:
    if p in CHECKS:
        cat, tech, text, note, ref = CHECKS[p]
        m["checks"].append({
         "property_id": p,
         "quick_cmd": f"./check {p} quick",
         "thorough_cmd": f"./check {p} thorough",
         "evidence_file": f"evidence/{p}.json",
         "replay_cmd_template": f"./check {p} --replay {{path}}",
         "engine": "harness",
         "level_claimed": {"category": cat, "text": text, "design_ref": ref},
         "level_note": note,
         "technique": tech,
        })
    else:
        m["not_applicable"].append({"property_id": p, "reason": NOT_YET})
json.dump(m, open(os.path.join(ROOT, "MANIFEST.json"), "w"), indent=1)
print("checks:", [c["property_id"] for c in m["checks"]], "not claimed:", len(m["not_applicable"]))
