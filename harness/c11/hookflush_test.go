package c11

import (
	"fmt"
	"math/rand"
	"sync"
	"sync/atomic"
	"time"

	"github.com/openconfig/gribigo/aft"
	"github.com/openconfig/gribigo/constants"
	"github.com/openconfig/gribigo/rib"
	"github.com/openconfig/gribigo/server"
	"github.com/openconfig/ygot/ygot"

	aftpb "github.com/openconfig/gribi/v1/proto/gribi_aft"
	spb "github.com/openconfig/gribi/v1/proto/service"

	"verifharness/child"
	"verifharness/drv"
	"verifharness/gen"
	"verifharness/mon"
)

// hookFlushScenario: a server configured the way a forwarding plane would use it - with a
// resolved-entry hook and a post-change hook registered - whose primary keeps programming
// complete chains (next-hop, group, IPv4 / IPv6 / MPLS entry) into all three instances
// while another caller flushes ALL instances over and over and a third reads the RIB
// contents. Contents under an overlapping Flush are not judged (the property exempts
// them); every request must be answered, and afterwards a chain can be programmed and read.
func hookFlushScenario(wr *child.Writer, caseID string, r *rand.Rand, thorough bool) (stop bool) {
	nis := []string{server.DefaultNetworkInstanceName, "VRF1", "VRF2"}
	var resolved, changed atomic.Int64
	srv, err := drv.NewServer(nis[1:],
		server.WithRIBResolvedEntryHook(func(_ map[string]*aft.RIB, _ constants.OpType, _ string, _ constants.AFT, _ any, _ ...rib.ResolvedDetails) {
			resolved.Add(1)
		}),
		server.WithPostChangeRIBHook(func(_ constants.OpType, _ int64, _ string, _ ygot.ValidatedGoStruct) { changed.Add(1) }))
	if err != nil {
		wr.Record(map[string]any{"kind": "inconclusive", "case": caseID, "text": err.Error()})
		return false
	}
	y := mon.NewYielder(r.Int63(), 3, 100)
	rib.VerifSetPoint(y.Point)
	defer rib.VerifSetPoint(nil)
	problem := func(sig, txt string) {
		wr.Record(map[string]any{"kind": "problem", "case": caseID, "sig": sig, "text": txt, "detail": map[string]any{"resolved_entry_notifications": resolved.Load(), "post_change_notifications": changed.Load()}})
	}
	var fired atomic.Bool
	blocked := func(what string) {
		if !fired.CompareAndSwap(false, true) {
			return
		}
		time.Sleep(2 * time.Second)
		if ok, desc := mon.ProvenBlock("gribigo/", time.Second); ok {
			problem("deadlock:hooks-and-flush:"+mon.BlockSignature(desc), what+" was never answered on a server with resolved-entry and post-change hooks under repeated Flushes of all instances, and the server is permanently blocked: "+desc)
		} else {
			wr.Record(map[string]any{"kind": "inconclusive", "case": caseID, "text": what + ": watchdog fired without a proven block (" + desc + ")"})
		}
	}
	s := &drv.Session{Stream: drv.OpenModify(srv), Name: "primary", DefaultNI: nis[0]}
	if _, err := s.Params(drv.SinglePrimary(false)); err != nil {
		wr.Record(map[string]any{"kind": "inconclusive", "case": caseID, "text": err.Error()})
		return false
	}
	el := &spb.Uint128{Low: 4}
	s.Elect(el)
	chain := func(id uint64, ni string, k uint64, kind int) []*spb.AFTOperation {
		ops := []*spb.AFTOperation{
			{Id: id, NetworkInstance: ni, Op: spb.AFTOperation_ADD, ElectionId: el, Entry: &spb.AFTOperation_NextHop{NextHop: &aftpb.Afts_NextHopKey{Index: k, NextHop: &aftpb.Afts_NextHop{IpAddress: gen.S("192.0.2.1")}}}},
			{Id: id + 1, NetworkInstance: ni, Op: spb.AFTOperation_ADD, ElectionId: el, Entry: &spb.AFTOperation_NextHopGroup{NextHopGroup: &aftpb.Afts_NextHopGroupKey{Id: k, NextHopGroup: &aftpb.Afts_NextHopGroup{NextHop: []*aftpb.Afts_NextHopGroup_NextHopKey{{Index: k, NextHop: &aftpb.Afts_NextHopGroup_NextHop{Weight: gen.U(1)}}}}}}},
		}
		switch kind {
		case 0:
			ops = append(ops, &spb.AFTOperation{Id: id + 2, NetworkInstance: ni, Op: spb.AFTOperation_ADD, ElectionId: el, Entry: &spb.AFTOperation_Ipv4{Ipv4: &aftpb.Afts_Ipv4EntryKey{Prefix: fmt.Sprintf("10.%d.0.0/16", k), Ipv4Entry: &aftpb.Afts_Ipv4Entry{NextHopGroup: gen.U(k)}}}})
		case 1:
			ops = append(ops, &spb.AFTOperation{Id: id + 2, NetworkInstance: ni, Op: spb.AFTOperation_ADD, ElectionId: el, Entry: &spb.AFTOperation_Ipv6{Ipv6: &aftpb.Afts_Ipv6EntryKey{Prefix: fmt.Sprintf("2001:db8:%x::/48", k), Ipv6Entry: &aftpb.Afts_Ipv6Entry{NextHopGroup: gen.U(k)}}}})
		default:
			ops = append(ops, &spb.AFTOperation{Id: id + 2, NetworkInstance: ni, Op: spb.AFTOperation_ADD, ElectionId: el, Entry: &spb.AFTOperation_Mpls{Mpls: &aftpb.Afts_LabelEntryKey{Label: &aftpb.Afts_LabelEntryKey_LabelUint64{LabelUint64: 100 + k}, LabelEntry: &aftpb.Afts_LabelEntry{NextHopGroup: gen.U(k)}}}})
		}
		return ops
	}
	done := make(chan struct{})
	var wg sync.WaitGroup
	var nFlush, nRead atomic.Int64
	wg.Add(2)
	go func() { // the flusher
		defer wg.Done()
		fr := rand.New(rand.NewSource(r.Int63()))
		for {
			select {
			case <-done:
				return
			default:
			}
			if _, ferr, wd := drv.Flush(srv, &spb.FlushRequest{NetworkInstance: &spb.FlushRequest_All{All: &spb.Empty{}}, Election: &spb.FlushRequest_Override{Override: &spb.Empty{}}}); wd != nil {
				blocked("a Flush of all instances")
				return
			} else if ferr != nil {
				problem("flush-error-under-concurrency", ferr.Error())
				return
			}
			nFlush.Add(1)
			time.Sleep(time.Duration(fr.Intn(400)) * time.Microsecond)
		}
	}()
	go func() { // a reader of the contents (package rib's own snapshot function)
		defer wg.Done()
		for {
			select {
			case <-done:
				return
			default:
			}
			rc := make(chan struct{})
			go func() { srv.VerifRIB().RIBContents(); close(rc) }()
			select {
			case <-rc:
			case <-time.After(drv.Watchdog):
				blocked("RIBContents")
				return
			}
			nRead.Add(1)
			time.Sleep(2 * time.Millisecond)
		}
	}()
	nChains := 12 + r.Intn(20)
	if thorough {
		nChains = 60 + r.Intn(120)
	}
	id := uint64(1)
	for k := 0; k < nChains && !fired.Load(); k++ {
		res := s.Ops(chain(id, nis[r.Intn(3)], uint64(1+r.Intn(6)), r.Intn(3)), el)
		id += 3
		if res.RPCErr == drv.ErrWatchdog {
			blocked("a batch of the primary (next-hop, group, entry)")
			break
		}
		if res.RPCErr != nil {
			problem("rpc-ended-under-concurrency", res.RPCErr.Error())
			break
		}
	}
	close(done)
	joined := make(chan struct{})
	go func() { wg.Wait(); close(joined) }()
	select {
	case <-joined:
	case <-time.After(drv.Watchdog + 5*time.Second):
		blocked("the flusher / reader")
	}
	if fired.Load() {
		return true
	}
	// quiescent: flush everything, program one chain, read it
	if _, ferr, wd := drv.Flush(srv, &spb.FlushRequest{NetworkInstance: &spb.FlushRequest_All{All: &spb.Empty{}}, Election: &spb.FlushRequest_Override{Override: &spb.Empty{}}}); wd != nil || ferr != nil {
		problem("flush-error-under-concurrency:final", fmt.Sprintf("%v %v", ferr, wd))
	}
	res := s.Ops(chain(id, "VRF1", 9, 0), el)
	okN := 0
	for _, ar := range res.Results {
		if ar.GetStatus() == spb.AFTResult_RIB_PROGRAMMED {
			okN++
		}
	}
	if okN != 3 {
		problem("operation-not-answered-exactly-once:after-flush-storm", fmt.Sprintf("a fresh chain after the last Flush was answered %v (rpcErr=%v)", res.Results, res.RPCErr))
	}
	s.CloseSend()
	wr.Record(map[string]any{"kind": "run", "case": caseID, "hook_and_flush_scenarios": 1, "chains_programmed_under_flush_storms": nChains, "flushes_of_all_instances_during_programming": nFlush.Load(),
		"contents_snapshots_during_programming": nRead.Load(), "resolved_entry_notifications": resolved.Load(), "post_change_notifications": changed.Load(), "signature": "hookflush"})
	return false
}
