package c07

import (
	"fmt"
	"strings"
	"sync"
	"sync/atomic"

	"github.com/openconfig/gribigo/rib"
	"github.com/openconfig/gribigo/server"

	spb "github.com/openconfig/gribi/v1/proto/service"

	"verifharness/canon"
	"verifharness/drv"
	"verifharness/ev"
	"verifharness/gen"
	"verifharness/model"
	"verifharness/mon"
)

// concurrentPhase: Gets issued WHILE a single writer programs a history, with the
// repository's yield points perturbed (between the exists-check and the write of an
// entry, between emissions of GetRIB). Two oracles:
//
//   - mid-run: GetRIB holds the network instance's lock for the whole instance, and the
//     writer changes one key per critical section, so for every key the value a Get
//     reports (or its absence) must be the value the model had for that key after some
//     operation j with lo <= j <= hi+1, where lo / hi are the numbers of operations the
//     writer had completed when the Get was called / had returned;
//   - at quiescence (writer done, readers done): Get(ALL) and every per-table Get equal
//     the model exactly - whatever the concurrent Gets did (e.g. filled a cache at an
//     unlucky moment) must have left no trace.
func concurrentPhase(run *ev.Run) {
	n := run.Pick(240, 4000)
	y := mon.NewYielder(run.Seed, 3, 120)
	rib.VerifSetPoint(y.Point)
	server.VerifSetPoint(y.Point)
	defer rib.VerifSetPoint(nil)
	defer server.VerifSetPoint(nil)
	ev.Parallel(n, ev.Workers(), func(i int) {
		caseID := fmt.Sprintf("conc-%d", i)
		if !run.Want(caseID) {
			return
		}
		r := run.Rand(caseID)
		g := gen.New(r)
		g.S.Default = server.DefaultNetworkInstanceName
		g.PInvalid = 0.01
		g.WDelete = 1
		// few keys, many rewrites of groups and next-hops
		g.WTable = [5]int{2, 2, 2, 6, 5}
		g.S.NIs = g.S.NIs[:1+r.Intn(2)]
		srv, err := drv.NewServer(g.S.NIs[1:])
		if err != nil {
			run.Fatal(err.Error())
			return
		}
		x := &mon.RIBMon{R: srv.VerifRIB(), M: model.NewRIB(g.S.Default, g.S.NIs, false), CheckHeld: true, CheckRefs: true}
		if i%2 == 1 {
			if err := x.ProgramVia(srv, nil); err != nil {
				run.Fatal(err.Error())
				return
			}
			defer x.Close()
		}
		nOps := 40 + r.Intn(80)
		specs := make([]gen.OpSpec, nOps)
		for k := range specs {
			specs[k] = g.Op()
		}
		// states[j] = model contents after j operations (written by the writer only,
		// read by the checker after everything has stopped)
		states := make([]canon.Contents, 1, nOps+1)
		states[0] = x.M.Contents()
		var done atomic.Int64
		var stop atomic.Bool
		type obs struct {
			lo, hi int
			aft    string
			tbls   []canon.Table
			got    canon.Contents
			dups   []string
			err    error
		}
		var mu sync.Mutex
		var seen []obs
		var wg sync.WaitGroup
		readers := 2 + r.Intn(2)
		for rd := 0; rd < readers; rd++ {
			wg.Add(1)
			go func(rd int) {
				defer wg.Done()
				for k := 0; k < 600 && !stop.Load(); k++ {
					a := afts[(rd+k)%len(afts)]
					if k%2 == 0 {
						a = afts[0]
						if rd%2 == 1 {
							a = afts[4] // NEXTHOP_GROUP
						}
					}
					req := &spb.GetRequest{Aft: a.t, NetworkInstance: &spb.GetRequest_All{All: &spb.Empty{}}}
					lo := int(done.Load())
					resps, err, wd := drv.Get(srv, req, 0)
					hi := int(done.Load())
					if wd != nil {
						run.Inconclusive(caseID + ": concurrent Get did not return within the watchdog")
						return
					}
					got, dups := canon.FromGet(resps)
					mu.Lock()
					seen = append(seen, obs{lo: lo, hi: hi, aft: a.name, tbls: a.tbl, got: got, dups: dups, err: err})
					mu.Unlock()
				}
			}(rd)
		}
		var probs []string
		// loose[j]: operation j released two or more held operations - one key may then go
		// through a value that is in neither the state before nor the state after
		loose := make([]bool, nOps+2)
		// multi[j]: operation j changed more than one key (it released a held operation): between
		// the two changes the instance is in neither the state before nor the state after
		multi := make([]bool, nOps+2)
		for k := 0; k < nOps && len(probs) == 0; k++ {
			res, p := x.Do(specs[k])
			loose[k+1] = res.Cascade >= 2
			multi[k+1] = res.Cascade >= 1
			probs = append(probs, p...)
			states = append(states, x.M.Contents())
			done.Add(1)
		}
		stop.Store(true)
		wg.Wait()
		final := len(states) - 1
		run.Count("concurrent_gets", int64(len(seen)))
		overl := 0
		for _, o := range seen {
			if len(probs) > 0 {
				break
			}
			if o.hi > o.lo {
				overl++
			}
			label := fmt.Sprintf("Get(all,%s) concurrent with operations %d..%d", o.aft, o.lo+1, o.hi+1)
			if o.err != nil {
				probs = append(probs, fmt.Sprintf("concurrent-get-error|%s: %v", label, o.err))
				continue
			}
			for _, d := range o.dups {
				probs = append(probs, "concurrent-get-duplicate-entry|"+label+": "+d)
			}
			top := o.hi + 1
			if top > final {
				top = final
			}
			skip := false
			for j := o.lo; j <= top; j++ {
				skip = skip || loose[j]
			}
			if skip {
				run.Count("concurrent_gets_not_judged_mid_run", 1)
				continue
			}
			// GetRIB holds the instance's lock for the whole instance: what a Get reports for one
			// instance is that instance as it was after ONE of the operations in the window - not
			// a mixture of several moments (tables read at different times)
			multiKey := false
			for j := o.lo; j <= top; j++ {
				multiKey = multiKey || multi[j]
			}
			for _, ni := range g.S.NIs {
				if multiKey {
					break
				}
				whole := false
				for j := o.lo; j <= top && !whole; j++ {
					whole = len(canon.Diff(canon.Contents{ni: scope(states[j], []string{ni}, o.tbls)[ni]}, canon.Contents{ni: o.got[ni]})) == 0
				}
				if !whole {
					probs = append(probs, fmt.Sprintf("concurrent-get-not-a-snapshot|%s: what was reported for %s is not the instance's contents after any single operation of the window (tables read at different moments?): %v", label, ni, o.got[ni]))
					break
				}
			}
			if len(probs) > 0 {
				break
			}
			// every key of every instance, over the union of keys in the window and in the answer
			for _, ni := range g.S.NIs {
				keys := map[canon.Key]bool{}
				for j := o.lo; j <= top; j++ {
					for k := range scope(states[j], []string{ni}, o.tbls)[ni] {
						keys[k] = true
					}
				}
				for k := range o.got[ni] {
					keys[k] = true
				}
				for k := range keys {
					gv, gok := o.got[ni][k]
					okAny := false
					for j := o.lo; j <= top && !okAny; j++ {
						mv, mok := scope(states[j], []string{ni}, o.tbls)[ni][k]
						okAny = (mok == gok) && (!mok || mv == gv)
					}
					if !okAny {
						what := "absent"
						if gok {
							what = gv
						}
						probs = append(probs, fmt.Sprintf("concurrent-get:%s|%s: %s/%s reported as %s, which it was after none of the operations in that window", k.T, label, ni, k, what))
					}
				}
			}
		}
		if overl > 0 {
			run.Count("concurrent_gets_overlapping_a_write", int64(overl))
		}
		// quiescent: exact
		if len(probs) == 0 {
			want := x.M.Contents()
			for rep := 0; rep < 2; rep++ {
				for _, a := range afts {
					req := &spb.GetRequest{Aft: a.t, NetworkInstance: &spb.GetRequest_All{All: &spb.Empty{}}}
					resps, err, wd := drv.Get(srv, req, 0)
					if wd != nil {
						run.Inconclusive(caseID + ": quiescent Get did not return within the watchdog")
						continue
					}
					if err != nil {
						probs = append(probs, fmt.Sprintf("get-error-on-valid-request:after-concurrent-reads|Get(all,%s): %v", a.name, err))
						continue
					}
					got, dups := canon.FromGet(resps)
					for _, d := range dups {
						probs = append(probs, "get-duplicate-entry|after concurrent reads: "+d)
					}
					for _, d := range canon.Diff(scope(want, g.S.NIs, a.tbl), got) {
						probs = append(probs, fmt.Sprintf("get-after-concurrent-reads:%s|Get(all,%s) at quiescence after %d concurrent Gets: %s", strings.Fields(d)[0], a.name, len(seen), d))
					}
				}
			}
			probs = append(probs, x.Compare()...)
			run.Count("quiescent_comparisons_after_concurrent_reads", 1)
		}
		mon.Report(run, caseID, x.Trace, probs)
		run.Eval(1)
		if x.M.Contents().Count() > 0 {
			run.Distinct("conc:" + strings.Join(x.Trace, "\n"))
		}
	})
	for k, v := range y.Hits() {
		run.Set("yield_point:"+k, v)
	}
}
