// Package canon turns AFT entries - gRIBI protobufs on one side, ygot GoStructs
// on the other - into one canonical textual form, written without using the
// repository's own proto<->struct mapping (protomap), so that "the payload that
// came back equals the payload that was programmed" can be decided independently.
//
// Canonical form of an entry payload: a tree of maps (containers and keyed list
// members), lists (leaf-lists, order preserved) and strings (leaves), printed
// with sorted keys. Field names are lower-cased with '_'/'-' removed, which makes
// the protobuf field name and the ygot Go field name of one YANG node coincide.
// Unset leaves, empty containers and empty leaf-lists are omitted; members of
// keyed lists are kept even when empty (the member's existence is information).
package canon

import (
	"encoding/hex"
	"fmt"
	"reflect"
	"sort"
	"strings"

	"github.com/openconfig/gribigo/aft"
	"github.com/openconfig/ygot/ygot"
	"google.golang.org/protobuf/proto"
	"google.golang.org/protobuf/reflect/protoreflect"

	aftpb "github.com/openconfig/gribi/v1/proto/gribi_aft"
	spb "github.com/openconfig/gribi/v1/proto/service"
)

// Table identifies an AFT table.
type Table int

const (
	V4 Table = iota
	V6
	MPLS
	NHG
	NH
	NumTables
)

func (t Table) String() string {
	return [...]string{"ipv4", "ipv6", "mpls", "nhg", "nh", "?"}[t]
}

// AFTType returns the gRIBI AFTType of the table.
func (t Table) AFTType() spb.AFTType {
	return [...]spb.AFTType{spb.AFTType_IPV4, spb.AFTType_IPV6, spb.AFTType_MPLS, spb.AFTType_NEXTHOP_GROUP, spb.AFTType_NEXTHOP}[t]
}

// Key identifies one entry within a network instance.
type Key struct {
	T Table
	K string // prefix, decimal label, decimal id
}

func (k Key) String() string { return k.T.String() + ":" + k.K }

// Contents is the canonical content of a whole RIB: ni -> key -> payload.
type Contents map[string]map[Key]string

// Clone returns a deep copy.
func (c Contents) Clone() Contents {
	out := Contents{}
	for ni, m := range c {
		mm := make(map[Key]string, len(m))
		for k, v := range m {
			mm[k] = v
		}
		out[ni] = mm
	}
	return out
}

// Count returns the number of entries.
func (c Contents) Count() int {
	n := 0
	for _, m := range c {
		n += len(m)
	}
	return n
}

// String renders the contents deterministically.
func (c Contents) String() string {
	nis := make([]string, 0, len(c))
	for ni := range c {
		nis = append(nis, ni)
	}
	sort.Strings(nis)
	var b strings.Builder
	for _, ni := range nis {
		keys := make([]Key, 0, len(c[ni]))
		for k := range c[ni] {
			keys = append(keys, k)
		}
		sort.Slice(keys, func(i, j int) bool {
			if keys[i].T != keys[j].T {
				return keys[i].T < keys[j].T
			}
			return keys[i].K < keys[j].K
		})
		for _, k := range keys {
			fmt.Fprintf(&b, "%s/%s=%s\n", ni, k, c[ni][k])
		}
	}
	return b.String()
}

// Diff lists the differences between want (model) and got (implementation),
// ignoring network instances that are empty on both sides.
func Diff(want, got Contents) []string {
	var out []string
	nis := map[string]bool{}
	for ni := range want {
		nis[ni] = true
	}
	for ni := range got {
		nis[ni] = true
	}
	for ni := range nis {
		w, g := want[ni], got[ni]
		for k, wv := range w {
			gv, ok := g[k]
			switch {
			case !ok:
				out = append(out, fmt.Sprintf("missing %s/%s (want %s)", ni, k, wv))
			case gv != wv:
				out = append(out, fmt.Sprintf("payload %s/%s want %s got %s", ni, k, wv, gv))
			}
		}
		for k, gv := range g {
			if _, ok := w[k]; !ok {
				out = append(out, fmt.Sprintf("extra %s/%s (got %s)", ni, k, gv))
			}
		}
	}
	sort.Strings(out)
	return out
}

func norm(s string) string {
	s = strings.ToLower(s)
	s = strings.ReplaceAll(s, "_", "")
	s = strings.ReplaceAll(s, "-", "")
	return s
}

func enumNorm(s string) string {
	s = strings.ToUpper(s)
	var b strings.Builder
	for _, c := range s {
		if (c >= 'A' && c <= 'Z') || (c >= '0' && c <= '9') {
			b.WriteRune(c)
		}
	}
	return b.String()
}

func render(v any) string {
	switch t := v.(type) {
	case nil:
		return "{}"
	case string:
		return fmt.Sprintf("%q", t)
	case []any:
		parts := make([]string, len(t))
		for i, e := range t {
			parts[i] = render(e)
		}
		return "[" + strings.Join(parts, ",") + "]"
	case map[string]any:
		keys := make([]string, 0, len(t))
		for k := range t {
			keys = append(keys, k)
		}
		sort.Strings(keys)
		parts := make([]string, len(keys))
		for i, k := range keys {
			parts[i] = k + ":" + render(t[k])
		}
		return "{" + strings.Join(parts, ",") + "}"
	}
	return fmt.Sprintf("?%T", v)
}

// ---------------------------------------------------------------- protobuf side

func protoEnumName(fd protoreflect.FieldDescriptor, n protoreflect.EnumNumber) string {
	ev := fd.Enum().Values().ByNumber(n)
	if ev == nil {
		return fmt.Sprintf("ENUM#%d", n)
	}
	name := string(ev.Name())
	if i := strings.Index(name, "_"); i >= 0 {
		name = name[i+1:]
	}
	return enumNorm(name)
}

func protoScalar(fd protoreflect.FieldDescriptor, v protoreflect.Value) string {
	switch fd.Kind() {
	case protoreflect.BytesKind:
		return "0x" + hex.EncodeToString(v.Bytes())
	case protoreflect.EnumKind:
		return protoEnumName(fd, v.Enum())
	case protoreflect.BoolKind:
		return fmt.Sprintf("%v", v.Bool())
	case protoreflect.StringKind:
		return v.String()
	default:
		return fmt.Sprintf("%v", v.Interface())
	}
}

// unionValue renders a union message (fields: one enum, one uint64/string ...): the
// populated member.
func unionValue(m protoreflect.Message) string {
	out := ""
	m.Range(func(fd protoreflect.FieldDescriptor, v protoreflect.Value) bool {
		out = protoScalar(fd, v)
		return false
	})
	if out == "" {
		return "0"
	}
	return out
}

func isWrapper(md protoreflect.MessageDescriptor) bool {
	return strings.HasPrefix(string(md.FullName()), "ywrapper.")
}

func wrapperValue(m protoreflect.Message) string {
	md := m.Descriptor()
	switch md.Name() {
	case "Decimal64Value":
		d := m.Get(md.Fields().ByName("digits")).Int()
		p := m.Get(md.Fields().ByName("precision")).Uint()
		return fmt.Sprintf("%de-%d", d, p)
	}
	fd := md.Fields().ByName("value")
	return protoScalar(fd, m.Get(fd))
}

// protoMsg canonicalises a (non-wrapper, non-key) message; returns nil if empty.
func protoMsg(m protoreflect.Message) map[string]any {
	out := map[string]any{}
	m.Range(func(fd protoreflect.FieldDescriptor, v protoreflect.Value) bool {
		name := norm(string(fd.Name()))
		switch {
		case fd.IsList():
			l := v.List()
			if l.Len() == 0 {
				return true
			}
			if fd.Kind() == protoreflect.MessageKind {
				mdName := string(fd.Message().Name())
				switch {
				case strings.HasSuffix(mdName, "Key"):
					mm := map[string]any{}
					for i := 0; i < l.Len(); i++ {
						k, payload := protoKeyed(l.Get(i).Message())
						// A duplicated list key is not representable in a keyed list: the
						// last member wins (generators avoid duplicates except where a
						// check targets them deliberately).
						if payload == nil {
							mm[k] = map[string]any{}
						} else {
							mm[k] = payload
						}
					}
					out[name] = mm
				case strings.HasSuffix(mdName, "Union"):
					ll := make([]any, l.Len())
					for i := 0; i < l.Len(); i++ {
						ll[i] = unionValue(l.Get(i).Message())
					}
					out[name] = ll
				default:
					ll := make([]any, l.Len())
					for i := 0; i < l.Len(); i++ {
						ll[i] = protoMsg(l.Get(i).Message())
					}
					out[name] = ll
				}
			} else {
				ll := make([]any, l.Len())
				for i := 0; i < l.Len(); i++ {
					ll[i] = protoScalar(fd, l.Get(i))
				}
				out[name] = ll
			}
		case fd.Kind() == protoreflect.MessageKind:
			sub := v.Message()
			if isWrapper(sub.Descriptor()) {
				out[name] = wrapperValue(sub)
				return true
			}
			if s := protoMsg(sub); s != nil {
				out[name] = s
			}
		case fd.Kind() == protoreflect.EnumKind:
			if v.Enum() != 0 {
				out[name] = protoEnumName(fd, v.Enum())
			}
		default:
			out[name] = protoScalar(fd, v)
		}
		return true
	})
	if len(out) == 0 {
		return nil
	}
	return out
}

// protoKeyed splits a XxxKey message into its key (scalar fields) and payload.
func protoKeyed(m protoreflect.Message) (string, map[string]any) {
	var keyParts []string
	var payload map[string]any
	fds := m.Descriptor().Fields()
	for i := 0; i < fds.Len(); i++ {
		fd := fds.Get(i)
		if fd.Kind() == protoreflect.MessageKind && !fd.IsList() {
			if m.Has(fd) {
				payload = protoMsg(m.Get(fd).Message())
			}
			continue
		}
		if fd.ContainingOneof() != nil && !m.Has(fd) {
			continue
		}
		keyParts = append(keyParts, protoScalar(fd, m.Get(fd)))
	}
	return strings.Join(keyParts, ","), payload
}

// Payload returns the canonical payload of a protobuf payload message (for
// example *aftpb.Afts_NextHop). A nil message yields "{}".
func Payload(m proto.Message) string {
	if m == nil || !m.ProtoReflect().IsValid() {
		return "{}"
	}
	return render(anyOrNil(protoMsg(m.ProtoReflect())))
}

func anyOrNil(m map[string]any) any {
	if m == nil {
		return nil
	}
	return m
}

// LabelKey returns the canonical key of an MPLS label entry key message.
func LabelKey(e *aftpb.Afts_LabelEntryKey) string {
	switch l := e.GetLabel().(type) {
	case *aftpb.Afts_LabelEntryKey_LabelUint64:
		return fmt.Sprintf("%d", l.LabelUint64)
	case *aftpb.Afts_LabelEntryKey_LabelOpenconfigmplstypesmplslabelenum:
		return enumNorm(strings.TrimPrefix(l.LabelOpenconfigmplstypesmplslabelenum.String(), "OPENCONFIGMPLSTYPESMPLSLABELENUM_"))
	}
	return ""
}

// OpKey returns the key and canonical payload of an AFT operation's entry; ok is
// false when the operation carries no (or a nil) entry.
func OpKey(op *spb.AFTOperation) (Key, string, bool) {
	switch t := op.GetEntry().(type) {
	case *spb.AFTOperation_Ipv4:
		if t.Ipv4 == nil {
			return Key{}, "", false
		}
		return Key{V4, t.Ipv4.GetPrefix()}, Payload(t.Ipv4.GetIpv4Entry()), true
	case *spb.AFTOperation_Ipv6:
		if t.Ipv6 == nil {
			return Key{}, "", false
		}
		return Key{V6, t.Ipv6.GetPrefix()}, Payload(t.Ipv6.GetIpv6Entry()), true
	case *spb.AFTOperation_Mpls:
		if t.Mpls == nil {
			return Key{}, "", false
		}
		return Key{MPLS, LabelKey(t.Mpls)}, Payload(t.Mpls.GetLabelEntry()), true
	case *spb.AFTOperation_NextHopGroup:
		if t.NextHopGroup == nil {
			return Key{}, "", false
		}
		return Key{NHG, fmt.Sprintf("%d", t.NextHopGroup.GetId())}, Payload(t.NextHopGroup.GetNextHopGroup()), true
	case *spb.AFTOperation_NextHop:
		if t.NextHop == nil {
			return Key{}, "", false
		}
		return Key{NH, fmt.Sprintf("%d", t.NextHop.GetIndex())}, Payload(t.NextHop.GetNextHop()), true
	}
	return Key{}, "", false
}

// EntryKey returns the key and canonical payload of a Get AFTEntry.
func EntryKey(e *spb.AFTEntry) (Key, string, bool) {
	switch t := e.GetEntry().(type) {
	case *spb.AFTEntry_Ipv4:
		return Key{V4, t.Ipv4.GetPrefix()}, Payload(t.Ipv4.GetIpv4Entry()), true
	case *spb.AFTEntry_Ipv6:
		return Key{V6, t.Ipv6.GetPrefix()}, Payload(t.Ipv6.GetIpv6Entry()), true
	case *spb.AFTEntry_Mpls:
		return Key{MPLS, LabelKey(t.Mpls)}, Payload(t.Mpls.GetLabelEntry()), true
	case *spb.AFTEntry_NextHopGroup:
		return Key{NHG, fmt.Sprintf("%d", t.NextHopGroup.GetId())}, Payload(t.NextHopGroup.GetNextHopGroup()), true
	case *spb.AFTEntry_NextHop:
		return Key{NH, fmt.Sprintf("%d", t.NextHop.GetIndex())}, Payload(t.NextHop.GetNextHop()), true
	}
	return Key{}, "", false
}

// FromGet builds Contents from Get responses; dups receives a description of every
// entry that appeared more than once.
func FromGet(resps []*spb.GetResponse) (Contents, []string) {
	c := Contents{}
	var dups []string
	for _, r := range resps {
		for _, e := range r.GetEntry() {
			k, p, ok := EntryKey(e)
			if !ok {
				dups = append(dups, fmt.Sprintf("entry without payload in NI %q", e.GetNetworkInstance()))
				continue
			}
			ni := e.GetNetworkInstance()
			if c[ni] == nil {
				c[ni] = map[Key]string{}
			}
			if _, dup := c[ni][k]; dup {
				dups = append(dups, fmt.Sprintf("duplicate %s/%s", ni, k))
			}
			c[ni][k] = p
		}
	}
	return c, dups
}

// ---------------------------------------------------------------- ygot side

func ygotScalar(v reflect.Value) (string, bool) {
	if !v.IsValid() {
		return "", false
	}
	if e, ok := v.Interface().(ygot.GoEnum); ok {
		if v.Int() == 0 {
			return "", false
		}
		m := e.ΛMap()
		if def, ok := m[v.Type().Name()][v.Int()]; ok {
			return enumNorm(def.Name), true
		}
		return fmt.Sprintf("ENUM#%d", v.Int()), true
	}
	switch v.Kind() {
	case reflect.String:
		return v.String(), true
	case reflect.Bool:
		return fmt.Sprintf("%v", v.Bool()), true
	case reflect.Uint, reflect.Uint8, reflect.Uint16, reflect.Uint32, reflect.Uint64:
		return fmt.Sprintf("%d", v.Uint()), true
	case reflect.Int, reflect.Int8, reflect.Int16, reflect.Int32, reflect.Int64:
		return fmt.Sprintf("%d", v.Int()), true
	case reflect.Float32, reflect.Float64:
		return fmt.Sprintf("%v", v.Float()), true
	case reflect.Slice:
		if v.Type().Elem().Kind() == reflect.Uint8 {
			return "0x" + hex.EncodeToString(v.Bytes()), true
		}
	}
	return "", false
}

func ygotStruct(v reflect.Value) map[string]any {
	for v.Kind() == reflect.Ptr || v.Kind() == reflect.Interface {
		if v.IsNil() {
			return nil
		}
		v = v.Elem()
	}
	if v.Kind() != reflect.Struct {
		return nil
	}
	out := map[string]any{}
	t := v.Type()
	for i := 0; i < t.NumField(); i++ {
		sf := t.Field(i)
		if !sf.IsExported() {
			continue
		}
		path := sf.Tag.Get("path")
		if strings.Contains(path, "|") {
			continue // list key leaf (state/x|x): carried by the key, not the payload
		}
		name := norm(sf.Name)
		fv := v.Field(i)
		switch fv.Kind() {
		case reflect.Ptr:
			if fv.IsNil() {
				continue
			}
			if fv.Elem().Kind() == reflect.Struct {
				if s := ygotStruct(fv); s != nil {
					out[name] = s
				}
				continue
			}
			if s, ok := ygotScalar(fv.Elem()); ok {
				out[name] = s
			}
		case reflect.Map:
			if fv.Len() == 0 {
				continue
			}
			mm := map[string]any{}
			it := fv.MapRange()
			for it.Next() {
				k := ygotKey(it.Key())
				if s := ygotStruct(it.Value()); s != nil {
					mm[k] = s
				} else {
					mm[k] = map[string]any{}
				}
			}
			out[name] = mm
		case reflect.Slice:
			if fv.Len() == 0 {
				continue
			}
			if fv.Type().Elem().Kind() == reflect.Uint8 {
				if s, ok := ygotScalar(fv); ok {
					out[name] = s
				}
				continue
			}
			ll := make([]any, fv.Len())
			for j := 0; j < fv.Len(); j++ {
				ll[j] = ygotUnion(fv.Index(j))
			}
			out[name] = ll
		case reflect.Interface:
			if fv.IsNil() {
				continue
			}
			out[name] = ygotUnion(fv)
		default:
			if s, ok := ygotScalar(fv); ok {
				out[name] = s
			}
		}
	}
	if len(out) == 0 {
		return nil
	}
	return out
}

func ygotUnion(v reflect.Value) string {
	for v.Kind() == reflect.Interface || v.Kind() == reflect.Ptr {
		if v.IsNil() {
			return "0"
		}
		v = v.Elem()
	}
	if s, ok := ygotScalar(v); ok {
		return s
	}
	if v.Kind() == reflect.Struct && v.NumField() == 1 {
		if s, ok := ygotScalar(v.Field(0)); ok {
			return s
		}
	}
	return fmt.Sprintf("?%v", v.Interface())
}

func ygotKey(v reflect.Value) string {
	for v.Kind() == reflect.Interface || v.Kind() == reflect.Ptr {
		v = v.Elem()
	}
	if v.Kind() == reflect.Struct {
		parts := make([]string, v.NumField())
		for i := range parts {
			parts[i] = ygotUnion(v.Field(i))
		}
		return strings.Join(parts, ",")
	}
	return ygotUnion(v)
}

// YgotPayload returns the canonical payload of one ygot AFT entry struct.
func YgotPayload(s any) string {
	if s == nil {
		return "{}"
	}
	return render(anyOrNil(ygotStruct(reflect.ValueOf(s))))
}

// FromYgotRIB canonicalises the content of one network instance.
func FromYgotRIB(r *aft.RIB) map[Key]string {
	out := map[Key]string{}
	a := r.GetAfts()
	if a == nil {
		return out
	}
	for p, e := range a.Ipv4Entry {
		out[Key{V4, p}] = YgotPayload(e)
	}
	for p, e := range a.Ipv6Entry {
		out[Key{V6, p}] = YgotPayload(e)
	}
	for l, e := range a.LabelEntry {
		out[Key{MPLS, ygotUnion(reflect.ValueOf(l))}] = YgotPayload(e)
	}
	for id, e := range a.NextHopGroup {
		out[Key{NHG, fmt.Sprintf("%d", id)}] = YgotPayload(e)
	}
	for id, e := range a.NextHop {
		out[Key{NH, fmt.Sprintf("%d", id)}] = YgotPayload(e)
	}
	return out
}

// FromYgot canonicalises rib.RIB.RIBContents().
func FromYgot(ribs map[string]*aft.RIB) Contents {
	c := Contents{}
	for ni, r := range ribs {
		c[ni] = FromYgotRIB(r)
	}
	return c
}

// YgotEntryKey returns the key and payload of a single ygot entry struct as handed
// to RIB hooks; ok is false for a nil entry or an unknown type.
func YgotEntryKey(s ygot.ValidatedGoStruct) (Key, string, bool) {
	switch e := s.(type) {
	case *aft.Afts_Ipv4Entry:
		if e == nil {
			return Key{}, "", false
		}
		return Key{V4, e.GetPrefix()}, YgotPayload(e), true
	case *aft.Afts_Ipv6Entry:
		if e == nil {
			return Key{}, "", false
		}
		return Key{V6, e.GetPrefix()}, YgotPayload(e), true
	case *aft.Afts_LabelEntry:
		if e == nil {
			return Key{}, "", false
		}
		return Key{MPLS, ygotUnion(reflect.ValueOf(e.GetLabel()))}, YgotPayload(e), true
	case *aft.Afts_NextHopGroup:
		if e == nil {
			return Key{}, "", false
		}
		return Key{NHG, fmt.Sprintf("%d", e.GetId())}, YgotPayload(e), true
	case *aft.Afts_NextHop:
		if e == nil {
			return Key{}, "", false
		}
		return Key{NH, fmt.Sprintf("%d", e.GetIndex())}, YgotPayload(e), true
	}
	return Key{}, "", false
}
