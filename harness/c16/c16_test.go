// C16: change-notification hooks mirror the RIB.
package c16

import (
	"fmt"
	"strings"
	"sync"
	"testing"
	"time"

	"github.com/openconfig/gribigo/aft"
	"github.com/openconfig/gribigo/constants"
	"github.com/openconfig/gribigo/rib"
	"github.com/openconfig/gribigo/server"
	"github.com/openconfig/ygot/ygot"

	aftpb "github.com/openconfig/gribi/v1/proto/gribi_aft"
	spb "github.com/openconfig/gribi/v1/proto/service"

	"verifharness/canon"
	"verifharness/drv"
	"verifharness/ev"
	"verifharness/gen"
	"verifharness/model"
	"verifharness/mon"
)

// fold reconstructs contents from post-change notifications.
type fold struct {
	mu       sync.Mutex
	c        canon.Contents
	n        int
	problems []string
}

func (f *fold) hook(op constants.OpType, _ int64, ni string, s ygot.ValidatedGoStruct) {
	f.mu.Lock()
	defer f.mu.Unlock()
	f.n++
	k, p, ok := canon.YgotEntryKey(s)
	if f.c[ni] == nil {
		f.c[ni] = map[canon.Key]string{}
	}
	switch op {
	case constants.Add, constants.Replace:
		if !ok {
			f.problems = append(f.problems, fmt.Sprintf("hook-add-without-entry|ADD notification in %s carries no entry (%T)", ni, s))
			return
		}
		f.c[ni][k] = p
	case constants.Delete:
		if !ok {
			return // DELETE of an absent key carries a nil entry
		}
		delete(f.c[ni], k)
	default:
		f.problems = append(f.problems, fmt.Sprintf("hook-unknown-optype|%v", op))
	}
}

// resolved collects resolved-entry notifications.
type resolved struct {
	mu   sync.Mutex
	evs  []resolvedEv
	prob []string
}

type resolvedEv struct {
	op    constants.OpType
	ni    string
	key   canon.Key
	ribs  map[string]*aft.RIB
	hash0 string
}

func keyOf(a constants.AFT, k any) (canon.Key, bool) {
	switch a {
	case constants.IPv4:
		return canon.Key{T: canon.V4, K: fmt.Sprint(k)}, true
	case constants.IPv6:
		return canon.Key{T: canon.V6, K: fmt.Sprint(k)}, true
	case constants.MPLS:
		return canon.Key{T: canon.MPLS, K: fmt.Sprint(k)}, true
	}
	return canon.Key{}, false
}

func (r *resolved) hook(ribs map[string]*aft.RIB, op constants.OpType, ni string, a constants.AFT, key any, _ ...rib.ResolvedDetails) {
	k, ok := keyOf(a, key)
	r.mu.Lock()
	defer r.mu.Unlock()
	if !ok {
		r.prob = append(r.prob, fmt.Sprintf("resolved-hook-unknown-aft|%v", a))
		return
	}
	r.evs = append(r.evs, resolvedEv{op: op, ni: ni, key: k, ribs: ribs, hash0: canon.FromYgot(ribs).String()})
}

const (
	cfgBefore     = iota // all NIs created before the hook is registered
	cfgAfterAdd          // VRFs added through AddNetworkInstance after registration
	cfgServerVRFs        // server.New(WithPostChangeRIBHook, WithVRFs)
	cfgServerLate        // server.New(hook) then Server.AddNetworkInstance
	numCfg
)

var cfgNames = []string{"ni-before-hook", "ni-after-hook(AddNetworkInstance)", "server.WithVRFs", "server.AddNetworkInstance"}

func build(cfg int, s gen.Space, f *fold, rs *resolved) (*rib.RIB, *server.Server, error) {
	rhook := func(ribs map[string]*aft.RIB, op constants.OpType, ni string, a constants.AFT, key any, d ...rib.ResolvedDetails) {
		rs.hook(ribs, op, ni, a, key, d...)
	}
	vrfs := []string{}
	for _, ni := range s.NIs {
		if ni != s.Default {
			vrfs = append(vrfs, ni)
		}
	}
	switch cfg {
	case cfgBefore:
		r := rib.New(s.Default)
		for _, v := range vrfs {
			if err := r.AddNetworkInstance(v); err != nil {
				return nil, nil, err
			}
		}
		r.SetPostChangeHook(f.hook)
		r.SetResolvedEntryHook(rhook)
		return r, nil, nil
	case cfgAfterAdd:
		r := rib.New(s.Default)
		r.SetPostChangeHook(f.hook)
		r.SetResolvedEntryHook(rhook)
		for _, v := range vrfs {
			if err := r.AddNetworkInstance(v); err != nil {
				return nil, nil, err
			}
		}
		return r, nil, nil
	case cfgServerVRFs:
		srv, err := server.New(server.WithPostChangeRIBHook(f.hook), server.WithRIBResolvedEntryHook(rhook), server.WithVRFs(vrfs))
		if err != nil {
			return nil, nil, err
		}
		return srv.VerifRIB(), srv, nil
	default:
		srv, err := server.New(server.WithPostChangeRIBHook(f.hook), server.WithRIBResolvedEntryHook(rhook))
		if err != nil {
			return nil, nil, err
		}
		for _, v := range vrfs {
			if err := srv.AddNetworkInstance(v); err != nil {
				return nil, nil, err
			}
		}
		return srv.VerifRIB(), srv, nil
	}
}

func TestCheck(t *testing.T) {
	run := ev.Start(t, "C16", "exploration")
	nHist := run.Pick(1600, 40000)
	ev.Parallel(nHist, ev.Workers(), func(i int) {
		caseID := fmt.Sprintf("hist-%d", i)
		if !run.Want(caseID) {
			return
		}
		r := run.Rand(caseID)
		g := gen.New(r)
		g.S.Default = server.DefaultNetworkInstanceName
		cfg := i % numCfg
		f := &fold{c: canon.Contents{}}
		rs := &resolved{}
		impl, srv, err := build(cfg, g.S, f, rs)
		if err != nil {
			run.Fatal(err.Error())
			return
		}
		x := &mon.RIBMon{R: impl, M: model.NewRIB(g.S.Default, g.S.NIs, false), CheckHeld: true, CheckRefs: true}
		// with a server, every other case makes its changes through the RPCs (Modify session of the
		// elected primary, Flush RPC) instead of calling package rib
		viaRPC := srv != nil && (i/numCfg)%2 == 1
		if viaRPC {
			if err := x.ProgramVia(srv, nil); err != nil {
				run.Fatal(err.Error())
				return
			}
			defer x.Close()
			run.Count("histories_through_modify_and_flush_rpcs", 1)
		}
		n := 8 + r.Intn(40)
		var probs []string
		expectResolved := 0
		specs := map[uint64]gen.OpSpec{}
		for step := 0; step < n && len(probs) == 0; step++ {
			if r.Intn(15) == 0 {
				nis := []string{g.S.NIs[r.Intn(len(g.S.NIs))]}
				if r.Intn(2) == 0 {
					nis = g.S.NIs
				}
				if viaRPC {
					req := &spb.FlushRequest{Election: &spb.FlushRequest_Override{Override: &spb.Empty{}}, NetworkInstance: &spb.FlushRequest_All{All: &spb.Empty{}}}
					if len(nis) == 1 {
						req.NetworkInstance = &spb.FlushRequest_Name{Name: nis[0]}
					}
					resp, ferr, wd := drv.Flush(srv, req)
					x.Trace = append(x.Trace, fmt.Sprintf("FLUSH RPC %v => %v %v", nis, resp.GetResult(), ferr))
					x.M.Flush(nis)
					if wd != nil {
						run.Inconclusive(caseID + ": Flush RPC hit the watchdog")
						return
					}
					if ferr != nil {
						probs = append(probs, fmt.Sprintf("flush-error|Flush RPC (%v) failed: %v", nis, ferr))
					}
				} else {
					x.Flush(nis)
				}
				run.Count("flushes", 1)
			} else {
				spec := g.Op()
				before := x.M.Contents()
				specs[spec.Op.GetId()] = spec
				res, p := x.Do(spec)
				probs = append(probs, p...)
				expectResolved += resolvedCount(spec, specs, before, x)
				run.Count("ops", 1)
				if res.Cascade > 0 {
					run.Count("held_ops_resolved", int64(res.Cascade))
				}
			}
			probs = append(probs, x.Compare()...)
			f.mu.Lock()
			probs = append(probs, f.problems...)
			for _, d := range canon.Diff(x.M.Contents(), f.c) {
				kind := strings.Fields(d)[0]
				probs = append(probs, fmt.Sprintf("hook-fold:%s|[%s] %s", kind, cfgNames[cfg], d))
			}
			f.mu.Unlock()
			run.Count("fold_comparisons", 1)
		}
		// Back-to-back add / delete of one top-level key (and flush right after an add): a snapshot
		// that is not taken at the moment of the change would show the later state.
		if len(probs) == 0 && i%3 == 0 {
			ni := g.S.NIs[r.Intn(len(g.S.NIs))]
			base := []gen.OpSpec{g.MkOp(spb.AFTOperation_ADD, canon.NH, ni, 0, true)}
			grp := g.MkOp(spb.AFTOperation_ADD, canon.NHG, ni, 0, false)
			grp.Op.GetNextHopGroup().NextHopGroup = &aftpb.Afts_NextHopGroup{NextHop: []*aftpb.Afts_NextHopGroup_NextHopKey{{Index: g.S.NHs[0], NextHop: &aftpb.Afts_NextHopGroup_NextHop{Weight: gen.U(1)}}}}
			base = append(base, grp)
			for _, o := range base {
				before := x.M.Contents()
				specs[o.Op.GetId()] = o
				_, p := x.Do(o)
				probs = append(probs, p...)
				expectResolved += resolvedCount(o, specs, before, x) // held entries may be released
			}
			for k := 0; k < 12 && len(probs) == 0; k++ {
				tbl := []canon.Table{canon.V4, canon.V6, canon.MPLS}[k%3]
				add := g.MkOp(spb.AFTOperation_ADD, tbl, ni, k, true)
				setNHG(add.Op, g.S.NHGs[0])
				del := g.MkOp(spb.AFTOperation_DELETE, tbl, ni, k, false)
				for _, o := range []gen.OpSpec{add, del} {
					before := x.M.Contents()
					specs[o.Op.GetId()] = o
					_, p := x.Do(o)
					probs = append(probs, p...)
					expectResolved += resolvedCount(o, specs, before, x)
				}
				run.Count("back_to_back_add_delete_pairs", 1)
			}
		}
		// Resolved-entry snapshots: wait for the asynchronous callbacks (watchdog: inconclusive).
		done := make(chan struct{})
		go func() {
			// the callbacks run in goroutines of their own: wait until all expected ones arrived
			for {
				rs.mu.Lock()
				n := len(rs.evs) + len(rs.prob)
				rs.mu.Unlock()
				if n >= expectResolved {
					close(done)
					return
				}
				time.Sleep(200 * time.Microsecond)
			}
		}()
		select {
		case <-done:
			rs.mu.Lock()
			probs = append(probs, rs.prob...)
			if len(probs) == 0 && len(rs.evs) != expectResolved {
				probs = append(probs, fmt.Sprintf("resolved-hook-count|expected %d resolved-entry notifications, got %d", expectResolved, len(rs.evs)))
			}
			for _, e := range rs.evs {
				snap := canon.FromYgot(e.ribs)
				if snap.String() != e.hash0 {
					probs = append(probs, fmt.Sprintf("resolved-snapshot-mutated|snapshot for %s %s/%s changed after delivery", e.op, e.ni, e.key))
				}
				_, present := snap[e.ni][e.key]
				switch e.op {
				case constants.Add:
					if !present {
						probs = append(probs, fmt.Sprintf("resolved-snapshot-lacks-added-entry|ADD %s/%s not in its snapshot", e.ni, e.key))
					}
				case constants.Delete:
					if present {
						probs = append(probs, fmt.Sprintf("resolved-snapshot-has-deleted-entry|DELETE %s/%s still in its snapshot", e.ni, e.key))
					}
				}
				run.Count("resolved_snapshots_checked", 1)
			}
			rs.mu.Unlock()
		case <-time.After(60 * time.Second):
			run.Inconclusive(caseID + ": resolved-entry callbacks did not all arrive within the watchdog")
		}
		f.mu.Lock()
		run.Count("notifications", int64(f.n))
		f.mu.Unlock()
		mon.Report(run, caseID, x.Trace, probs)
		run.Eval(1)
		run.Seen("configurations", cfgNames[cfg])
		if x.M.Contents().Count() > 0 {
			run.Distinct(fmt.Sprint(cfg) + strings.Join(x.Trace, "\n"))
		}
		if i < 2 {
			run.Sample(map[string]any{"case": caseID, "configuration": cfgNames[cfg], "history": x.Trace})
		}
	})
	uncheckedPhase(run)
	duringRegistration(run)
	run.Assume("a DELETE notification for a key that is not installed carries a nil entry and is ignored by the fold")
	run.Finish("seeded histories (8-48 ops, as C01, with held operations and flushes) on RIBs built in 4 configurations (all NIs before hook registration; VRFs via AddNetworkInstance after it; server.New with WithVRFs; server.New then Server.AddNetworkInstance); the post-change fold is compared with the model after every step, every resolved-entry snapshot is re-hashed at the end. Non-trivial = history leaves entries", 100, false)
}

// setNHG points a top-level entry at group id of its own network instance.
func setNHG(op *spb.AFTOperation, id uint64) {
	switch e := op.Entry.(type) {
	case *spb.AFTOperation_Ipv4:
		e.Ipv4.Ipv4Entry.NextHopGroup, e.Ipv4.Ipv4Entry.NextHopGroupNetworkInstance = gen.U(id), nil
	case *spb.AFTOperation_Ipv6:
		e.Ipv6.Ipv6Entry.NextHopGroup, e.Ipv6.Ipv6Entry.NextHopGroupNetworkInstance = gen.U(id), nil
	case *spb.AFTOperation_Mpls:
		e.Mpls.LabelEntry.NextHopGroup, e.Mpls.LabelEntry.NextHopGroupNetworkInstance = gen.U(id), nil
	}
}

// resolvedCount returns how many resolved-entry notifications the step must produce:
// one per acknowledged top-level install (the operation itself and every held
// operation it released) and one per top-level key actually removed by a DELETE.
func resolvedCount(spec gen.OpSpec, specs map[uint64]gen.OpSpec, before canon.Contents, x *mon.RIBMon) int {
	n := 0
	if spec.Op.GetOp().String() == "DELETE" {
		if len(x.LastOks) == 1 {
			if k, _, ok := canon.OpKey(spec.Op); ok && k.T <= canon.MPLS {
				if _, was := before[spec.NI][k]; was {
					n++
				}
			}
		}
		return n
	}
	for _, id := range x.LastOks {
		if s, ok := specs[id]; ok {
			if k, _, ok := canon.OpKey(s.Op); ok && k.T <= canon.MPLS {
				n++
			}
		}
	}
	return n
}
