// C04: only the elected primary's correctly stamped operations change the RIB.
package c04

import (
	"fmt"
	"math/rand"
	"strings"
	"testing"

	"github.com/openconfig/gribigo/server"

	spb "github.com/openconfig/gribi/v1/proto/service"

	"verifharness/drv"
	"verifharness/ev"
	"verifharness/gen"
	"verifharness/mon"
)

func nextID(r *rand.Rand, w *mon.SessWorld) *spb.Uint128 {
	if w.Max == nil {
		return &spb.Uint128{High: uint64(r.Intn(2)), Low: 1 + uint64(r.Intn(5))}
	}
	m := w.Max
	switch r.Intn(9) {
	case 0:
		return &spb.Uint128{High: m.High, Low: m.Low} // tie
	case 1:
		return &spb.Uint128{High: m.High, Low: m.Low + 1}
	case 2:
		if m.Low > 1 {
			return &spb.Uint128{High: m.High, Low: m.Low - 1} // lower
		}
		return &spb.Uint128{High: m.High, Low: m.Low + 2}
	case 3:
		return &spb.Uint128{High: m.High + 1, Low: 0} // higher in the high word only
	case 4:
		return &spb.Uint128{High: m.High + 1, Low: m.Low - 1}
	case 5:
		if m.High > 0 {
			return &spb.Uint128{High: m.High - 1, Low: ^uint64(0)} // lower: high word smaller, low word larger
		}
		return &spb.Uint128{High: 0, Low: m.Low + 3}
	case 6:
		if m.High > 0 {
			return &spb.Uint128{High: m.High - 1, Low: m.Low + 1}
		}
		return &spb.Uint128{High: 1, Low: 0}
	default:
		return &spb.Uint128{High: m.High, Low: m.Low + uint64(1+r.Intn(3))}
	}
}

func TestCheck(t *testing.T) {
	run := ev.Start(t, "C04", "exploration")
	nScripts := run.Pick(10000, 120000)
	ev.Parallel(nScripts, ev.Workers(), func(i int) {
		caseID := fmt.Sprintf("script-%d", i)
		if !run.Want(caseID) {
			return
		}
		r := run.Rand(caseID)
		g := gen.New(r)
		g.S.Default = server.DefaultNetworkInstanceName
		g.PInvalid = 0.02
		g.Rich = false
		g.WTable = [5]int{3, 1, 1, 4, 5}
		useGRPC := i%25 == 0
		w, err := mon.NewSessWorld(g.S, false, useGRPC)
		if err != nil {
			run.Fatal(err.Error())
			return
		}
		defer w.Close()
		var probs []string
		steps := 15 + r.Intn(45)
		live := func() []*mon.SS {
			var out []*mon.SS
			for _, s := range w.Sess {
				if s.Open {
					out = append(out, s)
				}
			}
			return out
		}
		for step := 0; step < steps && len(probs) == 0; step++ {
			ls := live()
			var actor *mon.SS
			choice := r.Intn(100)
			switch {
			case len(ls) == 0 || (len(ls) < 4 && choice < 10):
				s, p := w.Connect()
				probs = append(probs, p...)
				if s != nil && len(p) == 0 {
					probs = append(probs, w.SendParams(s, drv.SinglePrimary(false))...)
					actor = s
				}
				run.Count("connects", 1)
			case choice < 35:
				actor = ls[r.Intn(len(ls))]
				if !actor.Negotiated {
					continue
				}
				id := nextID(r, w)
				probs = append(probs, w.SendElection(actor, id)...)
				run.Count("announcements", 1)
			case choice < 92:
				actor = ls[r.Intn(len(ls))]
				if !actor.Negotiated {
					continue
				}
				stamp := mon.OpStamp(r.Intn(int(mon.NumStamps)))
				if r.Intn(2) == 0 {
					stamp = mon.StampLast
				}
				id := w.StampFor(actor, stamp)
				verdict, _, _, why := w.ClassifyOp(actor, id)
				n := 1 + r.Intn(3)
				specs := g.History(n)
				mixedReq := n > 1 && r.Intn(3) == 0
				if held := w.X.M.HeldIDs(); !mixedReq && verdict != mon.OpApply && len(held) > 0 && r.Intn(2) == 0 {
					// operation ids are only unique per stream: a rejected operation may carry
					// the id of an operation the primary has held - which must stay held
					for k := range specs {
						if k < len(held) {
							specs[k].Op.Id = held[(k+r.Intn(len(held)))%len(held)]
						}
					}
					uniq := map[uint64]bool{}
					for k := range specs {
						for uniq[specs[k].Op.Id] {
							specs[k].Op.Id = g.NextID
							g.NextID++
						}
						uniq[specs[k].Op.Id] = true
					}
					run.Count("rejected_operations_reusing_the_id_of_a_held_operation", 1)
				}
				before := w.X.M.StateHash()
				if mixedReq {
					// one request, individually stamped operations: the check is per operation
					stamps := make([]*spb.Uint128, n)
					mixed := false
					for k := range stamps {
						stamps[k] = id
						if r.Intn(2) == 0 {
							stamps[k] = w.StampFor(actor, mon.OpStamp(r.Intn(int(mon.NumStamps))))
							mixed = mixed || stamps[k] != id
						}
					}
					probs = append(probs, w.SendOpsMixed(actor, specs, stamps)...)
					if mixed {
						run.Count("requests_with_individually_stamped_operations", 1)
					}
					run.Count("operations", int64(n))
					break
				}
				probs = append(probs, w.SendOps(actor, specs, id)...)
				run.Count("operations", int64(n))
				cls := "applied"
				if verdict != mon.OpApply {
					cls = "rejected:" + strings.ReplaceAll(why, " ", "-")
					run.Count("rejected_operations_checked_for_side_effects", int64(n))
					if w.X.M.StateHash() != before {
						probs = append(probs, "HARNESS|model changed on a rejected operation")
					}
				}
				run.Seen("operation_classes", fmt.Sprintf("%s/%s", stamp, cls))
			case choice < 95 && len(ls) > 1:
				// an announcement and operations in ONE request: the request is refused as a
				// whole - the election it carries must not have been run (the primary stays)
				actor = ls[r.Intn(len(ls))]
				if !actor.Negotiated {
					continue
				}
				id := nextID(r, w)
				specs := g.History(1 + r.Intn(2))
				req := &spb.ModifyRequest{ElectionId: id}
				for _, sp := range specs {
					sp.Op.ElectionId = id
					req.Operation = append(req.Operation, sp.Op)
				}
				probs = append(probs, w.SendMulti(actor, req)...)
				run.Count("requests_combining_an_announcement_with_operations", 1)
			default:
				actor = ls[r.Intn(len(ls))]
				probs = append(probs, w.Disconnect(actor, []string{"close", "cancel", "abort"}[r.Intn(3)])...)
				run.Count("disconnects", 1)
			}
			probs = append(probs, w.CompareState()...)
			if actor != nil {
				probs = append(probs, w.QuietOthers(actor)...)
			}
			run.Count("full_state_comparisons", 1)
		}
		var real []string
		for _, p := range mon.Quarantine(probs) {
			if strings.HasPrefix(p, "INCONCLUSIVE|") {
				run.Inconclusive(caseID + ": " + p[13:])
				continue
			}
			if strings.HasPrefix(p, "HARNESS|") {
				run.Fatal(caseID + ": " + p[8:])
				continue
			}
			real = append(real, p)
		}
		mon.Report(run, caseID, w.Trace, real)
		run.Eval(1)
		run.Distinct(strings.Join(w.Trace, "\n"))
		if i < 2 {
			run.Sample(map[string]any{"case": caseID, "transport": map[bool]string{true: "grpc", false: "direct"}[useGRPC], "script": w.Trace})
		}
	})
	concurrentPhase(run)
	run.Finish("seeded sequential interleavings (15-60 steps) of connect+negotiate / announce / operate / disconnect by up to 4 live sessions (direct streams; 1 in 25 scripts over real gRPC); announced ids are ties, +-1 in either half, high-word-only and opposing-halves neighbours of the current maximum; each batch of 1-3 operations is stamped with the session's last id, the server maximum, a stale id, a future id, another session's id, or nothing; one multi-operation request in three stamps its operations individually (a correctly stamped operation next to stale / foreign ones in the same request). After EVERY step the complete hooked state (RIB contents, reference counters, held operations, highest id, primary, session table) is compared with the model, and every other session's stream must be silent. Plus a concurrent phase: 2-6 negotiated sessions announce different ids at the same moment (yield points of the election perturbed), round after round; afterwards the hooked highest id must be the highest announced and of one operation per session only the one of the session that announced the maximum may be programmed. Distinct = by script", 100, false)
}
