package mon

import (
	"fmt"
	"regexp"
	"runtime"
	"sort"
	"strings"
	"time"
	"verifharness/ev"
)

// Goroutine is one parsed goroutine of a full stack dump.
type Goroutine struct {
	ID    string
	State string
	Stack string // frames, addresses stripped
}

var hdrRe = regexp.MustCompile(`^goroutine (\d+) (?:gp=\S+ m=\S+ (?:mp=\S+ )?)?\[([^\],]+)`)
var addrRe = regexp.MustCompile(`\(0x[0-9a-f, .x]*\)|\+0x[0-9a-f]+|0x[0-9a-f]+`)

// Dump returns all goroutines of the process.
func Dump() []Goroutine {
	buf := make([]byte, 1<<20)
	for {
		n := runtime.Stack(buf, true)
		if n < len(buf) {
			buf = buf[:n]
			break
		}
		buf = make([]byte, 2*len(buf))
	}
	var out []Goroutine
	for _, blk := range strings.Split(string(buf), "\n\n") {
		lines := strings.Split(strings.TrimSpace(blk), "\n")
		if len(lines) == 0 {
			continue
		}
		m := hdrRe.FindStringSubmatch(lines[0])
		if m == nil {
			continue
		}
		out = append(out, Goroutine{ID: m[1], State: m[2], Stack: addrRe.ReplaceAllString(strings.Join(lines[1:], "\n"), "")})
	}
	return out
}

// InRepo filters goroutines having a frame of the code under test (not the harness).
func InRepo(gs []Goroutine, pkgs ...string) []Goroutine {
	if len(pkgs) == 0 {
		pkgs = []string{"github.com/openconfig/gribigo/server.", "github.com/openconfig/gribigo/rib.", "github.com/openconfig/gribigo/client."}
	}
	var out []Goroutine
	for _, g := range gs {
		for _, p := range pkgs {
			if strings.Contains(g.Stack, p) {
				out = append(out, g)
				break
			}
		}
	}
	return out
}

func blockedState(s string) bool {
	switch {
	case strings.HasPrefix(s, "chan send"), strings.HasPrefix(s, "chan receive"), strings.HasPrefix(s, "select"),
		strings.HasPrefix(s, "sync.Mutex.Lock"), strings.HasPrefix(s, "sync.RWMutex"), strings.HasPrefix(s, "semacquire"),
		strings.HasPrefix(s, "sync.WaitGroup.Wait"), strings.HasPrefix(s, "sync.Cond.Wait"):
		return true
	}
	return false
}

// ProvenBlock decides whether the code under test is permanently blocked: two
// dumps, gap apart, in which every goroutine with a frame of the code under test
// is the same goroutine, with the same stack, in a blocked state - and at least one
// of them contains the frame `needle` (the path of the awaited step). In such a
// quiescent system nothing is left that could produce the awaited event. Returns
// (proven, description).
func ProvenBlock(needle string, gap time.Duration, pkgs ...string) (bool, string) {
	a := InRepo(Dump(), pkgs...)
	time.Sleep(gap)
	b := InRepo(Dump(), pkgs...)
	key := func(gs []Goroutine) map[string]Goroutine {
		m := map[string]Goroutine{}
		for _, g := range gs {
			m[g.ID] = g
		}
		return m
	}
	ma, mb := key(a), key(b)
	if len(ma) == 0 || len(ma) != len(mb) {
		return false, fmt.Sprintf("goroutine sets differ between dumps (%d vs %d)", len(ma), len(mb))
	}
	found := false
	var desc []string
	for id, ga := range ma {
		gb, ok := mb[id]
		if !ok || ga.Stack != gb.Stack || ga.State != gb.State {
			return false, "an in-repo goroutine is still moving: " + id
		}
		if !blockedState(ga.State) {
			return false, "an in-repo goroutine is not blocked: " + id + " [" + ga.State + "]"
		}
		if strings.Contains(ga.Stack, needle) {
			found = true
		}
		desc = append(desc, fmt.Sprintf("g%s [%s] %s", id, ga.State, top(ga.Stack)))
	}
	sort.Strings(desc)
	if !found {
		return false, "no blocked goroutine on the awaited path " + needle
	}
	return true, strings.Join(desc, "; ")
}

// top returns the first in-repo function of a stack, without its arguments.
func top(stack string) string {
	for _, l := range strings.Split(stack, "\n") {
		l = strings.TrimSpace(l)
		if strings.HasPrefix(l, "github.com/openconfig/gribigo/") {
			fn := strings.TrimPrefix(l, "github.com/openconfig/gribigo/")
			for i := 0; i < len(fn); i++ {
				if fn[i] == '(' && (i+1 >= len(fn) || fn[i+1] != '*') {
					return fn[:i]
				}
			}
			return fn
		}
	}
	return "?"
}

// BlockSignature condenses a ProvenBlock description into a stable signature: the
// sorted set of functions in which goroutines wait for a lock, or sit inside package
// rib (goroutines leaked by earlier RPCs in other places do not enter the signature).
func BlockSignature(desc string) string {
	set := map[string]bool{}
	for _, p := range strings.Split(desc, "; ") {
		i := strings.Index(p, "] ")
		if i < 0 {
			continue
		}
		fn := p[i+2:]
		lock := strings.Contains(p, "Mutex") || strings.Contains(p, "semacquire")
		if lock || strings.HasPrefix(fn, "rib.") {
			set[fn] = true
		}
	}
	var out []string
	for s := range set {
		out = append(out, s)
	}
	sort.Strings(out)
	if len(out) == 0 {
		return "no-lock-waiter"
	}
	return strings.Join(out, ",")
}

// WaitQuiescent waits until the code under test is quiescent: in two consecutive
// dumps every goroutine with an in-repo frame is the same goroutine with the same
// stack in a blocked state (goroutines leaked by earlier RPCs are blocked for good
// and do not prevent this). Only meaningful when one workload at a time runs in the
// process. Returns false if that did not happen within max.
func WaitQuiescent(max time.Duration, pkgs ...string) bool {
	deadline := time.Now().Add(max)
	var prev map[string]Goroutine
	for {
		cur := map[string]Goroutine{}
		stable := true
		for _, g := range InRepo(Dump(), pkgs...) {
			cur[g.ID] = g
			if !blockedState(g.State) {
				stable = false
			}
		}
		if stable && prev != nil && len(prev) == len(cur) {
			same := true
			for id, g := range cur {
				if p, ok := prev[id]; !ok || p.Stack != g.Stack || p.State != g.State {
					same = false
					break
				}
			}
			if same {
				return true
			}
		}
		if stable {
			prev = cur
		} else {
			prev = nil
		}
		if time.Now().After(deadline) {
			return false
		}
		time.Sleep(150 * time.Microsecond)
	}
}

// ProvenBlockIgnoringPollers is ProvenBlock for workloads in which harness
// goroutines keep polling read-only APIs of the code under test: goroutines whose
// stack contains a harness frame and that are not blocked are ignored (they are the
// harness's own observers and cannot produce the awaited event); every goroutine
// that belongs to the code under test alone (no harness frame), and every blocked
// harness caller, must be identical and blocked in both dumps.
func ProvenBlockIgnoringPollers(needle string, gap time.Duration, pkgs ...string) (bool, string) {
	filter := func(gs []Goroutine) map[string]Goroutine {
		m := map[string]Goroutine{}
		for _, g := range InRepo(gs, pkgs...) {
			if strings.Contains(g.Stack, "verifharness/") && !blockedState(g.State) {
				continue
			}
			m[g.ID] = g
		}
		return m
	}
	ma := filter(Dump())
	time.Sleep(gap)
	mb := filter(Dump())
	found := false
	var desc []string
	// blocked harness callers may come and go (pollers caught while blocked briefly): only
	// goroutines present in both dumps count, and those without harness frames must all be present in both
	for id, ga := range ma {
		gb, ok := mb[id]
		harness := strings.Contains(ga.Stack, "verifharness/")
		if !ok {
			if harness {
				continue
			}
			return false, "an in-repo goroutine ended between the dumps: " + id
		}
		if ga.Stack != gb.Stack || ga.State != gb.State {
			if harness {
				continue
			}
			return false, "an in-repo goroutine is still moving: " + id
		}
		if !blockedState(ga.State) {
			return false, "an in-repo goroutine is not blocked: " + id + " [" + ga.State + "]"
		}
		if strings.Contains(ga.Stack, needle) {
			found = true
		}
		desc = append(desc, fmt.Sprintf("g%s [%s] %s", id, ga.State, top(ga.Stack)))
	}
	for id, gb := range mb {
		if _, ok := ma[id]; !ok && !strings.Contains(gb.Stack, "verifharness/") {
			return false, "an in-repo goroutine appeared between the dumps: " + id
		}
	}
	sort.Strings(desc)
	if !found {
		return false, "no blocked goroutine on the awaited path " + needle
	}
	return true, strings.Join(desc, "; ")
}

func init() {
	// (see ev.HangClassifier) proven only if some goroutine of the code under test waits for
	// a lock or sits inside package rib: goroutines leaked by ended RPCs are blocked for good
	// by design and prove nothing.
	ev.HangClassifier = func() (bool, string, string) {
		time.Sleep(500 * time.Millisecond)
		ok, desc := ProvenBlock("gribigo/", time.Second)
		if !ok {
			return false, "", desc
		}
		sig := BlockSignature(desc)
		if sig == "no-lock-waiter" {
			return false, "", "every goroutine of the code under test is idle: " + desc
		}
		return true, sig, desc
	}
}

// ProvenSpin reports a call that can never return although nothing is blocked: in three
// dumps, gap apart, exactly ONE goroutine has frames of the packages - the application's
// call itself (it has harness frames below and the awaited function on its stack) - and it
// sits in the same chain of package functions every time, sleeping or running. No other
// goroutine of the package exists that could change the state the call is polling, and the
// application is inside the call: a polling loop whose condition nobody can make true.
func ProvenSpin(needle string, gap time.Duration, pkgs ...string) (bool, string) {
	prev := ""
	desc := ""
	for k := 0; k < 3; k++ {
		if k > 0 {
			time.Sleep(gap)
		}
		gs := InRepo(Dump(), pkgs...)
		if len(gs) != 1 {
			return false, fmt.Sprintf("%d goroutines have frames of the package", len(gs))
		}
		g := gs[0]
		if !strings.Contains(g.Stack, "verifharness/") || !strings.Contains(g.Stack, needle) {
			return false, "the only goroutine of the package is not the awaited call"
		}
		var fns []string
		for _, l := range strings.Split(g.Stack, "\n") {
			l = strings.TrimSpace(l)
			for _, p := range pkgs {
				if strings.HasPrefix(l, p) {
					fn := strings.TrimPrefix(l, "github.com/openconfig/gribigo/")
					if i := strings.LastIndex(fn, "("); i > 0 && !strings.HasPrefix(fn[i:], "(*") {
						fn = fn[:i]
					}
					fns = append(fns, fn)
				}
			}
		}
		sig := g.ID + " " + strings.Join(fns, " < ")
		if k > 0 && sig != prev {
			return false, "the call is still moving through the package"
		}
		prev = sig
		desc = fmt.Sprintf("g%s [%s] %s", g.ID, g.State, strings.Join(fns, " < "))
	}
	return true, desc
}
