package c14

import (
	"context"
	"fmt"
	"sync"
	"time"

	"github.com/openconfig/gribigo/client"
	"google.golang.org/grpc/codes"
	"google.golang.org/grpc/status"

	spb "github.com/openconfig/gribi/v1/proto/service"

	"verifharness/drv"
)

// scripted is a real gRPC handler: it answers every request like a server would, and
// after `at` answers of a stream it either ends the RPC with a status (what a server that
// rejects the session, or a proxy, does) or has the client's transport cut under the RPC.
type scripted struct {
	spb.UnimplementedGRIBIServer
	mu      sync.Mutex
	healthy bool
	kill    bool
	at      int
	code    codes.Code
	cut     func()
	streams int
}

func (s *scripted) Modify(ms spb.GRIBI_ModifyServer) error {
	s.mu.Lock()
	s.streams++
	healthy, kill, at, code, cut := s.healthy, s.kill, s.at, s.code, s.cut
	s.mu.Unlock()
	fail := func() error {
		if kill {
			cut()
			<-ms.Context().Done()
			return ms.Context().Err()
		}
		return status.Error(code, "injected stream failure")
	}
	answered := 0
	if !healthy && at == 0 {
		return fail()
	}
	for {
		m, err := ms.Recv()
		if err != nil {
			return nil
		}
		r := &spb.ModifyResponse{}
		switch {
		case m.Params != nil:
			r.SessionParamsResult = &spb.SessionParametersResult{Status: spb.SessionParametersResult_OK}
		case m.ElectionId != nil:
			r.ElectionId = m.ElectionId
		default:
			for _, o := range m.Operation {
				r.Result = append(r.Result, &spb.AFTResult{Id: o.Id, Status: spb.AFTResult_RIB_PROGRAMMED})
			}
		}
		if err := ms.Send(r); err != nil {
			return err
		}
		answered++
		if !healthy && answered >= at {
			return fail()
		}
	}
}

// runGRPCCase is runCase over the real gRPC stack (bufconn): the fault is a status the
// handler returns, or the client's transport being cut, after f.at answers.
func runGRPCCase(col sink, st *stepper, caseID string, f fault, rep int) {
	problem := func(sig, txt string) {
		col.Violation(caseID, sig, txt, map[string]any{"fault": f.String()})
	}
	sc := &scripted{kill: f.side == "grpc-kill", at: f.at, code: f.code}
	gs := drv.Serve(sc)
	defer gs.Stop()
	cc, cut, err := gs.Dial()
	if err != nil {
		col.Fatal(err.Error())
		return
	}
	defer cc.Close()
	sc.cut = cut
	c, err := client.New(client.ElectedPrimaryClient(&spb.Uint128{Low: 1}), client.PersistEntries())
	if err != nil {
		col.Fatal(err.Error())
		return
	}
	c.UseStub(spb.NewGRIBIClient(cc))
	ctx, cancel := context.WithCancel(context.Background())
	defer cancel()
	st.current = "Connect"
	if err := c.Connect(ctx); err != nil {
		col.Fatal(err.Error())
		return
	}
	st.current = "StartSending"
	c.StartSending()
	id := uint64(1)
	for k := 0; k < 4; k++ {
		st.current = fmt.Sprintf("Q (request %d before the burst)", k+1)
		c.Q(nhReq(id))
		id++
	}
	if rep%2 == 1 {
		time.Sleep(time.Duration(rep*150) * time.Microsecond)
	}
	for k := 0; k < f.burst; k++ {
		st.current = fmt.Sprintf("Q (burst request %d of %d)", k+1, f.burst)
		c.Q(nhReq(id))
		id++
	}
	st.current = "waiting for Done"
	select {
	case <-c.Done():
	case <-time.After(25 * time.Second):
		panic("watchdog")
	}
	st.current = "AwaitConverged"
	wctx, wcancel := context.WithTimeout(ctx, 20*time.Second)
	aerr := c.AwaitConverged(wctx)
	wcancel()
	switch e := aerr.(type) {
	case nil:
		problem("converged-despite-stream-failure", "AwaitConverged returned nil although the RPC failed ("+f.String()+")")
	case *client.ClientErr:
		if len(e.Send)+len(e.Recv) == 0 {
			problem("empty-client-error", "AwaitConverged returned a ClientErr without errors")
		}
		col.Count("stream_errors_returned_by_await_converged", 1)
		if f.side == "grpc-status" {
			// the status the handler returned is what the receive side must have recorded
			found := false
			for _, re := range e.Recv {
				if s, ok := status.FromError(re); ok && s.Code() == f.code {
					found = true
				}
			}
			if !found {
				problem("stream-status-not-recorded", fmt.Sprintf("the RPC ended with %s, recorded receive errors: %v (send errors: %v)", f.code, e.Recv, e.Send))
			}
		}
	default:
		problem("await-converged-ignored-recorded-error", fmt.Sprintf("AwaitConverged returned %v instead of the recorded stream error", aerr))
	}
	if stt, _ := c.Status(); len(stt.SendErrs)+len(stt.ReadErrs) == 0 {
		problem("stream-error-not-recorded", "Status() shows no send or receive error after the RPC failed")
	}
	switch f.after {
	case "close":
		st.current = "Close"
		c.Close()
	case "reset":
		st.current = "Reset"
		c.Reset()
		st0, _ := c.Status()
		if len(st0.PendingTransactions) != 0 || len(st0.Results) != 0 || len(st0.SendErrs) != 0 || len(st0.ReadErrs) != 0 {
			problem("stale-state-after-reset", fmt.Sprintf("after Reset: pending=%d results=%d sendErrs=%d readErrs=%d", len(st0.PendingTransactions), len(st0.Results), len(st0.SendErrs), len(st0.ReadErrs)))
		}
		sc.mu.Lock()
		sc.healthy = true
		sc.mu.Unlock()
		st.current = "Connect after Reset"
		if err := c.Connect(ctx); err != nil {
			problem("reconnect-failed", err.Error())
			return
		}
		st.current = "StartSending after Reset"
		c.StartSending()
		for k := 0; k < 8; k++ {
			st.current = fmt.Sprintf("Q after Reset (%d)", k+1)
			c.Q(nhReq(1000 + uint64(k)))
		}
		st.current = "AwaitConverged after Reset"
		w2, c2 := context.WithTimeout(ctx, 20*time.Second)
		err := c.AwaitConverged(w2)
		c2()
		if err != nil {
			problem("fresh-exchange-after-reset-fails", fmt.Sprintf("AwaitConverged after Reset+Connect: %v", err))
		}
		st1, _ := c.Status()
		ids := map[uint64]bool{}
		for _, r := range st1.Results {
			if r != nil && r.OperationID != 0 {
				ids[r.OperationID] = true
			}
		}
		for id := range ids {
			if id < 1000 {
				problem("stale-result-after-reset", fmt.Sprintf("result for operation %d of the failed session is visible after Reset", id))
			}
		}
		if len(ids) != 8 || len(st1.PendingTransactions) != 0 {
			problem("fresh-exchange-after-reset-incomplete", fmt.Sprintf("results for %d of 8 operations, %d pending", len(ids), len(st1.PendingTransactions)))
		}
		col.Count("reset_reconnect_exchanges", 1)
		st.current = "Close after Reset"
		c.Close()
	}
	st.current = "goroutine census"
	var left []string
	for k := 0; k < 2000; k++ {
		left = clientGoroutines()
		if len(left) == 0 {
			break
		}
		time.Sleep(500 * time.Microsecond)
	}
	if len(left) > 0 {
		problem("client-goroutine-leak", fmt.Sprintf("%d goroutine(s) of the client package survive Close: %v", len(left), left))
	}
	col.Count("goroutine_censuses", 1)
	col.Count("cases_over_real_grpc", 1)
}
