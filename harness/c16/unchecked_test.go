package c16

import (
	"fmt"
	"strings"

	"github.com/openconfig/gribigo/rib"
	"github.com/openconfig/gribigo/server"

	spb "github.com/openconfig/gribi/v1/proto/service"

	"verifharness/canon"
	"verifharness/drv"
	"verifharness/ev"
	"verifharness/gen"
	"verifharness/mon"
)

// uncheckedPhase: the same histories on a RIB / server whose consistency checks are disabled
// (rib.DisableRIBCheckFn, server.DisableRIBCheckFn - a supported configuration in which
// nothing is held and referenced entries can be deleted). No reference model exists for that
// configuration, and none is needed: the fold of the post-change notifications is compared
// with RIBContents itself after every step.
func uncheckedPhase(run *ev.Run) {
	n := run.Pick(400, 10000)
	ev.Parallel(n, ev.Workers(), func(i int) {
		caseID := fmt.Sprintf("unchecked-%d", i)
		if !run.Want(caseID) {
			return
		}
		r := run.Rand(caseID)
		g := gen.New(r)
		g.S.Default = server.DefaultNetworkInstanceName
		f := &fold{c: canon.Contents{}}
		var vrfs []string
		for _, ni := range g.S.NIs {
			if ni != g.S.Default {
				vrfs = append(vrfs, ni)
			}
		}
		var R *rib.RIB
		var srv *server.Server
		cfg := i % 3
		switch cfg {
		case 0: // instances before the hook
			R = rib.New(g.S.Default, rib.DisableRIBCheckFn())
			for _, v := range vrfs {
				if err := R.AddNetworkInstance(v); err != nil {
					run.Fatal(err.Error())
					return
				}
			}
			R.SetPostChangeHook(f.hook)
		case 1: // instances after the hook
			R = rib.New(g.S.Default, rib.DisableRIBCheckFn())
			R.SetPostChangeHook(f.hook)
			for _, v := range vrfs {
				if err := R.AddNetworkInstance(v); err != nil {
					run.Fatal(err.Error())
					return
				}
			}
		default:
			var err error
			srv, err = server.New(server.DisableRIBCheckFn(), server.WithPostChangeRIBHook(f.hook), server.WithVRFs(vrfs))
			if err != nil {
				run.Fatal(err.Error())
				return
			}
			R = srv.VerifRIB()
		}
		var trace, probs []string
		compare := func() {
			c, err := R.RIBContents()
			if err != nil {
				probs = append(probs, "rib-contents-error|"+err.Error())
				return
			}
			have := canon.FromYgot(c)
			f.mu.Lock()
			probs = append(probs, f.problems...)
			for _, d := range canon.Diff(have, f.c) {
				kind := strings.Fields(d)[0]
				probs = append(probs, fmt.Sprintf("hook-fold-unchecked:%s|[checks disabled, cfg %d] %s", kind, cfg, d))
			}
			f.mu.Unlock()
			run.Count("fold_comparisons_with_checks_disabled", 1)
		}
		steps := 10 + r.Intn(40)
		for s := 0; s < steps && len(probs) == 0; s++ {
			if r.Intn(18) == 0 {
				nis := []string{g.S.NIs[r.Intn(len(g.S.NIs))]}
				if r.Intn(2) == 0 {
					nis = g.S.NIs
				}
				if srv != nil {
					req := &spb.FlushRequest{Election: &spb.FlushRequest_Override{Override: &spb.Empty{}}, NetworkInstance: &spb.FlushRequest_All{All: &spb.Empty{}}}
					if len(nis) == 1 {
						req.NetworkInstance = &spb.FlushRequest_Name{Name: nis[0]}
					}
					_, ferr, wd := drv.Flush(srv, req)
					if wd != nil {
						run.Inconclusive(caseID + ": Flush RPC hit the watchdog")
						return
					}
					trace = append(trace, fmt.Sprintf("FLUSH RPC %v => %v", nis, ferr))
				} else {
					err := R.Flush(nis)
					trace = append(trace, fmt.Sprintf("FLUSH %v => %v", nis, err))
				}
			} else {
				spec := g.Op()
				// deletes of entries that are referenced are the point of this configuration
				if r.Intn(3) == 0 {
					spec = g.MkOp(spb.AFTOperation_DELETE, []canon.Table{canon.NHG, canon.NH, canon.NHG}[r.Intn(3)], g.S.NIs[r.Intn(len(g.S.NIs))], r.Intn(4), false)
				}
				oks, fails, err := mon.Apply(R, spec)
				trace = append(trace, fmt.Sprintf("%s => ok=%d failed=%d err=%v", spec, len(oks), len(fails), err))
				run.Count("ops_with_checks_disabled", 1)
			}
			compare()
		}
		mon.Report(run, caseID, trace, probs)
		run.Eval(1)
		f.mu.Lock()
		if len(f.c) > 0 && f.n > 0 {
			run.Distinct("unchecked" + strings.Join(trace, "\n"))
		}
		run.Count("notifications_with_checks_disabled", int64(f.n))
		f.mu.Unlock()
		run.Seen("configurations", "checks-disabled")
	})
}
