// C09: session negotiation / protocol violations: specified status, no side effects.
package c09

import (
	"fmt"
	"math/rand"
	"strings"
	"testing"

	"github.com/openconfig/gribigo/server"

	spb "github.com/openconfig/gribi/v1/proto/service"

	"verifharness/canon"
	"verifharness/drv"
	"verifharness/ev"
	"verifharness/gen"
	"verifharness/mon"
)

type symbol struct {
	name string
	do   func(w *mon.SessWorld, s *mon.SS, g *gen.Gen) []string
}

func params(r spb.SessionParameters_ClientRedundancy, p spb.SessionParameters_AFTPersistence, a spb.SessionParameters_AFTResultStatusType) *spb.SessionParameters {
	return &spb.SessionParameters{Redundancy: r, Persistence: p, AckType: a}
}

func relID(w *mon.SessWorld, rel string) *spb.Uint128 {
	m := w.Max
	if m == nil {
		m = &spb.Uint128{High: 1, Low: 5}
	}
	switch rel {
	case "zero":
		return &spb.Uint128{}
	case "low":
		if m.Low > 0 {
			return &spb.Uint128{High: m.High, Low: m.Low - 1}
		}
		return &spb.Uint128{High: m.High - 1, Low: 9}
	case "equal":
		return &spb.Uint128{High: m.High, Low: m.Low}
	case "high-wrap":
		// a valid id above the maximum whose two 64-bit halves add up to exactly 2^64 (any
		// arithmetic on the halves instead of a 128-bit comparison mistakes it for zero)
		return &spb.Uint128{High: m.High + 1, Low: ^uint64(0) - m.High}
	}
	return &spb.Uint128{High: m.High, Low: m.Low + 1}
}

func oneOp(g *gen.Gen) []gen.OpSpec {
	o := g.MkOp(spb.AFTOperation_ADD, canon.NH, g.S.Default, g.R.Intn(3), true)
	return []gen.OpSpec{o}
}

func alphabet() []symbol {
	var out []symbol
	for _, r := range []spb.SessionParameters_ClientRedundancy{spb.SessionParameters_ALL_PRIMARY, spb.SessionParameters_SINGLE_PRIMARY} {
		for _, p := range []spb.SessionParameters_AFTPersistence{spb.SessionParameters_DELETE, spb.SessionParameters_PRESERVE} {
			for _, a := range []spb.SessionParameters_AFTResultStatusType{spb.SessionParameters_RIB_ACK, spb.SessionParameters_RIB_AND_FIB_ACK} {
				r, p, a := r, p, a
				out = append(out, symbol{fmt.Sprintf("P(%s,%s,%s)", short(r.String()), short(p.String()), short(a.String())), func(w *mon.SessWorld, s *mon.SS, g *gen.Gen) []string {
					return w.SendParams(s, params(r, p, a))
				}})
			}
		}
	}
	for _, rel := range []string{"zero", "low", "equal", "high", "high-wrap"} {
		rel := rel
		out = append(out, symbol{"E(" + rel + ")", func(w *mon.SessWorld, s *mon.SS, g *gen.Gen) []string {
			return w.SendElection(s, relID(w, rel))
		}})
	}
	out = append(out, symbol{"O(id)", func(w *mon.SessWorld, s *mon.SS, g *gen.Gen) []string {
		id := s.Last
		if id == nil {
			id = relID(w, "equal")
		}
		return w.SendOps(s, oneOp(g), id)
	}})
	out = append(out, symbol{"O(no-id)", func(w *mon.SessWorld, s *mon.SS, g *gen.Gen) []string {
		return w.SendOps(s, oneOp(g), nil)
	}})
	for _, unk := range []bool{false, true} {
		unk := unk
		out = append(out, symbol{fmt.Sprintf("O(id)+O(no-id,unknown-type=%v)", unk), func(w *mon.SessWorld, s *mon.SS, g *gen.Gen) []string {
			return w.SendGoodThenUnstamped(s, oneOp(g)[0], oneOp(g)[0], unk)
		}})
	}
	sp := drv.SinglePrimary(false)
	out = append(out, symbol{"M(params+election)", func(w *mon.SessWorld, s *mon.SS, g *gen.Gen) []string {
		return w.SendMulti(s, &spb.ModifyRequest{Params: sp, ElectionId: relID(w, "high")})
	}})
	out = append(out, symbol{"M(params+zero-election)", func(w *mon.SessWorld, s *mon.SS, g *gen.Gen) []string {
		// a present but all-zero election id still populates the field
		return w.SendMulti(s, &spb.ModifyRequest{Params: sp, ElectionId: &spb.Uint128{}})
	}})
	out = append(out, symbol{"M(zero-election+op)", func(w *mon.SessWorld, s *mon.SS, g *gen.Gen) []string {
		o := oneOp(g)[0]
		o.Op.ElectionId = relID(w, "equal")
		return w.SendMulti(s, &spb.ModifyRequest{ElectionId: &spb.Uint128{}, Operation: []*spb.AFTOperation{o.Op}})
	}})
	out = append(out, symbol{"M(params+op)", func(w *mon.SessWorld, s *mon.SS, g *gen.Gen) []string {
		o := oneOp(g)[0]
		o.Op.ElectionId = relID(w, "equal")
		return w.SendMulti(s, &spb.ModifyRequest{Params: sp, Operation: []*spb.AFTOperation{o.Op}})
	}})
	out = append(out, symbol{"M(election+op)", func(w *mon.SessWorld, s *mon.SS, g *gen.Gen) []string {
		o := oneOp(g)[0]
		id := relID(w, "high")
		o.Op.ElectionId = id
		return w.SendMulti(s, &spb.ModifyRequest{ElectionId: id, Operation: []*spb.AFTOperation{o.Op}})
	}})
	out = append(out, symbol{"M(all)", func(w *mon.SessWorld, s *mon.SS, g *gen.Gen) []string {
		o := oneOp(g)[0]
		id := relID(w, "high")
		o.Op.ElectionId = id
		return w.SendMulti(s, &spb.ModifyRequest{Params: sp, ElectionId: id, Operation: []*spb.AFTOperation{o.Op}})
	}})
	return out
}

func short(s string) string {
	switch s {
	case "ALL_PRIMARY":
		return "ALL"
	case "SINGLE_PRIMARY":
		return "SINGLE"
	case "RIB_AND_FIB_ACK":
		return "FIB"
	case "RIB_ACK":
		return "RIB"
	}
	return s
}

var bystanderCfgs = []string{"none", "primary-rib", "primary-fib", "unnegotiated", "primary-rib+unnegotiated", "two-negotiated-rib"}

// bystanders sets up the other sessions; returns the ack type the negotiated ones use (nil if none).
func bystanders(w *mon.SessWorld, g *gen.Gen, cfg string) ([]string, *bool) {
	var probs []string
	neg := func(fib bool, elect *spb.Uint128, ops int) {
		s, p := w.Connect()
		probs = append(probs, p...)
		probs = append(probs, w.SendParams(s, drv.SinglePrimary(fib))...)
		if elect != nil {
			probs = append(probs, w.SendElection(s, elect)...)
			for k := 0; k < ops; k++ {
				probs = append(probs, w.SendOps(s, []gen.OpSpec{g.MkOp(spb.AFTOperation_ADD, canon.NH, g.S.Default, k, true)}, elect)...)
			}
		}
	}
	t, f := true, false
	switch cfg {
	case "none":
		return probs, nil
	case "primary-rib":
		neg(false, &spb.Uint128{High: 1, Low: 5}, 2)
		return probs, &f
	case "primary-fib":
		neg(true, &spb.Uint128{High: 1, Low: 5}, 2)
		return probs, &t
	case "unnegotiated":
		_, p := w.Connect()
		return append(probs, p...), nil
	case "primary-rib+unnegotiated":
		neg(false, &spb.Uint128{High: 1, Low: 5}, 1)
		_, p := w.Connect()
		return append(probs, p...), &f
	default:
		neg(false, &spb.Uint128{High: 1, Low: 5}, 1)
		neg(false, &spb.Uint128{High: 0, Low: 3}, 0)
		return probs, &f
	}
}

var startStates = []string{"fresh", "negotiated", "negotiated+primary", "negotiated+non-primary"}

func runSeq(run *ev.Run, caseID string, r *rand.Rand, cfg string, start string, seq []symbol, grpc bool) {
	g := gen.New(r)
	g.S.Default = server.DefaultNetworkInstanceName
	g.NextID = 1000
	w, err := mon.NewSessWorld(g.S, false, grpc)
	if err != nil {
		run.Fatal(err.Error())
		return
	}
	defer w.Close()
	w.StrictNoElectionID = true
	probs, ack := bystanders(w, g, cfg)
	subject, p := w.Connect()
	probs = append(probs, p...)
	if start != "fresh" && len(probs) == 0 {
		fib := false
		if ack != nil {
			fib = *ack
		}
		pp := w.SendParams(subject, drv.SinglePrimary(fib))
		if !subject.Open && cfg != "none" && len(pp) == 0 {
			// an un-negotiated bystander may legitimately keep the subject out: nothing to explore from here
			run.Count("start_state_unreachable", 1)
			return
		}
		probs = append(probs, pp...)
		switch start {
		case "negotiated+primary":
			probs = append(probs, w.SendElection(subject, relID(w, "high"))...)
		case "negotiated+non-primary":
			if w.Max == nil {
				// no bystander primary: make the subject announce, then be superseded by nobody -> it is primary; skip
				run.Count("start_state_unreachable", 1)
				return
			}
			probs = append(probs, w.SendElection(subject, relID(w, "low"))...)
		}
		probs = append(probs, w.CompareState()...)
	}
	for _, sym := range seq {
		if len(probs) > 0 || !subject.Open {
			break
		}
		probs = append(probs, sym.do(w, subject, g)...)
		probs = append(probs, w.CompareState()...)
		probs = append(probs, w.QuietOthers(subject)...)
		run.Count("messages", 1)
		if !subject.Open {
			run.Count("rpc_terminations_judged", 1)
		}
	}
	// Footprint: once the subject is gone a fresh session with acceptable parameters must get in.
	if len(probs) == 0 {
		if subject.Open {
			probs = append(probs, w.Disconnect(subject, "close")...)
		}
		probs = append(probs, w.CompareState()...)
		fresh, p := w.Connect()
		probs = append(probs, p...)
		fib := false
		if ack != nil {
			fib = *ack
		}
		if len(probs) == 0 {
			pp := w.SendParams(fresh, drv.SinglePrimary(fib))
			for _, x := range pp {
				probs = append(probs, strings.Replace(x, "|", "|after the failed session left: ", 1))
			}
			if fresh.Open && fresh.Negotiated {
				probs = append(probs, w.SendElection(fresh, relID(w, "low"))...) // probe election: reports the maximum, changes nothing
			}
			probs = append(probs, w.CompareState()...)
			run.Count("footprint_probes", 1)
		}
	}
	var real []string
	for _, p := range mon.Quarantine(probs) {
		switch {
		case strings.HasPrefix(p, "INCONCLUSIVE|"):
			run.Inconclusive(caseID + ": " + p[13:])
		case strings.HasPrefix(p, "HARNESS|"):
			run.Fatal(caseID + ": " + p[8:])
		default:
			real = append(real, p)
		}
	}
	mon.Report(run, caseID, w.Trace, real)
	run.Eval(1)
	run.Distinct(caseID)
}

func TestCheck(t *testing.T) {
	run := ev.Start(t, "C09", "exploration")
	al := alphabet()
	type job struct {
		id    string
		cfg   string
		start string
		seq   []symbol
	}
	var jobs []job
	var rec func(prefix []symbol, depth int)
	maxLen := 3
	rec = func(prefix []symbol, depth int) {
		if len(prefix) > 0 {
			var names []string
			for _, s := range prefix {
				names = append(names, s.name)
			}
			for _, cfg := range bystanderCfgs {
				for _, st := range startStates {
					jobs = append(jobs, job{id: cfg + ":" + st + ":" + strings.Join(names, ","), cfg: cfg, start: st, seq: append([]symbol{}, prefix...)})
				}
			}
		}
		if depth == maxLen {
			return
		}
		for _, s := range al {
			rec(append(prefix, s), depth+1)
		}
	}
	rec(nil, 0)
	run.Set("alphabet_size", len(al))
	run.Set("exhaustive_sequences_up_to_length_3", len(jobs))
	if run.Thorough() {
		// every sequence of exactly 4 messages, for the two start states and two bystander
		// configurations from which most sequences stay alive longest
		n4 := 0
		var rec4 func(prefix []symbol)
		rec4 = func(prefix []symbol) {
			if len(prefix) == 4 {
				var names []string
				for _, s := range prefix {
					names = append(names, s.name)
				}
				for _, cfg := range []string{"none", "primary-rib"} {
					for _, st := range []string{"fresh", "negotiated+primary"} {
						jobs = append(jobs, job{id: cfg + ":" + st + ":" + strings.Join(names, ","), cfg: cfg, start: st, seq: append([]symbol{}, prefix...)})
						n4++
					}
				}
				return
			}
			for _, s := range al {
				rec4(append(prefix, s))
			}
		}
		rec4(nil)
		run.Set("exhaustive_sequences_of_length_4", n4)
	}
	// random longer sequences
	nRand := run.Pick(1500, 60000)
	for i := 0; i < nRand; i++ {
		id := fmt.Sprintf("rand-%d", i)
		r := run.Rand("gen:" + id)
		n := 4 + r.Intn(9)
		var seq []symbol
		for k := 0; k < n; k++ {
			// bias towards messages that keep the session alive
			if r.Intn(3) == 0 {
				seq = append(seq, al[r.Intn(len(al))])
			} else {
				seq = append(seq, al[[]int{6, 7, 9, 10, 11, 12}[r.Intn(6)]])
			}
		}
		jobs = append(jobs, job{id: id, cfg: bystanderCfgs[r.Intn(len(bystanderCfgs))], start: startStates[r.Intn(len(startStates))], seq: seq})
	}
	ev.Parallel(len(jobs), ev.Workers(), func(i int) {
		j := jobs[i]
		if !run.Want(j.id) {
			return
		}
		runSeq(run, j.id, run.Rand(j.id), j.cfg, j.start, j.seq, i%97 == 0)
		if i%97 == 0 {
			run.Count("sequences_over_real_grpc", 1)
		}
	})
	var names []string
	for _, s := range al {
		names = append(names, s.name)
	}
	run.Sample(map[string]any{"alphabet": names, "bystander_configurations": bystanderCfgs, "start_states": startStates})
	run.Assume("expected termination statuses: INVALID_ARGUMENT for multi-field messages and the zero id; FAILED_PRECONDITION+MODIFY_NOT_ALLOWED for late/repeated parameters; UNIMPLEMENTED or FAILED_PRECONDITION with UNSUPPORTED_PARAMS for unsupported modes; FAILED_PRECONDITION+PARAMS_DIFFER_FROM_OTHER_CLIENTS for differing parameters; FAILED_PRECONDITION+ELECTION_ID_IN_ALL_PRIMARY for an election id without SINGLE_PRIMARY; UNIMPLEMENTED+UNSUPPORTED_PARAMS for operations without negotiation; any non-OK status (or in-band FAILED) for operations without / before / above an election id. Where two violations coincide either status is accepted; whether an un-negotiated live session constrains newcomers is left open")
	concurrentHandshakes(run)
	run.Finish("ALL sequences of length <= 3 over a 23-symbol alphabet {8 session-parameter combinations, election zero/low/equal/high/high with halves adding up to 2^64, operation with/without id, a correctly stamped operation followed in the same request by one without id (of a defined or an undefined operation type), 6 multi-field messages incl. two whose election id is present but all-zero} on one session started in each of 4 states (fresh; negotiated; negotiated and primary; negotiated and superseded), in each of 6 bystander configurations (none; negotiated RIB/FIB primary with installed entries; un-negotiated session; combinations) - exhaustive for that space; in the thorough tier also ALL sequences of length 4 from the fresh and the primary start state without bystanders and next to a negotiated primary - plus random sequences of length 4-12; after EVERY message the termination status (code + ModifyRPCErrorDetails reason), the complete hooked server state vs the model and the silence of the other streams are checked; afterwards a fresh session must be able to negotiate and sees the unchanged maximum id. 1 in 97 sequences run over real gRPC. Plus concurrent handshakes: 2-3 connected sessions send supported parameters with equal or different acknowledgement types at the same moment (yield points perturbed): no two sessions answered OK may hold different parameters", 1000, false)
}
