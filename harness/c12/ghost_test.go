package c12

import (
	"fmt"
	"io"

	aftpb "github.com/openconfig/gribi/v1/proto/gribi_aft"
	spb "github.com/openconfig/gribi/v1/proto/service"

	"github.com/openconfig/gribigo/server"

	"verifharness/canon"
	"verifharness/drv"
	"verifharness/ev"
	"verifharness/gen"
	"verifharness/mon"
)

// afterFatalInput: an input that ends its own RPC must leave nothing of its session behind.
// A lone session negotiates one acknowledgement mode and sends an operation that the server
// answers by ending the RPC; once the RPC has ended a new session negotiates the OTHER mode
// (legal: no session is left), is elected and programs an entry. A refusal with "parameters
// differ from those of other clients" is the dead session still being counted.
func afterFatalInput(run *ev.Run) {
	n := run.Pick(60, 1500)
	ev.Parallel(n, ev.Workers(), func(i int) {
		caseID := fmt.Sprintf("after-fatal-input-%d", i)
		if !run.Want(caseID) {
			return
		}
		r := run.Rand(caseID)
		srv, err := drv.NewServer([]string{"VRF1"})
		if err != nil {
			run.Fatal(err.Error())
			return
		}
		fib := r.Intn(2) == 0
		elec := &spb.Uint128{Low: uint64(2 + r.Intn(5))}
		a := &drv.Session{Stream: drv.OpenModify(srv), Name: "A", DefaultNI: "DEFAULT"}
		if _, err := a.Params(drv.SinglePrimary(fib)); err != nil {
			run.Fatal(caseID + ": " + err.Error())
			return
		}
		if _, err := a.Elect(elec); err != nil {
			run.Fatal(caseID + ": " + err.Error())
			return
		}
		nh := func(id uint64, e *spb.Uint128) *spb.AFTOperation {
			return &spb.AFTOperation{Id: id, NetworkInstance: "DEFAULT", Op: spb.AFTOperation_ADD, ElectionId: e, Entry: &spb.AFTOperation_NextHop{NextHop: &aftpb.Afts_NextHopKey{Index: id, NextHop: &aftpb.Afts_NextHop{IpAddress: gen.S("192.0.2.1")}}}}
		}
		var ops []*spb.AFTOperation
		// some well-formed operations first, in the same or an earlier request
		for k := 0; k < r.Intn(3); k++ {
			ops = append(ops, nh(uint64(10+k), elec))
		}
		kind := []string{"add-without-entry", "delete-without-entry", "operation-without-election-id"}[r.Intn(3)]
		switch kind {
		case "add-without-entry":
			ops = append(ops, &spb.AFTOperation{Id: 1, NetworkInstance: "DEFAULT", Op: spb.AFTOperation_ADD, ElectionId: elec})
		case "delete-without-entry":
			ops = append(ops, &spb.AFTOperation{Id: 1, NetworkInstance: "DEFAULT", Op: spb.AFTOperation_DELETE, ElectionId: elec})
		default:
			ops = append(ops, nh(1, nil))
		}
		for k := 0; k < r.Intn(3); k++ {
			ops = append(ops, nh(uint64(20+k), elec))
		}
		res := a.Ops(ops, elec)
		trace := []string{fmt.Sprintf("session A (fib-ack=%v, id %s) sends %d operations, one of them %s => RPC ended with %v", fib, mon.IDStr(elec), len(ops), kind, res.RPCErr)}
		if res.RPCErr == drv.ErrWatchdog {
			run.Inconclusive(caseID + ": the request was not answered within the watchdog")
			run.Eval(1)
			return
		}
		if res.RPCErr == nil || res.RPCErr == io.EOF {
			run.Count("fatal_inputs_that_did_not_end_the_rpc", 1)
			run.Eval(1)
			return
		}
		var probs []string
		b := &drv.Session{Stream: drv.OpenModify(srv), Name: "B", DefaultNI: "DEFAULT"}
		defer b.CloseSend()
		if _, err := b.Params(drv.SinglePrimary(!fib)); err == drv.ErrWatchdog {
			probs = append(probs, "INCONCLUSIVE|the negotiation of the new session was not answered within the watchdog")
		} else if err != nil {
			probs = append(probs, fmt.Sprintf("new-session-rejected-after-malformed-input:other-parameters|after the RPC of the only session had ended, a new session negotiating fib-ack=%v was refused: %v", !fib, err))
		} else {
			e2 := &spb.Uint128{Low: elec.Low + 1}
			if _, err := b.Elect(e2); err != nil {
				probs = append(probs, fmt.Sprintf("new-session-rejected-after-malformed-input:election|%v", err))
			} else if out := b.Ops([]*spb.AFTOperation{nh(99, e2)}, e2); out.RPCErr != nil || len(out.Results) == 0 || out.Results[0].GetStatus() == spb.AFTResult_FAILED {
				probs = append(probs, fmt.Sprintf("new-session-not-served-after-malformed-input|a next-hop of the new primary got %v (rpc error %v)", out.Results, out.RPCErr))
			}
		}
		mon.Report(run, caseID, trace, probs)
		run.Eval(1)
		run.Count("sessions_reopened_with_other_parameters_after_a_fatal_input", 1)
		run.Seen("fatal_input_kinds", kind)
		run.Distinct(caseID)
	})
}

// uncheckedInvalid: the invalid classes that do not depend on what else is installed (zero
// indices, nil payloads, unknown / empty instance names, unsupported operation types) on a
// server whose RIB consistency checks are disabled (server.DisableRIBCheckFn - a supported
// configuration in which the validation must not depend on the check functions). Each must
// be answered FAILED (or with a clean RPC error) and leave the contents as they were.
func uncheckedInvalid(run *ev.Run) {
	n := run.Pick(40, 1000)
	ev.Parallel(n, ev.Workers(), func(i int) {
		caseID := fmt.Sprintf("unchecked-invalid-%d", i)
		if !run.Want(caseID) {
			return
		}
		r := run.Rand(caseID)
		srv, err := drv.NewServer([]string{"VRF1"}, server.DisableRIBCheckFn())
		if err != nil {
			run.Fatal(err.Error())
			return
		}
		R := srv.VerifRIB()
		nhOp := func(id, idx uint64, kind spb.AFTOperation_Operation, payload bool) *spb.AFTOperation {
			k := &aftpb.Afts_NextHopKey{Index: idx}
			if payload {
				k.NextHop = &aftpb.Afts_NextHop{IpAddress: gen.S("192.0.2.1")}
			}
			return &spb.AFTOperation{Id: id, NetworkInstance: "DEFAULT", Op: kind, Entry: &spb.AFTOperation_NextHop{NextHop: k}}
		}
		nhgOp := func(id, gid uint64, kind spb.AFTOperation_Operation, payload bool) *spb.AFTOperation {
			k := &aftpb.Afts_NextHopGroupKey{Id: gid}
			if payload {
				k.NextHopGroup = &aftpb.Afts_NextHopGroup{NextHop: []*aftpb.Afts_NextHopGroup_NextHopKey{{Index: 1, NextHop: &aftpb.Afts_NextHopGroup_NextHop{Weight: gen.U(1)}}}}
			}
			return &spb.AFTOperation{Id: id, NetworkInstance: "DEFAULT", Op: kind, Entry: &spb.AFTOperation_NextHopGroup{NextHopGroup: k}}
		}
		for k, op := range []*spb.AFTOperation{nhOp(1, 1, spb.AFTOperation_ADD, true), nhOp(2, 2, spb.AFTOperation_ADD, true), nhgOp(3, 1, spb.AFTOperation_ADD, true)} {
			if oks, fails, err := mon.Apply(R, gen.OpSpec{NI: "DEFAULT", Op: op}); err != nil || len(fails) > 0 || len(oks) != 1 {
				run.Fatal(fmt.Sprintf("%s: set-up operation %d: %v %v %v", caseID, k, oks, fails, err))
				return
			}
		}
		snapshot := func() string {
			c, err := R.RIBContents()
			if err != nil {
				return "error: " + err.Error()
			}
			return canon.FromYgot(c).String()
		}
		kinds := []spb.AFTOperation_Operation{spb.AFTOperation_ADD, spb.AFTOperation_REPLACE, spb.AFTOperation_DELETE}
		var trace, probs []string
		for step := 0; step < 12 && len(probs) == 0; step++ {
			kind := kinds[r.Intn(3)]
			payload := kind != spb.AFTOperation_DELETE || r.Intn(2) == 0
			var op *spb.AFTOperation
			var class string
			switch r.Intn(5) {
			case 0:
				// (for ADD / REPLACE the zero-index validation is part of the consistency checks
				// this configuration switches off: only DELETE validates its key itself)
				kind = spb.AFTOperation_DELETE
				op, class = nhOp(uint64(100+step), 0, kind, r.Intn(2) == 0), "zero-nh-index"
			case 1:
				kind = spb.AFTOperation_DELETE
				op, class = nhgOp(uint64(100+step), 0, kind, r.Intn(2) == 0), "zero-nhg-id"
			case 2:
				op, class = nhOp(uint64(100+step), 7, kind, payload), "unknown-ni"
				op.NetworkInstance = "NOSUCH"
			case 3:
				op, class = nhOp(uint64(100+step), 7, kind, payload), "empty-ni"
				op.NetworkInstance = ""
			default:
				op, class = &spb.AFTOperation{Id: uint64(100 + step), NetworkInstance: "DEFAULT", Op: kind}, "no-entry"
			}
			before := snapshot()
			oks, fails, err := mon.Apply(R, gen.OpSpec{NI: op.NetworkInstance, Op: op})
			trace = append(trace, fmt.Sprintf("%s %s => ok=%d failed=%d err=%v", kind, class, len(oks), len(fails), err))
			if err == nil && len(fails) == 0 {
				probs = append(probs, fmt.Sprintf("invalid-input-accepted:checks-disabled:%s:%s|%s was answered as programmed (%d results) by a RIB whose consistency checks are disabled", class, kind, pt(op), len(oks)))
			}
			if after := snapshot(); after != before {
				probs = append(probs, fmt.Sprintf("rejected-input-changed-state:checks-disabled:%s|contents changed from %s to %s", class, before, after))
			}
			run.Count("invalid_inputs_with_checks_disabled", 1)
			run.Seen("invalid_classes_with_checks_disabled", class+"/"+kind.String())
		}
		mon.Report(run, caseID, trace, probs)
		run.Eval(1)
		run.Distinct(caseID)
	})
}

func pt(m *spb.AFTOperation) string { return fmt.Sprint(m) }
