#!/usr/bin/env python3
"""Runs every seeded change in /verif/seeded against the check of its property (and optional
extra checks) and writes seeded/<id>/meta.json + seeded/RESULTS.md.  Usage: seedreport.py [id ...]"""
import json, os, subprocess, sys, re
ROOT = os.path.dirname(os.path.dirname(os.path.abspath(__file__)))
SEEDED = os.path.join(ROOT, "seeded")
NOTES = {
 "C07-a": "initially MISSED (generators never drew an explicit zero for a set leaf); caught after generators were changed to draw set-to-zero values",
 "C09-b": "initially MISSED (the session model accepted an in-band FAILED for an operation without election id, as C04 allows); caught after C09 was made to demand termination of the RPC as its statement says",
 "C10-a": "initially MISSED (the abandoned-Get fault only flooded the next-hop table); caught after the fault floods all five tables and cuts inside every table's section of Get(ALL)",
 "C16-b": "schedule dependent: the first version of the check caught it in some runs only; caught reliably after a back-to-back add/delete workload was added to C16",
 "C18-b": "initially MISSED (client programs always used a fresh Modify() handle); caught after handles held across other calls were added to the programs",
 "C13-a": "initially MISSED (conservation was not checked in cases where the scripted server violates the protocol); caught after conservation is demanded there too",
}
ids = sys.argv[1:] or sorted(d for d in os.listdir(SEEDED) if os.path.isdir(os.path.join(SEEDED, d)))
rows = []
for sid in ids:
    d = os.path.join(SEEDED, sid)
    am = json.load(open(os.path.join(d, "agent_meta.json")))
    prop = sid.split("-")[0]
    out = subprocess.run([os.path.join(ROOT, "tools/seedcheck.sh"), d, prop, "--skip-suite"], capture_output=True, text=True).stdout
    demo = re.search(r"demo_without_change=(\w+) demo_with_change=(\w+)", out)
    chk = re.search(r"check=(\w+) (CAUGHT|MISSED|ERROR)(?: :: (.*))?", out)
    suite = open(os.path.join(d, "suite.txt")).read().strip() if os.path.exists(os.path.join(d, "suite.txt")) else "not run"
    meta = {
        "id": sid, "property": prop,
        "summary": am.get("summary"), "needs": am.get("needs"), "files": am.get("files"),
        "demonstration": {"file": "demo_test.go", "cmd": am.get("demo_cmd")},
        "confirmed_by_us": {
            "demo_passes_without_change": bool(demo and demo.group(1) == "PASS"),
            "demo_fails_with_change": bool(demo and demo.group(2) == "FAIL"),
            "repository_suite_with_change": suite,
        },
        "what_we_ran": f"tools/seedcheck.sh seeded/{sid} {prop} (scratch worktree of /repo HEAD + patch; ./check {prop} quick with VERIF_REPO pointing at it); tools/seedsuite.sh for the repository's own suite",
        "check_result": {"check": prop, "verdict": chk.group(2) if chk else "ERROR", "signatures": (chk.group(3) or "").split() if chk else []},
    }
    if sid in NOTES:
        meta["history"] = NOTES[sid]
    json.dump(meta, open(os.path.join(d, "meta.json"), "w"), indent=1)
    rows.append((sid, meta["check_result"]["verdict"], " ".join(meta["check_result"]["signatures"][:3]), suite.split(" at ")[0]))
    print(sid, meta["check_result"]["verdict"], flush=True)
with open(os.path.join(SEEDED, "RESULTS.md"), "w") as f:
    f.write("| seeded change | caught by its check (quick tier) | first signatures | repository suite with the change |\n|---|---|---|---|\n")
    for r in rows:
        f.write(f"| {r[0]} | {r[1]} | `{r[2]}` | {r[3]} |\n")
