// C07: Get returns exactly the installed entries, payload-faithful, correctly filtered.
package c07

import (
	"fmt"
	"regexp"
	"strings"
	"testing"

	"github.com/openconfig/gribigo/rib"
	"github.com/openconfig/gribigo/server"
	"google.golang.org/grpc/codes"
	"google.golang.org/grpc/status"

	spb "github.com/openconfig/gribi/v1/proto/service"

	"verifharness/canon"
	"verifharness/drv"
	"verifharness/ev"
	"verifharness/gen"
	"verifharness/model"
	"verifharness/mon"
)

var fieldRe = regexp.MustCompile(`([a-z0-9]+):`)

var afts = []struct {
	name string
	t    spb.AFTType
	tbl  []canon.Table
}{
	{"ALL", spb.AFTType_ALL, []canon.Table{canon.V4, canon.V6, canon.MPLS, canon.NHG, canon.NH}},
	{"IPV4", spb.AFTType_IPV4, []canon.Table{canon.V4}},
	{"IPV6", spb.AFTType_IPV6, []canon.Table{canon.V6}},
	{"MPLS", spb.AFTType_MPLS, []canon.Table{canon.MPLS}},
	{"NEXTHOP_GROUP", spb.AFTType_NEXTHOP_GROUP, []canon.Table{canon.NHG}},
	{"NEXTHOP", spb.AFTType_NEXTHOP, []canon.Table{canon.NH}},
}

func scope(m canon.Contents, nis []string, tbls []canon.Table) canon.Contents {
	out := canon.Contents{}
	for _, ni := range nis {
		for k, v := range m[ni] {
			for _, t := range tbls {
				if k.T == t {
					if out[ni] == nil {
						out[ni] = map[canon.Key]string{}
					}
					out[ni][k] = v
				}
			}
		}
	}
	return out
}

type getter func(req *spb.GetRequest) ([]*spb.GetResponse, error, error)

func TestCheck(t *testing.T) {
	run := ev.Start(t, "C07", "exploration")
	n := run.Pick(1000, 12000)
	ev.Parallel(n, ev.Workers(), func(i int) {
		caseID := fmt.Sprintf("rib-%d", i)
		if !run.Want(caseID) {
			return
		}
		r := run.Rand(caseID)
		g := gen.New(r)
		g.S.Default = server.DefaultNetworkInstanceName
		g.PInvalid = 0.01
		g.WDelete = 1
		g.WTable = [5]int{3, 3, 3, 4, 6}
		nNI := 1 + r.Intn(3)
		g.S.NIs = g.S.NIs[:nNI]
		if i%6 == 5 && nNI > 1 {
			// instances whose names differ from the default instance's (and from each other) only
			// in case: names are exact strings
			g.S.NIs = append([]string{g.S.Default}, []string{"default", "Default"}[:nNI-1]...)
			run.Count("cases_with_instance_names_differing_only_in_case", 1)
		}
		srv, err := drv.NewServer(g.S.NIs[1:])
		if err != nil {
			run.Fatal(err.Error())
			return
		}
		x := &mon.RIBMon{R: srv.VerifRIB(), M: model.NewRIB(g.S.Default, g.S.NIs, false), CheckHeld: true, CheckRefs: true}
		var probs []string
		// every other case programs through the Modify RPC of the server (the payload Get
		// must return is what the client sent), the rest through package rib
		var gsProg *drv.GRPCServer
		if i%2 == 1 {
			if i%16 == 1 {
				gsProg = drv.Serve(srv)
				defer gsProg.Stop()
			}
			if err := x.ProgramVia(srv, gsProg); err != nil {
				run.Fatal(err.Error())
				return
			}
			defer x.Close()
			run.Count("cases_programmed_through_modify", 1)
		}
		nOps := r.Intn(120)
		if i%40 == 0 {
			nOps = 0 // empty RIB
		}
		for k := 0; k < nOps && len(probs) == 0; k++ {
			if r.Intn(25) == 0 {
				// a Flush RPC (all instances, or one) in the middle of the history - whatever the
				// server keeps between requests about its instances must survive it
				nis := g.S.NIs
				req := &spb.FlushRequest{NetworkInstance: &spb.FlushRequest_All{All: &spb.Empty{}}, Election: &spb.FlushRequest_Override{Override: &spb.Empty{}}}
				if r.Intn(2) == 0 {
					nis = []string{g.S.NIs[r.Intn(len(g.S.NIs))]}
					req.NetworkInstance = &spb.FlushRequest_Name{Name: nis[0]}
				}
				if _, err, wd := drv.Flush(srv, req); wd != nil {
					probs = append(probs, "INCONCLUSIVE|Flush did not return within the watchdog")
				} else if err != nil {
					probs = append(probs, fmt.Sprintf("flush-error|Flush(%v): %v", nis, err))
				}
				x.M.Flush(nis)
				x.Trace = append(x.Trace, fmt.Sprintf("FLUSH RPC %v", nis))
				run.Count("flush_rpcs_inside_histories", 1)
				continue
			}
			_, p := x.Do(g.Op())
			probs = append(probs, p...)
		}
		if i%500 == 3 && len(probs) == 0 {
			// a table far larger than anything a server would put into one response
			big := 1100 + r.Intn(1600)
			ni := g.S.NIs[r.Intn(len(g.S.NIs))]
			for k := 0; k < big && len(probs) == 0; k++ {
				sp := g.MkOp(spb.AFTOperation_ADD, canon.NH, ni, 0, false)
				sp.Op.GetNextHop().Index = uint64(10000 + k)
				_, p := x.Do(sp)
				probs = append(probs, p...)
			}
			run.Count("cases_with_a_table_of_more_than_1000_entries", 1)
		}
		probs = append(probs, x.Compare()...)
		want := x.M.Contents()

		var gs *drv.GRPCServer
		direct := func(req *spb.GetRequest) ([]*spb.GetResponse, error, error) { return drv.Get(srv, req, 0) }
		get := direct
		transport := "direct"
		if i%8 == 0 {
			gs = drv.Serve(srv)
			defer gs.Stop()
			get = func(req *spb.GetRequest) ([]*spb.GetResponse, error, error) { return gs.GRPCGet(req, 0, false) }
			transport = "grpc"
		}
		run.Seen("transports", transport)

		type niSel struct {
			name string
			set  func(*spb.GetRequest)
			nis  []string
			bad  bool // must not yield entries; non-OK status expected (code not pinned by the property)
			open bool // either OK+empty or an error is acceptable
		}
		sels := []niSel{{name: "all", set: func(q *spb.GetRequest) { q.NetworkInstance = &spb.GetRequest_All{All: &spb.Empty{}} }, nis: g.S.NIs}}
		for _, ni := range g.S.NIs {
			ni := ni
			sels = append(sels, niSel{name: "name=" + ni, set: func(q *spb.GetRequest) { q.NetworkInstance = &spb.GetRequest_Name{Name: ni} }, nis: []string{ni}})
		}
		sels = append(sels,
			niSel{name: "unknown", set: func(q *spb.GetRequest) { q.NetworkInstance = &spb.GetRequest_Name{Name: "NOSUCH"} }, bad: true},
			niSel{name: "empty-name", set: func(q *spb.GetRequest) { q.NetworkInstance = &spb.GetRequest_Name{Name: ""} }, bad: true},
			niSel{name: "unset", set: func(q *spb.GetRequest) {}, open: true},
		)
		union := canon.Contents{}
		for _, sel := range sels {
			for _, a := range afts {
				if len(probs) > 0 {
					break
				}
				req := &spb.GetRequest{Aft: a.t}
				sel.set(req)
				resps, err, wd := get(req)
				if wd != nil {
					probs = append(probs, "INCONCLUSIVE|Get did not return within the watchdog")
					continue
				}
				run.Count("get_requests", 1)
				run.Seen("request_combinations", sel.name[:min(len(sel.name), 5)]+"/"+a.name)
				label := fmt.Sprintf("Get(%s,%s) via %s", sel.name, a.name, transport)
				got, dups := canon.FromGet(resps)
				switch {
				case sel.bad:
					if err == nil {
						probs = append(probs, fmt.Sprintf("get-malformed-accepted:%s|%s returned OK", sel.name, label))
					}
					if got.Count() > 0 {
						probs = append(probs, fmt.Sprintf("get-malformed-yields-entries:%s|%s returned %d entries", sel.name, label, got.Count()))
					}
				case sel.open:
					if got.Count() > 0 {
						probs = append(probs, fmt.Sprintf("get-malformed-yields-entries:%s|%s returned %d entries", sel.name, label, got.Count()))
					}
				default:
					if err != nil {
						probs = append(probs, fmt.Sprintf("get-error-on-valid-request:%s|%s: %v", status.Code(err), label, err))
						continue
					}
					for _, d := range dups {
						probs = append(probs, "get-duplicate-entry|"+label+": "+d)
					}
					exp := scope(want, sel.nis, a.tbl)
					for _, d := range canon.Diff(exp, got) {
						f := strings.Fields(d)
						tbl := "?"
						if len(f) > 1 {
							if j := strings.Index(f[1], "/"); j >= 0 {
								tbl = strings.SplitN(f[1][j+1:], ":", 2)[0]
							}
						}
						sig := fmt.Sprintf("get:%s:%s", f[0], tbl)
						if f[0] == "payload" {
							sig += ":" + lostFields(d)
						}
						probs = append(probs, fmt.Sprintf("%s|%s: %s", sig, label, d))
					}
					if exp.Count() == 0 {
						run.Count("empty_scope_gets", 1)
					}
					run.Count("entries_compared", int64(exp.Count()))
					// per-table Gets accumulate into the union compared with Get(ALL)
					if sel.name == "all" && a.name != "ALL" {
						for ni, m := range got {
							if union[ni] == nil {
								union[ni] = map[canon.Key]string{}
							}
							for k, v := range m {
								if _, dup := union[ni][k]; dup {
									probs = append(probs, fmt.Sprintf("get-tables-not-disjoint|%s/%s returned by two per-table Gets", ni, k))
								}
								union[ni][k] = v
							}
						}
					}
					if sel.name == "all" && a.name == "ALL" && len(probs) == 0 {
						// rebuild a RIB from the responses
						rr, err := rib.FromGetResponses(g.S.Default, resps, rib.DisableRIBCheckFn())
						if err != nil {
							probs = append(probs, fmt.Sprintf("fromgetresponses-error|%v", err))
						} else {
							rc, _ := rr.RIBContents()
							for _, d := range canon.Diff(want, canon.FromYgot(rc)) {
								probs = append(probs, fmt.Sprintf("rebuild:%s|FromGetResponses: %s", strings.Fields(d)[0], d))
							}
							run.Count("rebuilds_compared", 1)
						}
					}
				}
			}
			// unsupported AFT types
			for _, bad := range []spb.AFTType{spb.AFTType_POLICY_FORWARDING, spb.AFTType_MAC, spb.AFTType(77)} {
				if len(probs) > 0 || sel.bad || sel.open {
					break
				}
				req := &spb.GetRequest{Aft: bad}
				sel.set(req)
				resps, err, wd := get(req)
				if wd != nil {
					probs = append(probs, "INCONCLUSIVE|Get(unsupported AFT) did not return within the watchdog")
					continue
				}
				got, _ := canon.FromGet(resps)
				if err == nil || got.Count() > 0 {
					probs = append(probs, fmt.Sprintf("get-unsupported-aft-accepted|Get(%s,%v): err=%v entries=%d", sel.name, bad, err, got.Count()))
				} else if transport == "grpc" && status.Code(err) == codes.OK {
					probs = append(probs, fmt.Sprintf("get-unsupported-aft-ok-status|%v", err))
				}
				run.Count("unsupported_aft_requests", 1)
			}
		}
		if len(probs) == 0 {
			for _, d := range canon.Diff(want, union) {
				probs = append(probs, fmt.Sprintf("get-union:%s|union of per-table Gets vs contents: %s", strings.Fields(d)[0], d))
			}
			// field-level round trips that were actually exercised
			for ni, m := range want {
				_ = ni
				for k, v := range m {
					for _, f := range fieldRe.FindAllStringSubmatch(v, -1) {
						run.Seen("fields_round_tripped", k.T.String()+"."+f[1])
					}
				}
			}
		}
		mon.Report(run, caseID, x.Trace, probs)
		run.Eval(1)
		if want.Count() > 0 {
			run.Distinct(want.String())
		}
		if i < 2 {
			run.Sample(map[string]any{"case": caseID, "transport": transport, "installed": strings.Split(strings.TrimSpace(want.String()), "\n")})
		}
	})
	concurrentPhase(run)
	run.Assume("for a Get whose network instance is unknown or empty only 'non-OK and no entries' is demanded (the property does not pin the code); for a request with no network instance at all either an empty OK stream or an error is accepted")
	run.Finish("RIBs over 1-3 NIs built from seeded histories with rich payloads (every generator field independently present), then every (NI selection x AFT type) Get - all, each name, unknown, empty name, unset x ALL + 5 tables + 3 unsupported types - over a direct stream (1 in 8 cases over real gRPC/bufconn); responses compared with the model as keyed multisets with field-by-field payload equality; Get(ALL) vs union of per-table Gets; rib.FromGetResponses round trip; plus cases in which 2-3 readers issue Gets WHILE one writer programs the history with the repository's yield points perturbed: every value a concurrent Get reports must be one the key had within the window of that Get, and at quiescence Get(ALL) and every per-table Get equal the model exactly. Distinct = by installed contents; non-trivial = non-empty RIB", 50, false)
}

// lostFields names the fields present on the want side but not on the got side.
func lostFields(d string) string {
	i := strings.Index(d, " want ")
	j := strings.Index(d, " got ")
	if i < 0 || j < 0 {
		return "?"
	}
	w := map[string]bool{}
	for _, f := range fieldRe.FindAllStringSubmatch(d[i+6:j], -1) {
		w[f[1]] = true
	}
	for _, f := range fieldRe.FindAllStringSubmatch(d[j+5:], -1) {
		delete(w, f[1])
	}
	var out []string
	for f := range w {
		out = append(out, f)
	}
	if len(out) == 0 {
		return "value"
	}
	// deterministic
	for a := 0; a < len(out); a++ {
		for b := a + 1; b < len(out); b++ {
			if out[b] < out[a] {
				out[a], out[b] = out[b], out[a]
			}
		}
	}
	return strings.Join(out, "+")
}
