// Package mon holds the runtime monitors: objects that sit next to the real code,
// feed the same events to a reference model and compare every observable.
package mon

import (
	"fmt"
	"sort"
	"strings"
	"time"

	"github.com/openconfig/gribigo/aft"
	"github.com/openconfig/gribigo/constants"
	"github.com/openconfig/gribigo/rib"
	"github.com/openconfig/gribigo/server"
	"github.com/openconfig/ygot/ygot"

	spb "github.com/openconfig/gribi/v1/proto/service"

	"verifharness/canon"
	"verifharness/drv"
	"verifharness/ev"
	"verifharness/gen"
	"verifharness/model"
)

// RIBMon drives a real rib.RIB and its model in lock step.
type RIBMon struct {
	R *rib.RIB
	M *model.RIB
	// Trace is the history so far, for witnesses.
	Trace []string
	// CheckHeld / CheckRefs enable the hooked-state comparisons.
	CheckHeld bool
	CheckRefs bool
	// LastOks / LastFails are the verdict ids of the most recent Do.
	LastOks, LastFails []uint64
	// Via, when set, makes Do program through this Modify session (the elected
	// primary of Srv) instead of calling package rib directly; R is then Srv's RIB.
	Via   *drv.Session
	Stamp *spb.Uint128
	Srv   *server.Server
	GS    *drv.GRPCServer
	// Dead is set when a direct call into package rib did not return within the watchdog
	// (the RIB is wedged): every later step of this monitor is skipped as inconclusive,
	// and ev.Finish decides at the end of the run whether the block is permanent.
	Dead bool
	// nCompare counts Compare calls (every 8th also scribbles on the snapshot it was given).
	nCompare int
}

const deadMsg = "INCONCLUSIVE|a call into the RIB did not return within the watchdog; the rest of this case was skipped"

// guarded runs fn under the watchdog; false = it never returned.
func (x *RIBMon) guarded(what string, fn func()) bool {
	if x.Dead {
		return false
	}
	done := make(chan struct{})
	go func() { fn(); close(done) }()
	// (a stopped timer, not time.After: millions of these calls are made per run)
	t := time.NewTimer(drv.Watchdog)
	defer t.Stop()
	select {
	case <-done:
		return true
	case <-t.C:
		x.Dead = true
		ev.NoteWatchdog(what)
		return false
	}
}

// NewServerRIBMon is NewRIBMon with the operations programmed through the Modify RPC
// of a real server (over real gRPC if grpc is set): what Get reports is then compared
// with what the CLIENT programmed, whatever the server does to it on the way in.
func NewServerRIBMon(s gen.Space, noFwdRef bool, grpc bool) (*RIBMon, error) {
	var opts []server.ServerOpt
	if noFwdRef {
		opts = append(opts, server.WithNoRIBForwardReferences())
	}
	srv, err := drv.NewServer(s.NIs[1:], opts...)
	if err != nil {
		return nil, err
	}
	x := &RIBMon{R: srv.VerifRIB(), M: model.NewRIB(s.Default, s.NIs, noFwdRef), CheckHeld: true, CheckRefs: true}
	var gs *drv.GRPCServer
	if grpc {
		gs = drv.Serve(srv)
	}
	if err := x.ProgramVia(srv, gs); err != nil {
		if gs != nil {
			gs.Stop()
		}
		return nil, err
	}
	x.GS = gs
	return x, nil
}

// NewRIBMonVia picks the way operations reach the RIB: 0 = package rib directly,
// 1 = the Modify RPC of a server (in-process stream), 2 = the same over real gRPC.
func NewRIBMonVia(s gen.Space, noFwdRef bool, via int) (*RIBMon, error) {
	if via == 0 {
		return NewRIBMon(s, noFwdRef), nil
	}
	return NewServerRIBMon(s, noFwdRef, via == 2)
}

// WithIdleHooks registers a resolved-entry hook and a post-change hook that do nothing on
// the monitored RIB: a RIB used by a forwarding plane has them, and everything the
// monitors observe (verdicts, contents, counters, Get) must be the same with them.
func (x *RIBMon) WithIdleHooks() *RIBMon {
	x.R.SetResolvedEntryHook(func(map[string]*aft.RIB, constants.OpType, string, constants.AFT, any, ...rib.ResolvedDetails) {})
	x.R.SetPostChangeHook(func(constants.OpType, int64, string, ygot.ValidatedGoStruct) {})
	return x
}

// ViaName names the three ways for evidence.
func ViaName(via int) string { return [...]string{"rib", "modify-rpc", "modify-rpc-grpc"}[via] }

// ProgramVia makes Do program through a new Modify session on srv (over gs if not
// nil), negotiated SINGLE_PRIMARY/PRESERVE/RIB_ACK and elected primary.
func (x *RIBMon) ProgramVia(srv *server.Server, gs *drv.GRPCServer) error {
	x.Srv, x.Stamp = srv, &spb.Uint128{High: 1, Low: 1}
	var st drv.Stream
	if gs != nil {
		gst, err := gs.OpenModify()
		if err != nil {
			return err
		}
		st = gst
	} else {
		st = drv.OpenModify(srv)
	}
	via := &drv.Session{Stream: st, Name: "primary", DefaultNI: x.M.Default}
	if _, err := via.Params(drv.SinglePrimary(false)); err != nil {
		return fmt.Errorf("negotiation: %v", err)
	}
	if _, err := via.Elect(x.Stamp); err != nil {
		return fmt.Errorf("election: %v", err)
	}
	x.Via = via
	return nil
}

// Close releases the session and transport of a server-backed monitor.
func (x *RIBMon) Close() {
	if x.Via != nil {
		x.Via.CloseSend()
	}
	if x.GS != nil {
		x.GS.Stop()
	}
}

// Reannounce makes the programming session (still the primary) announce a higher election
// id and use it from then on. Held operations are its own: they stay held. Returns a
// problem if the announcement is not answered with the announced id.
func (x *RIBMon) Reannounce() []string {
	if x.Via == nil || x.Dead {
		return nil
	}
	next := &spb.Uint128{High: x.Stamp.High, Low: x.Stamp.Low + 1}
	if x.Stamp.Low%3 == 2 {
		next = &spb.Uint128{High: x.Stamp.High + 1, Low: 0}
	}
	rep, err := x.Via.Elect(next)
	x.Trace = append(x.Trace, fmt.Sprintf("the programming session announces (%d,%d) -> %v %v", next.High, next.Low, rep, err))
	if err == drv.ErrWatchdog {
		x.Dead = true
		return []string{deadMsg}
	}
	if err != nil {
		return []string{fmt.Sprintf("announcement-rejected|the primary announcing a higher id: %v", err)}
	}
	if rep.GetHigh() != next.High || rep.GetLow() != next.Low {
		return []string{fmt.Sprintf("reported-id-not-running-max|the primary announced (%d,%d) and was told %v", next.High, next.Low, rep)}
	}
	x.Stamp = next
	return nil
}

// applyVia programs one operation through the Modify session.
func (x *RIBMon) applyVia(spec gen.OpSpec) (oks, fails []uint64, err error) {
	spec.Op.ElectionId = x.Stamp
	res := x.Via.Ops([]*spb.AFTOperation{spec.Op}, x.Stamp)
	if res.RPCErr != nil {
		return nil, nil, res.RPCErr
	}
	for _, r := range res.Results {
		switch r.GetStatus() {
		case spb.AFTResult_RIB_PROGRAMMED:
			oks = append(oks, r.GetId())
		case spb.AFTResult_FAILED:
			fails = append(fails, r.GetId())
		default:
			return nil, nil, fmt.Errorf("unexpected result status %s for operation %d in RIB-ack mode", r.GetStatus(), r.GetId())
		}
	}
	return oks, fails, nil
}

// NewRIBMon builds a RIB with the space's network instances and its model.
func NewRIBMon(s gen.Space, noFwdRef bool, opts ...rib.RIBOpt) *RIBMon {
	if noFwdRef {
		opts = append(opts, rib.DisableForwardReferences())
	}
	r := rib.New(s.Default, opts...)
	for _, ni := range s.NIs {
		if ni != s.Default {
			if err := r.AddNetworkInstance(ni); err != nil {
				panic(err)
			}
		}
	}
	return &RIBMon{R: r, M: model.NewRIB(s.Default, s.NIs, noFwdRef), CheckHeld: true, CheckRefs: true}
}

func ids(rs []*rib.OpResult) []uint64 {
	out := make([]uint64, len(rs))
	for i, r := range rs {
		out[i] = r.ID
	}
	return out
}

// Apply sends one operation to the real RIB and returns the verdict id lists.
func Apply(r *rib.RIB, spec gen.OpSpec) (oks, fails []uint64, err error) {
	var o, f []*rib.OpResult
	switch spec.Op.GetOp() {
	case spb.AFTOperation_ADD, spb.AFTOperation_REPLACE:
		o, f, err = r.AddEntry(spec.NI, spec.Op)
	case spb.AFTOperation_DELETE:
		o, f, err = r.DeleteEntry(spec.NI, spec.Op)
	default:
		return nil, nil, fmt.Errorf("unsupported op type %v", spec.Op.GetOp())
	}
	return ids(o), ids(f), err
}

// Do applies spec to both sides and returns the discrepancies ("sig|text").
func (x *RIBMon) Do(spec gen.OpSpec) (*model.StepResult, []string) {
	x.Trace = append(x.Trace, spec.String())
	var oks, fails []uint64
	var err error
	if x.Dead {
		return &model.StepResult{}, []string{deadMsg}
	}
	if x.Via != nil {
		oks, fails, err = x.applyVia(spec)
		if err == drv.ErrWatchdog {
			x.Dead = true
			return &model.StepResult{}, []string{deadMsg}
		}
	} else if !x.guarded("rib.AddEntry/DeleteEntry", func() { oks, fails, err = Apply(x.R, spec) }) {
		return &model.StepResult{}, []string{deadMsg}
	}
	x.LastOks, x.LastFails = oks, fails
	if err != nil {
		// RIB-level fatal error: acceptable only where the model demands failure.
		exp, why := x.M.Classify(spec)
		x.Trace[len(x.Trace)-1] += fmt.Sprintf("  => error %v", err)
		if exp == model.Fail || exp == model.Either {
			return &model.StepResult{Expected: exp}, nil
		}
		return &model.StepResult{Expected: exp}, []string{fmt.Sprintf("rib-error-on-valid-operation|%s must %s (%s) but the RIB returned error %v", spec, exp, why, err)}
	}
	x.Trace[len(x.Trace)-1] += fmt.Sprintf("  => oks=%v fails=%v", oks, fails)
	res := x.M.Step(spec, oks, fails)
	return res, res.Problems
}

// Flush flushes the named NIs on both sides.
func (x *RIBMon) Flush(nis []string) []string {
	x.Trace = append(x.Trace, fmt.Sprintf("FLUSH %v", nis))
	var err error
	if !x.guarded("rib.Flush", func() { err = x.R.Flush(nis) }) {
		return []string{deadMsg}
	}
	x.M.Flush(nis)
	if err != nil {
		x.Trace[len(x.Trace)-1] += fmt.Sprintf("  => error %v", strings.ReplaceAll(err.Error(), "\n", "; "))
		return []string{"flush-error|" + fmt.Sprintf("Flush(%v) returned error: %v", nis, strings.ReplaceAll(err.Error(), "\n", "; "))}
	}
	return nil
}

func tableOf(line string) string {
	// line looks like "missing NI/ipv4:10.0.0.0/8 (...)"
	f := strings.Fields(line)
	if len(f) < 2 {
		return "?"
	}
	i := strings.Index(f[1], "/")
	if i < 0 {
		return "?"
	}
	rest := f[1][i+1:]
	if j := strings.Index(rest, ":"); j >= 0 {
		return rest[:j]
	}
	return "?"
}

// diffProblems turns a contents diff into signed problems.
func diffProblems(prefix string, want, got canon.Contents) []string {
	var out []string
	for _, d := range canon.Diff(want, got) {
		kind := strings.Fields(d)[0]
		out = append(out, fmt.Sprintf("%s:%s:%s|%s", prefix, kind, tableOf(d), d))
	}
	return out
}

// Compare checks RIBContents (and hooked state) against the model.
func (x *RIBMon) Compare() []string {
	var out []string
	if !x.guarded("RIBContents / hooked state", func() { out = x.compare() }) {
		return []string{deadMsg}
	}
	return out
}

func (x *RIBMon) compare() []string {
	var out []string
	rc, err := x.R.RIBContents()
	if err != nil {
		return []string{"ribcontents-error|" + err.Error()}
	}
	out = append(out, diffProblems("contents", x.M.Contents(), canon.FromYgot(rc))...)
	x.nCompare++
	if len(out) == 0 && x.nCompare%8 == 0 {
		// RIBContents hands out a copy: whatever its holder does to it - here every
		// reference is re-pointed and every group and next-hop removed - is none of the RIB's
		// business. The RIB is read again and must still be what the model says (the
		// counters are compared below as always).
		for _, r := range rc {
			if r == nil || r.Afts == nil {
				continue
			}
			for _, e := range r.Afts.Ipv4Entry {
				e.NextHopGroup = ygot.Uint64(424242)
				e.NextHopGroupNetworkInstance = ygot.String("SCRIBBLE")
			}
			for _, e := range r.Afts.Ipv6Entry {
				e.NextHopGroup = ygot.Uint64(424242)
			}
			for _, e := range r.Afts.LabelEntry {
				e.NextHopGroup = ygot.Uint64(424242)
			}
			for id, g := range r.Afts.NextHopGroup {
				for nh := range g.NextHop {
					delete(g.NextHop, nh)
				}
				delete(r.Afts.NextHopGroup, id)
			}
			for id := range r.Afts.NextHop {
				delete(r.Afts.NextHop, id)
			}
		}
		rc2, err := x.R.RIBContents()
		if err != nil {
			return []string{"ribcontents-error|" + err.Error()}
		}
		for _, p := range diffProblems("contents", x.M.Contents(), canon.FromYgot(rc2)) {
			sig, txt := SplitSig(p)
			out = append(out, "snapshot-shares-memory-with-the-rib:"+sig+"|after the holder of a RIBContents() copy modified that copy: "+txt)
		}
	}
	if x.CheckHeld {
		out = append(out, x.CompareHeld()...)
	}
	if x.CheckRefs {
		out = append(out, x.CompareRefs()...)
	}
	return out
}

// CompareHeld compares the hooked pending set with the model's held set.
func (x *RIBMon) CompareHeld() []string {
	var out []string
	impl := map[uint64]bool{}
	for _, p := range x.R.VerifPendingOps() {
		impl[p.ID] = true
	}
	for id := range impl {
		if _, ok := x.M.Held[id]; !ok {
			out = append(out, fmt.Sprintf("pending-not-held-in-model|implementation still holds operation %d which the model does not (model held=%v)", id, x.M.HeldIDs()))
		}
	}
	for id, h := range x.M.Held {
		if !impl[id] {
			out = append(out, fmt.Sprintf("held-operation-lost|model holds %s but the implementation's pending set lacks it", h.Spec))
		}
	}
	sort.Strings(out)
	return out
}

// CompareRefs compares hooked reference counters with referrers counted from contents.
func (x *RIBMon) CompareRefs() []string {
	var out []string
	want := x.M.RefCounts()
	got := x.R.VerifRefCounts()
	seen := map[string]bool{}
	for ni, rc := range got {
		for id, n := range rc.NextHopGroup {
			k := fmt.Sprintf("nhg:%d", id)
			seen[ni+"|"+k] = true
			if int(n) != want[ni][k] {
				out = append(out, fmt.Sprintf("refcount-drift:nhg|%s group %d: counter=%d, installed referrers=%d", ni, id, n, want[ni][k]))
			}
		}
		for id, n := range rc.NextHop {
			k := fmt.Sprintf("nh:%d", id)
			seen[ni+"|"+k] = true
			if int(n) != want[ni][k] {
				out = append(out, fmt.Sprintf("refcount-drift:nh|%s next-hop %d: counter=%d, installed referrers=%d", ni, id, n, want[ni][k]))
			}
		}
	}
	for ni, m := range want {
		for k, n := range m {
			if !seen[ni+"|"+k] && n != 0 {
				out = append(out, fmt.Sprintf("refcount-drift:%s|%s %s: counter absent, installed referrers=%d", strings.SplitN(k, ":", 2)[0], ni, k, n))
			}
		}
	}
	sort.Strings(out)
	return out
}

// GetAll runs RIBHolder.GetRIB for every NI and the given AFT type and returns the responses.
func GetAll(r *rib.RIB, aft spb.AFTType) ([]*spb.GetResponse, error) {
	var out []*spb.GetResponse
	for _, ni := range r.KnownNetworkInstances() {
		rs, err := GetNI(r, ni, aft)
		if err != nil {
			return nil, err
		}
		out = append(out, rs...)
	}
	return out, nil
}

// GetNI runs GetRIB on one NI.
func GetNI(r *rib.RIB, ni string, aft spb.AFTType) ([]*spb.GetResponse, error) {
	h, ok := r.NetworkInstanceRIB(ni)
	if !ok {
		return nil, fmt.Errorf("no NI %s", ni)
	}
	msgCh := make(chan *spb.GetResponse)
	stopCh := make(chan struct{})
	errCh := make(chan error, 1)
	go func() { errCh <- h.GetRIB(map[spb.AFTType]bool{aft: true}, msgCh, stopCh) }()
	var out []*spb.GetResponse
	timeout := time.After(60 * time.Second)
	for {
		select {
		case m := <-msgCh:
			out = append(out, m)
		case err := <-errCh:
			return out, err
		case <-timeout:
			ev.NoteWatchdog("GetRIB")
			return out, errGetWatchdog
		}
	}
}

// CompareGet checks GetRIB(ALL) output against the model.
func (x *RIBMon) CompareGet() []string {
	if x.Dead {
		return []string{deadMsg}
	}
	rs, err := GetAll(x.R, spb.AFTType_ALL)
	if err == errGetWatchdog {
		x.Dead = true
		return []string{deadMsg}
	}
	if err != nil {
		return []string{"getrib-error|" + err.Error()}
	}
	got, dups := canon.FromGet(rs)
	var out []string
	for _, d := range dups {
		out = append(out, "get-duplicate|"+d)
	}
	out = append(out, diffProblems("get", x.M.Contents(), got)...)
	return out
}

var errGetWatchdog = fmt.Errorf("GetRIB watchdog fired")

// SplitSig splits a "signature|text" problem.
func SplitSig(p string) (string, string) {
	i := strings.Index(p, "|")
	if i < 0 {
		return p, p
	}
	return p[:i], p[i+1:]
}
