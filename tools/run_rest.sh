#!/bin/bash
cd "$(dirname "$0")/.." 2>/dev/null || true
for c in C11 C12 C13 C14 C15 C16 C17 C18 C19; do
  start=$(date +%s)
  out="$(VERIF_SEED=1 ./check $c thorough 2>&1)"; rc=$?
  echo "seed=1 $c exit=$rc $(( $(date +%s) - start ))s :: $(echo "$out" | grep SUMMARY | cut -c1-160)"
  [ $rc -ne 0 ] && echo "$out" | grep -v SUMMARY | head -12 | cut -c1-400
done
