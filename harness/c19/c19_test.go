// C19: compliance verdicts: a conformant server passes in any order; violations are flagged.
package c19

import (
	"google.golang.org/grpc"

	"context"
	"fmt"
	"math/rand"
	"sort"
	"strings"
	"sync"
	"testing"
	"time"

	"github.com/openconfig/gribigo/client"
	"github.com/openconfig/gribigo/compliance"
	"github.com/openconfig/gribigo/fluent"
	"github.com/openconfig/gribigo/rib"
	"github.com/openconfig/gribigo/server"

	spb "github.com/openconfig/gribi/v1/proto/service"

	"verifharness/child"
	"verifharness/drv"
	"verifharness/ev"
	"verifharness/mon"
)

type config struct {
	name     string
	elecBase uint64
	defNI    string
	vrf      string
	// Timing variants of a still conformant set-up, which make timing assumptions of the
	// tests visible: respDelay delays every Modify response, reqDelay delays the server's
	// handling of every request, sendDelay delays every enqueue inside the client library
	// (yield point client.q.beforeSend), recvDelay delays the client library's handling of every
	// received message or stream error (yield point client.recv.beforeHandle).
	respDelay, reqDelay, sendDelay, recvDelay time.Duration
	// sharedConn: all clients of all tests of a permutation use ONE gRPC connection per server
	// that stays open between the tests (the other configurations give every test fresh
	// connections and close them afterwards, as cmd/ccli does): a Modify session a test
	// leaves behind then lives on and constrains the tests after it.
	sharedConn bool
}

var configs = []config{
	{"base1/default-names", 1, server.DefaultNetworkInstanceName, "NON-DEFAULT-VRF", 0, 0, 0, 0, false},
	{"base1000/renamed", 1000, "default-ni", "vrf-1", 0, 0, 0, 0, false},
	{"base2^32/unicode", 1 << 32, "défaut·网络", "vrf with spaces", 0, 0, 0, 0, false},
	{"base2^63-2^20/default-names", 1<<63 - 1<<20, server.DefaultNetworkInstanceName, "NON-DEFAULT-VRF", 0, 0, 0, 0, false},
	{"base7/slow-responses-3ms", 7, server.DefaultNetworkInstanceName, "NON-DEFAULT-VRF", 3 * time.Millisecond, 0, 0, 0, false},
	{"base7/slow-request-handling-3ms", 7, server.DefaultNetworkInstanceName, "NON-DEFAULT-VRF", 0, 3 * time.Millisecond, 0, 0, false},
	{"base7/slow-client-enqueue-2ms", 7, server.DefaultNetworkInstanceName, "NON-DEFAULT-VRF", 0, 0, 2 * time.Millisecond, 0, false},
	{"base7/slow-client-receive-3ms", 7, server.DefaultNetworkInstanceName, "NON-DEFAULT-VRF", 0, 0, 0, 3 * time.Millisecond, false},
	{"base7/slow-client-enqueue-2ms+receive-6ms", 7, server.DefaultNetworkInstanceName, "NON-DEFAULT-VRF", 0, 0, 2 * time.Millisecond, 6 * time.Millisecond, false},
	{"base3/shared-connection", 3, server.DefaultNetworkInstanceName, "NON-DEFAULT-VRF", 0, 0, 0, 0, true},
}

// newServer builds a reference server whose default NI and VRF carry the configured names.
func newServer(cfg config, noFwdRef bool) (*server.Server, error) {
	var ropts []rib.RIBOpt
	if noFwdRef {
		ropts = append(ropts, rib.DisableForwardReferences())
	}
	r := rib.New(cfg.defNI, ropts...)
	if err := r.AddNetworkInstance(cfg.vrf); err != nil {
		return nil, err
	}
	f, err := server.NewFake()
	if err != nil {
		return nil, err
	}
	f.InjectRIB(r)
	return f.Server, nil
}

type env struct {
	gs *drv.GRPCServer
	// shared, when set, is the one connection every client of this environment uses.
	shared *grpc.ClientConn
	// noCensusWait: the next test starts the moment the clients' Stop has returned (the
	// goroutine census, which waits for exits in progress, is skipped): what the next test
	// finds on the server is then decided by Stop alone.
	noCensusWait bool
}

func (e *env) client() (*fluent.GRIBIClient, func()) {
	if e.shared != nil {
		c := fluent.NewClient()
		c.Connection().WithStub(spb.NewGRIBIClient(e.shared))
		return c, func() {}
	}
	cc, _, err := e.gs.Dial()
	if err != nil {
		panic(err)
	}
	c := fluent.NewClient()
	c.Connection().WithStub(spb.NewGRIBIClient(cc))
	return c, func() { cc.Close() }
}

type verdict struct {
	name    string
	failed  bool
	skipped bool
	msgs    []string
	dur     time.Duration
	// leaked: goroutines of the client library still alive after every client was stopped
	leaked []string
}

func firstClientFrame(stack string) string {
	for _, l := range strings.Split(stack, "\n") {
		l = strings.TrimSpace(l)
		if strings.HasPrefix(l, "github.com/openconfig/gribigo/client.") {
			if i := strings.Index(l, "("); i > 0 && !strings.HasPrefix(l[i:], "(*") {
				return l[:i]
			}
			return l
		}
	}
	return "?"
}

// runTest runs one compliance test against the server behind e with fresh clients.
func runTest(e *env, tt *compliance.TestSpec) verdict {
	c, close1 := e.client()
	sc, close2 := e.client()
	defer close1()
	defer close2()
	tb := &mon.TB{NameStr: tt.In.ShortName}
	start := time.Now()
	tb.Run(func(t testing.TB) {
		tt.In.Fn(c, t, compliance.SecondClient(sc))
	})
	// the suite's own driver stops both clients after each test
	quiet := &mon.TB{}
	quiet.Run(func(t testing.TB) { c.Stop(t); sc.Stop(t) })
	v := verdict{name: tt.In.ShortName, dur: time.Since(start)}
	// Every client the test used has been stopped: nothing of the client library may still be
	// running (bounded wait for exits in progress; tests run one at a time in this process).
	for k := 0; k < 3000 && !e.noCensusWait; k++ {
		v.leaked = v.leaked[:0]
		for _, g := range mon.InRepo(mon.Dump(), "github.com/openconfig/gribigo/client.") {
			if !strings.Contains(g.Stack, "verifharness/") {
				v.leaked = append(v.leaked, fmt.Sprintf("g%s [%s] %s", g.ID, g.State, firstClientFrame(g.Stack)))
			}
		}
		if len(v.leaked) == 0 {
			break
		}
		time.Sleep(time.Millisecond)
	}
	v.failed = len(tb.Fatals)+len(tb.Errors) > 0
	v.skipped = tb.Skipped() && !v.failed
	v.msgs = append(append([]string{}, tb.Fatals...), tb.Errors...)
	return v
}

const conformantPerms = "VERIF_C19_PERMS"

func TestCheck(t *testing.T) {
	if _, ok := child.IsChild(); ok {
		t.Skip("child process")
	}
	run := ev.Start(t, "C19", "exploration")
	type job struct{ arg string }
	var jobs []job
	nPerm := run.Pick(6, 40)
	nCfg := len(configs)
	for c := 0; c < nCfg; c++ {
		np := nPerm
		if configs[c].respDelay+configs[c].reqDelay+configs[c].sendDelay+configs[c].recvDelay > 0 {
			np = run.Pick(2, 10) // the timing variants are slow by construction
		}
		for p := 0; p < np; p++ {
			jobs = append(jobs, job{fmt.Sprintf("conformant:%d:%d", c, p)})
		}
	}
	jobs = append(jobs, job{"trio"})
	// every test as the FIRST test on a fresh server with the default starting election id,
	// and ordered pairs of tests on fresh servers (quick: a seeded sample; thorough: all of them)
	jobs = append(jobs, job{"slowteardown"})
	nShort := run.Pick(8, 32)
	for k := 0; k < nShort; k++ {
		jobs = append(jobs, job{fmt.Sprintf("short:%d:%d", k, nShort)})
	}
	for f := range faults {
		if faults[f].slow && !run.Thorough() {
			continue
		}
		if faults[f].shards > 1 {
			for k := 0; k < faults[f].shards; k++ {
				jobs = append(jobs, job{fmt.Sprintf("fault:%s#%d/%d", faults[f].name, k, faults[f].shards)})
			}
			continue
		}
		jobs = append(jobs, job{"fault:" + faults[f].name})
	}
	ev.Parallel(len(jobs), 8, func(i int) {
		if run.OnlyCase != "" && run.OnlyCase != jobs[i].arg {
			return
		}
		o := child.Run(child.Spec{Prop: "C19", Tier: run.Tier, Seed: run.Seed, Arg: jobs[i].arg}, 90*time.Minute)
		child.Fold(run, jobs[i].arg, o, false)
	})
	run.Set("compliance_tests_in_suite", len(compliance.TestSuite))
	run.Set("fault_catalogue", faultNames())
	run.Assume("the reference server wrapped by a traffic-rewriting proxy is a faithful single-requirement violator: a control sample of unrelated tests must still pass under each fault")
	run.Finish("conformant half: the whole compliance.TestSuite run in seeded random permutations on ONE long-lived in-memory reference server per configuration (plus a second one without forward references for the tests that require it), fresh fluent clients on their own transports per test, for election bases 1 / 1000 / 2^32 / 2^63-2^20 and renamed / unicode network-instance names, plus four timing variants of the same conformant set-up (slow responses, slow request handling, slow client enqueue, slow client receive - injected through a proxy and the client's yield points); every non-skipped test must pass in every order and configuration, and leave no goroutine of the client library behind once its clients are stopped; all 6 orders of the forward-reference trio. Faulty half: a catalogue of proxies around the reference server, each breaking one protocol requirement by rewriting requests or responses; every compliance test written for that requirement must FAIL (captured by a fatal-capturing testing.TB), a control sample of unrelated tests must still pass. Distinct = by (configuration, permutation) and (fault, test)", 10, false)
}

func faultNames() []string {
	var out []string
	for _, f := range faults {
		out = append(out, f.name)
	}
	return out
}

func TestChild(t *testing.T) {
	sp, ok := child.IsChild()
	if !ok {
		t.Skip("not a child")
	}
	wr, err := child.NewWriter()
	if err != nil {
		t.Fatal(err)
	}
	defer wr.Close()
	client.BusyLoopDelay = time.Millisecond
	col := child.NewCollector(wr)
	defer col.Flush()
	parts := strings.Split(sp.Arg, ":")
	switch parts[0] {
	case "conformant":
		var c, p int
		fmt.Sscanf(parts[1], "%d", &c)
		fmt.Sscanf(parts[2], "%d", &p)
		conformant(col, wr, sp, configs[c], p)
	case "trio":
		trio(col, wr, sp)
	case "slowteardown":
		slowTeardown(col, wr, sp)
	case "short":
		var k, n int
		fmt.Sscanf(parts[1], "%d", &k)
		fmt.Sscanf(parts[2], "%d", &n)
		shortOrders(col, wr, sp, k, n)
	case "fault":
		faulty(col, wr, sp, strings.Join(parts[1:], ":"))
	}
}

func setConfig(cfg config) {
	compliance.SetElectionID(cfg.elecBase)
	compliance.SetDefaultNetworkInstanceName(cfg.defNI)
	compliance.SetNonDefaultVRFName(cfg.vrf)
}

func conformant(col *child.Collector, wr *child.Writer, sp *child.Spec, cfg config, perm int) {
	setConfig(cfg)
	caseID := fmt.Sprintf("conformant:%s:perm%d", cfg.name, perm)
	main, err := newServer(cfg, false)
	if err != nil {
		col.Fatal(err.Error())
		return
	}
	strict, err := newServer(cfg, true)
	if err != nil {
		col.Fatal(err.Error())
		return
	}
	var im, is spb.GRIBIServer = main, strict
	if cfg.respDelay > 0 || cfg.reqDelay > 0 {
		im, is = slowProxy(main, cfg.respDelay, cfg.reqDelay), slowProxy(strict, cfg.respDelay, cfg.reqDelay)
	}
	if cfg.sendDelay > 0 || cfg.recvDelay > 0 {
		client.VerifSetPoint(func(name string) {
			switch {
			case name == "client.q.beforeSend" && cfg.sendDelay > 0:
				time.Sleep(cfg.sendDelay)
			case name == "client.recv.beforeHandle" && cfg.recvDelay > 0:
				time.Sleep(cfg.recvDelay)
			}
		})
		defer client.VerifSetPoint(nil)
	}
	em, es := &env{gs: drv.Serve(im)}, &env{gs: drv.Serve(is)}
	defer em.gs.Stop()
	defer es.gs.Stop()
	if cfg.sharedConn {
		for _, e := range []*env{em, es} {
			cc, _, err := e.gs.Dial()
			if err != nil {
				col.Fatal(err.Error())
				return
			}
			defer cc.Close()
			e.shared = cc
		}
	}
	r := rand.New(rand.NewSource(sp.Seed*7919 + int64(perm)*104729 + int64(len(cfg.name))))
	order := r.Perm(len(compliance.TestSuite))
	var names []string
	passed, skipped := 0, 0
	for _, idx := range order {
		tt := compliance.TestSuite[idx]
		wr.InFlight(caseID + " / " + tt.In.ShortName)
		e := em
		if tt.In.RequiresDisallowedForwardReferences {
			e = es
		}
		v := runTest(e, tt)
		names = append(names, tt.In.ShortName)
		if len(v.leaked) > 0 && !v.failed {
			col.Violation(caseID, "client-goroutines-left-behind:"+sanit(tt.In.ShortName), fmt.Sprintf("after %q (passed, every client stopped) %d goroutine(s) of the client library are still alive: %v", tt.In.ShortName, len(v.leaked), v.leaked), nil)
		}
		col.Count("goroutine_censuses_after_tests", 1)
		switch {
		case v.failed:
			prev := "first"
			if len(names) > 1 {
				prev = names[len(names)-2]
			}
			col.Violation(caseID, "conformant-server-fails:"+sanit(tt.In.ShortName), fmt.Sprintf("%q failed on the conformant reference server (configuration %s, position %d of the permutation, after %q): %s", tt.In.ShortName, cfg.name, len(names), prev, strings.Join(v.msgs, " | ")), map[string]any{"order_so_far": names})
		case v.skipped:
			skipped++
			col.Seen("skipped_tests", tt.In.ShortName)
		default:
			passed++
		}
		col.Count("test_executions", 1)
	}
	col.Count("tests_passed", int64(passed))
	col.Count("tests_skipped", int64(skipped))
	col.Eval(1)
	col.Distinct(caseID + fmt.Sprint(order))
	col.Seen("configurations", cfg.name)
	if perm == 0 {
		col.Sample(map[string]any{"case": caseID, "first_tests_of_the_order": names[:8]})
	}
}

// slowTeardown: a conformant server that takes 3.5 s to act on a client's half-close (every
// Stop of a client therefore takes that long). Tests that negotiate RIB acknowledgements and
// tests that negotiate FIB acknowledgements alternate on the one long-lived server: each
// must find the sessions of its predecessor gone.
func slowTeardown(col *child.Collector, wr *child.Writer, sp *child.Spec) {
	cfg := configs[0]
	setConfig(cfg)
	main, err := newServer(cfg, false)
	if err != nil {
		col.Fatal(err.Error())
		return
	}
	e := &env{gs: drv.Serve(&proxy{inner: main, eofDelay: 3500 * time.Millisecond}), noCensusWait: true}
	defer e.gs.Stop()
	seq := []string{
		"Add IPv4 entry that can be programmed on the server - with RIB ACK",
		"Add IPv4 entry that can be programmed on the server - with FIB ACK",
		"Get for installed NH - RIB ACK",
	}
	if sp.Tier == "thorough" {
		seq = append(seq, "Get for installed NH - FIB ACK", "Delete NH entry successfully - RIB ACK", "Delete NH entry successfully - FIB ACK")
	}
	var names []string
	for _, n := range seq {
		tt := byName(n)
		if tt == nil {
			col.Fatal("slow teardown: no such test " + n)
			return
		}
		wr.InFlight("slowteardown / " + n)
		v := runTest(e, tt)
		names = append(names, n)
		if v.failed {
			col.Violation("slowteardown", "conformant-server-fails:"+sanit(n), fmt.Sprintf("%q failed on a conformant reference server that takes 3.5 s to act on a client's half-close (position %d, order %v): %s", n, len(names), names, strings.Join(v.msgs, " | ")), nil)
		}
		col.Count("test_executions", 1)
		col.Count("tests_on_a_slow_teardown_server", 1)
	}
	col.Eval(1)
	col.Distinct("slowteardown" + fmt.Sprint(seq))
	col.Seen("configurations", "base1/slow-teardown-3.5s")
}

// shortOrders: sequences of one or two tests, each sequence on fresh servers with the
// package's starting election id - what a user who selects a subset of the suite gets.
func shortOrders(col *child.Collector, wr *child.Writer, sp *child.Spec, shard, nShards int) {
	n := len(compliance.TestSuite)
	var seqs [][]int
	for i := 0; i < n; i++ {
		seqs = append(seqs, []int{i})
	}
	if sp.Tier == "thorough" {
		for i := 0; i < n; i++ {
			for j := 0; j < n; j++ {
				if i != j {
					seqs = append(seqs, []int{i, j})
				}
			}
		}
	} else {
		r := rand.New(rand.NewSource(sp.Seed*15485863 + 17))
		for k := 0; k < 320; k++ {
			i, j := r.Intn(n), r.Intn(n)
			if i != j {
				seqs = append(seqs, []int{i, j})
			}
		}
	}
	cfgs := []config{configs[0]}
	for si, seq := range seqs {
		if si%nShards != shard {
			continue
		}
		cfg := cfgs[0]
		setConfig(cfg)
		main, err := newServer(cfg, false)
		if err != nil {
			col.Fatal(err.Error())
			return
		}
		strict, _ := newServer(cfg, true)
		em, es := &env{gs: drv.Serve(main)}, &env{gs: drv.Serve(strict)}
		var names []string
		for _, idx := range seq {
			tt := compliance.TestSuite[idx]
			e := em
			if tt.In.RequiresDisallowedForwardReferences {
				e = es
			}
			wr.InFlight(fmt.Sprintf("short %v / %s", seq, tt.In.ShortName))
			v := runTest(e, tt)
			names = append(names, tt.In.ShortName)
			if v.failed {
				pos := "as the first test on a fresh server"
				if len(names) > 1 {
					pos = fmt.Sprintf("as the second test on a fresh server, after %q", names[0])
				}
				col.Violation(fmt.Sprintf("short:%v", seq), "conformant-server-fails:"+sanit(tt.In.ShortName), fmt.Sprintf("%q failed on the conformant reference server %s (starting election id %d): %s", tt.In.ShortName, pos, cfg.elecBase, strings.Join(v.msgs, " | ")), map[string]any{"order": names})
			}
			col.Count("test_executions", 1)
		}
		em.gs.Stop()
		es.gs.Stop()
		col.Eval(1)
		col.Distinct("short" + fmt.Sprint(seq))
		if len(seq) == 1 {
			col.Count("tests_run_first_on_a_fresh_server", 1)
		} else {
			col.Count("ordered_pairs_on_fresh_servers", 1)
		}
	}
}

func sanit(s string) string {
	var b strings.Builder
	for _, c := range s {
		switch {
		case c >= 'a' && c <= 'z', c >= 'A' && c <= 'Z', c >= '0' && c <= '9':
			b.WriteRune(c)
		default:
			b.WriteByte('-')
		}
	}
	out := b.String()
	for strings.Contains(out, "--") {
		out = strings.ReplaceAll(out, "--", "-")
	}
	return strings.Trim(out, "-")
}

// trio: all 6 orders of the tests that concern forward references, each order on fresh servers.
func trio(col *child.Collector, wr *child.Writer, sp *child.Spec) {
	cfg := configs[0]
	setConfig(cfg)
	var sel []*compliance.TestSpec
	for _, tt := range compliance.TestSuite {
		n := tt.In.ShortName
		if tt.In.RequiresDisallowedForwardReferences || tt.In.RequiresServerReordering || strings.Contains(n, "random order") {
			sel = append(sel, tt)
		}
	}
	if len(sel) > 4 {
		sel = sel[:4]
	}
	var perms [][]int
	var rec func(p []int, rest []int)
	rec = func(p, rest []int) {
		if len(rest) == 0 {
			perms = append(perms, append([]int{}, p...))
			return
		}
		for i := range rest {
			nr := append(append([]int{}, rest[:i]...), rest[i+1:]...)
			rec(append(p, rest[i]), nr)
		}
	}
	idx := make([]int, len(sel))
	for i := range idx {
		idx[i] = i
	}
	rec(nil, idx)
	for pi, p := range perms {
		main, _ := newServer(cfg, false)
		strict, _ := newServer(cfg, true)
		em, es := &env{gs: drv.Serve(main)}, &env{gs: drv.Serve(strict)}
		var names []string
		for _, i := range p {
			tt := sel[i]
			e := em
			if tt.In.RequiresDisallowedForwardReferences {
				e = es
			}
			wr.InFlight("trio / " + tt.In.ShortName)
			v := runTest(e, tt)
			names = append(names, tt.In.ShortName)
			if v.failed {
				col.Violation(fmt.Sprintf("trio:%d", pi), "conformant-server-fails:"+sanit(tt.In.ShortName), fmt.Sprintf("%q failed in forward-reference order %v: %s", tt.In.ShortName, names, strings.Join(v.msgs, " | ")), nil)
			}
			col.Count("test_executions", 1)
		}
		em.gs.Stop()
		es.gs.Stop()
		col.Eval(1)
		col.Distinct("trio" + fmt.Sprint(p))
	}
	col.Count("forward_reference_orders", int64(len(perms)))
}

func byName(n string) *compliance.TestSpec {
	for _, tt := range compliance.TestSuite {
		if tt.In.ShortName == n {
			return tt
		}
	}
	return nil
}

func faulty(col *child.Collector, wr *child.Writer, sp *child.Spec, name string) {
	cfg := configs[0]
	setConfig(cfg)
	shard, nShards := 0, 1
	jobID := "fault:" + name
	if i := strings.Index(name, "#"); i >= 0 {
		fmt.Sscanf(name[i+1:], "%d/%d", &shard, &nShards)
		name = name[:i]
	}
	var f *fault
	for i := range faults {
		if faults[i].name == name {
			ff := faults[i]
			f = &ff
		}
	}
	if f == nil {
		col.Fatal("unknown fault " + name)
		return
	}
	if f.expectIf != nil {
		f.expect = nil
		k := 0
		for _, tt := range compliance.TestSuite {
			if f.expectIf(tt) {
				if k%nShards == shard {
					f.expect = append(f.expect, tt.In.ShortName)
				}
				k++
			}
		}
		if shard != 0 {
			f.control = nil
		}
	}
	type res struct {
		test    string
		control bool
		v       verdict
	}
	var mu sync.Mutex
	var results []res
	var wg sync.WaitGroup
	// the compliance package keeps its election id in a package-level counter that every test
	// reads and bumps: tests must not run concurrently in one process
	sem := make(chan struct{}, 1)
	runOne := func(test string, control bool) {
		defer wg.Done()
		sem <- struct{}{}
		defer func() { <-sem }()
		tt := byName(test)
		if tt == nil {
			mu.Lock()
			results = append(results, res{test: test, control: control, v: verdict{name: test, msgs: []string{"NO SUCH TEST"}}})
			mu.Unlock()
			return
		}
		inner, err := newServer(cfg, f.noFwdRef != tt.In.RequiresDisallowedForwardReferences)
		if err != nil {
			col.Fatal(err.Error())
			return
		}
		e := &env{gs: drv.Serve(f.wrap(inner))}
		defer e.gs.Stop()
		v := runTest(e, tt)
		for k := 1; k < f.repeat && !control && !v.failed; k++ {
			inner2, _ := newServer(cfg, f.noFwdRef != tt.In.RequiresDisallowedForwardReferences)
			e2 := &env{gs: drv.Serve(f.wrap(inner2))}
			v = runTest(e2, tt)
			e2.gs.Stop()
		}
		mu.Lock()
		results = append(results, res{test: test, control: control, v: v})
		mu.Unlock()
	}
	wr.InFlight("fault " + name)
	for _, tn := range f.expect {
		wg.Add(1)
		go runOne(tn, false)
	}
	for _, tn := range f.control {
		wg.Add(1)
		go runOne(tn, true)
	}
	wg.Wait()
	sort.Slice(results, func(i, j int) bool { return results[i].test < results[j].test })
	flagged := 0
	for _, r := range results {
		col.Count("faulty_server_test_executions", 1)
		col.Eval(1) // one evaluation = one compliance test run against one faulty server
		col.Distinct("fault:" + name + "/" + r.test)
		switch {
		case len(r.v.msgs) == 1 && r.v.msgs[0] == "NO SUCH TEST":
			col.Fatal("fault " + name + " names an unknown test: " + r.test)
		case r.control:
			if r.v.failed {
				col.Inconclusive(fmt.Sprintf("fault %s: the control test %q fails too (%s): the proxy breaks more than one requirement", name, r.test, strings.Join(r.v.msgs, " | ")))
			} else {
				col.Count("control_tests_passed_under_fault", 1)
			}
		case r.v.skipped:
			col.Inconclusive(fmt.Sprintf("fault %s: %q was skipped, it cannot witness the fault", name, r.test))
		case !r.v.failed:
			col.Violation(jobID, "faulty-server-not-flagged:"+name+":"+sanit(r.test), fmt.Sprintf("against a server that %s, the compliance test %q still PASSES (took %s)", f.what, r.test, r.v.dur.Round(time.Millisecond)), nil)
		default:
			flagged++
			col.Count("faults_flagged_by_their_tests", 1)
		}
	}
	col.Seen("faults_exercised", name)
	col.Sample(map[string]any{"fault": name, "breaks": f.what, "tests_expected_to_fail": f.expect, "flagged": flagged})
}

var _ = context.Background
