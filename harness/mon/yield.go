package mon

import (
	"runtime"
	"sync"
	"sync/atomic"
	"time"
)

// Yielder injects scheduling perturbations at the repository's verif yield
// points: with probability 1/Every a point yields (Gosched) or sleeps briefly.
// It also records how often each point was hit, as evidence of what ran.
type Yielder struct {
	Every uint64 // 0 = never perturb, only count
	MaxUS int
	seed  uint64
	ctr   atomic.Uint64
	mu    sync.Mutex
	hits  map[string]int64
}

// NewYielder returns a yielder whose decisions derive from seed and a global counter.
func NewYielder(seed int64, every uint64, maxUS int) *Yielder {
	return &Yielder{Every: every, MaxUS: maxUS, seed: uint64(seed)*2654435761 + 1, hits: map[string]int64{}}
}

// Point is the function to register with VerifSetPoint.
func (y *Yielder) Point(name string) {
	n := y.ctr.Add(1)
	y.mu.Lock()
	y.hits[name]++
	y.mu.Unlock()
	if y.Every == 0 {
		return
	}
	x := (n + y.seed) * 0x9E3779B97F4A7C15
	x ^= x >> 29
	if x%y.Every != 0 {
		return
	}
	if (x>>8)%3 == 0 || y.MaxUS == 0 {
		runtime.Gosched()
		return
	}
	time.Sleep(time.Duration(1+int((x>>16)%uint64(y.MaxUS))) * time.Microsecond)
}

// Hits returns a copy of the per-point hit counts.
func (y *Yielder) Hits() map[string]int64 {
	y.mu.Lock()
	defer y.mu.Unlock()
	out := make(map[string]int64, len(y.hits))
	for k, v := range y.hits {
		out[k] = v
	}
	return out
}

var yieldCtr atomic.Uint64

// yield gives other goroutines a chance to run while the harness polls hooked state.
func yield() {
	if yieldCtr.Add(1)%64 == 0 {
		time.Sleep(20 * time.Microsecond)
		return
	}
	runtime.Gosched()
}
