package c11

import (
	"fmt"
	"math/rand"
	"time"

	"github.com/openconfig/gribigo/server"

	aftpb "github.com/openconfig/gribi/v1/proto/gribi_aft"
	spb "github.com/openconfig/gribi/v1/proto/service"

	"verifharness/canon"
	"verifharness/child"
	"verifharness/drv"
	"verifharness/gen"
	"verifharness/mon"
)

// stallScenario: a Get reader that has stopped reading part-way through one network
// instance (its stream is flow-controlled), a Flush of that instance queued up behind it
// - and, meanwhile, requests that have nothing to do with that instance: a new session
// negotiating, announcing a higher id, programming another instance, a Get and a Flush of
// other instances. Each of them must be answered while the first Get is still stalled (the
// reader resumes only after it has seen those answers - the situation of a controller that
// reads the RIB back and waits for its new primary before it goes on). A request that is
// not answered, with every goroutine of the server provably blocked, is a deadlock
// between RPCs that should be independent.
func stallScenario(wr *child.Writer, caseID string, r *rand.Rand) (stop bool) {
	nis := []string{server.DefaultNetworkInstanceName, "VRF1", "VRF2"}
	srv, err := drv.NewServer(nis[1:])
	if err != nil {
		wr.Record(map[string]any{"kind": "inconclusive", "case": caseID, "text": err.Error()})
		return false
	}
	perm := r.Perm(3)
	stalledNI, otherNI, thirdNI := nis[perm[0]], nis[perm[1]], nis[perm[2]]
	withFlush := r.Intn(4) > 0
	var steps []string
	problem := func(sig, txt string) {
		wr.Record(map[string]any{"kind": "problem", "case": caseID, "sig": sig, "text": txt, "detail": map[string]any{"stalled_instance": stalledNI, "flush_queued_behind_it": withFlush, "steps_answered": steps}})
	}
	inconclusive := func(txt string) {
		wr.Record(map[string]any{"kind": "inconclusive", "case": caseID, "text": txt})
	}
	blocked := func(step string) {
		time.Sleep(time.Second)
		if ok, desc := mon.ProvenBlock("gribigo/", time.Second); ok {
			problem("deadlock:stalled-get:"+step+":"+mon.BlockSignature(desc), fmt.Sprintf("while a Get of %s is stalled by its reader (a Flush of it queued behind: %v), the %s - which does not involve %s - was never answered and the server is permanently blocked: %s", stalledNI, withFlush, step, stalledNI, desc))
		} else {
			inconclusive(step + " during a stalled Get: watchdog fired without a proven block (" + desc + ")")
		}
	}
	// a primary fills the instance
	st0 := drv.OpenModify(srv)
	s0 := &drv.Session{Stream: st0, Name: "filler", DefaultNI: nis[0]}
	if _, err := s0.Params(drv.SinglePrimary(false)); err != nil {
		inconclusive("setup: " + err.Error())
		return false
	}
	id0 := &spb.Uint128{High: uint64(r.Intn(2)), Low: 10}
	s0.Elect(id0)
	var ops []*spb.AFTOperation
	n := 20 + r.Intn(60)
	for k := 0; k < n; k++ {
		ops = append(ops, &spb.AFTOperation{Id: uint64(k + 1), NetworkInstance: stalledNI, Op: spb.AFTOperation_ADD, ElectionId: id0,
			Entry: &spb.AFTOperation_NextHop{NextHop: &aftpb.Afts_NextHopKey{Index: uint64(k + 1), NextHop: &aftpb.Afts_NextHop{IpAddress: gen.S("192.0.2.1")}}}})
	}
	if res := s0.Ops(ops, id0); res.RPCErr != nil {
		inconclusive("setup operations: " + res.RPCErr.Error())
		return false
	}
	// the stalled reader
	stallAt := 1 + r.Intn(n-1)
	gst, stalled, release, done := drv.StalledGet(srv, &spb.GetRequest{NetworkInstance: &spb.GetRequest_Name{Name: stalledNI}, Aft: spb.AFTType_ALL}, stallAt)
	defer release()
	select {
	case <-stalled:
	case <-time.After(drv.Watchdog):
		inconclusive("the Get never reached its stall point")
		return true
	}
	flushDone := make(chan error, 1)
	if withFlush {
		go func() {
			_, err, wd := drv.Flush(srv, &spb.FlushRequest{NetworkInstance: &spb.FlushRequest_Name{Name: stalledNI}, Election: &spb.FlushRequest_Override{Override: &spb.Empty{}}})
			if wd != nil {
				err = wd
			}
			flushDone <- err
		}()
		// let it reach the instance's lock (scheduling aid only; no verdict depends on it)
		time.Sleep(time.Duration(1+r.Intn(5)) * time.Millisecond)
	}
	// unrelated requests, each of which must be answered now
	st1 := drv.OpenModify(srv)
	s1 := &drv.Session{Stream: st1, Name: "newcomer", DefaultNI: otherNI} // its barrier operations go to otherNI too
	if _, err := s1.Params(drv.SinglePrimary(false)); err != nil {
		if err == drv.ErrWatchdog {
			blocked("negotiation of a new session")
			return true
		}
		problem("negotiation-rejected-during-stalled-get", err.Error())
		return false
	}
	steps = append(steps, "negotiation")
	id1 := &spb.Uint128{High: id0.High, Low: 11}
	if rep, err := s1.Elect(id1); err != nil {
		if err == drv.ErrWatchdog {
			blocked("election announcement of a new session")
			return true
		}
		problem("announcement-rejected-during-stalled-get", err.Error())
		return false
	} else if rep.High != id1.High || rep.Low != id1.Low {
		problem("reported-id-not-running-max:during-stalled-get", fmt.Sprintf("announced %s, told %s", mon.IDStr(id1), mon.IDStr(rep)))
		return false
	}
	steps = append(steps, "election")
	op := &spb.AFTOperation{Id: 5000, NetworkInstance: otherNI, Op: spb.AFTOperation_ADD, ElectionId: id1,
		Entry: &spb.AFTOperation_NextHop{NextHop: &aftpb.Afts_NextHopKey{Index: 4242, NextHop: &aftpb.Afts_NextHop{IpAddress: gen.S("192.0.2.2")}}}}
	res := s1.Ops([]*spb.AFTOperation{op}, id1)
	if res.RPCErr == drv.ErrWatchdog {
		blocked("operation on " + otherNI)
		return true
	}
	okOp := false
	for _, ar := range res.Results {
		okOp = okOp || (ar.GetId() == 5000 && ar.GetStatus() == spb.AFTResult_RIB_PROGRAMMED)
	}
	if !okOp {
		problem("primary-operation-rejected:during-stalled-get", fmt.Sprintf("results %v err %v", res.Results, res.RPCErr))
		return false
	}
	steps = append(steps, "operation")
	resps, gerr, wd := drv.Get(srv, &spb.GetRequest{NetworkInstance: &spb.GetRequest_Name{Name: otherNI}, Aft: spb.AFTType_ALL}, 0)
	if wd != nil {
		blocked("Get of " + otherNI)
		return true
	}
	if got, _ := canon.FromGet(resps); gerr != nil || got.Count() != 1 {
		problem("get-error-under-concurrency:during-stalled-get", fmt.Sprintf("Get(%s): %d entries, %v", otherNI, got.Count(), gerr))
		return false
	}
	steps = append(steps, "get")
	if _, ferr, wd := drv.Flush(srv, &spb.FlushRequest{NetworkInstance: &spb.FlushRequest_Name{Name: thirdNI}, Election: &spb.FlushRequest_Id{Id: id1}}); wd != nil {
		blocked("Flush of " + thirdNI)
		return true
	} else if ferr != nil {
		problem("flush-error-under-concurrency:during-stalled-get", ferr.Error())
		return false
	}
	steps = append(steps, "flush")
	// the reader resumes: everything drains
	release()
	select {
	case err := <-done:
		if err != nil {
			problem("get-error-under-concurrency:resumed", err.Error())
		} else if got := len(gst.Received()); got != n {
			problem("get-incomplete-after-stall", fmt.Sprintf("the resumed Get delivered %d of %d entries", got, n))
		}
	case <-time.After(drv.Watchdog):
		blocked("resumed Get")
		return true
	}
	if withFlush {
		select {
		case err := <-flushDone:
			if err != nil {
				problem("flush-error-under-concurrency:after-stalled-get", err.Error())
			}
		case <-time.After(drv.Watchdog):
			blocked("Flush queued behind the stalled Get")
			return true
		}
	}
	s0.CloseSend()
	s1.CloseSend()
	wr.Record(map[string]any{"kind": "run", "case": caseID, "stalled_get_scenarios": 1, "requests_answered_during_a_stalled_get": len(steps), "signature": "stall:" + stalledNI + fmt.Sprint(withFlush)})
	return false
}
