// C17: chk assertion helpers pass exactly when the expected item is present.
package c17

import (
	"errors"
	"fmt"
	"io"
	"math/rand"
	"testing"

	"github.com/openconfig/gribigo/chk"
	"github.com/openconfig/gribigo/client"
	"github.com/openconfig/gribigo/constants"
	"github.com/openconfig/gribigo/fluent"
	"google.golang.org/grpc/codes"
	"google.golang.org/grpc/status"
	"google.golang.org/protobuf/proto"

	aftpb "github.com/openconfig/gribi/v1/proto/gribi_aft"
	spb "github.com/openconfig/gribi/v1/proto/service"

	"verifharness/ev"
	"verifharness/mon"
)

// ---------------------------------------------------------------- generators

var kinds = []string{"nhg", "nh", "ipv4", "ipv6", "mpls"}

func details(r *rand.Rand, kind string) *client.OpDetailsResults {
	d := &client.OpDetailsResults{Type: []constants.OpType{constants.Add, constants.Replace, constants.Delete}[r.Intn(3)]}
	k := uint64(1 + r.Intn(3))
	switch kind {
	case "nhg":
		d.NextHopGroupID = k
	case "nh":
		d.NextHopIndex = k
	case "ipv4":
		d.IPv4Prefix = fmt.Sprintf("10.0.%d.0/24", k)
	case "ipv6":
		d.IPv6Prefix = fmt.Sprintf("2001:db8:%d::/48", k)
	case "mpls":
		d.MPLSLabel = 100 + k
	}
	return d
}

func genResult(r *rand.Rand) *client.OpResult {
	o := &client.OpResult{Timestamp: r.Int63(), Latency: r.Int63n(1000)}
	switch r.Intn(10) {
	case 0:
		o.CurrentServerElectionID = &spb.Uint128{High: uint64(r.Intn(2)), Low: uint64(1 + r.Intn(3))}
		return o
	case 1:
		o.SessionParameters = &spb.SessionParametersResult{Status: spb.SessionParametersResult_OK}
		return o
	}
	o.OperationID = uint64(1 + r.Intn(6))
	if r.Intn(12) == 0 {
		o.OperationID = 0 // ids are the client's choice: zero is one of them
	}
	o.ProgrammingResult = []spb.AFTResult_Status{spb.AFTResult_FAILED, spb.AFTResult_RIB_PROGRAMMED, spb.AFTResult_FIB_PROGRAMMED}[r.Intn(3)]
	if r.Intn(4) == 0 {
		o.ServerError = []string{"bad entry", "unresolved"}[r.Intn(2)]
	}
	if r.Intn(12) == 0 {
		o.ClientError = "client error"
	}
	if r.Intn(6) > 0 {
		o.Details = details(r, kinds[r.Intn(len(kinds))])
		if r.Intn(10) == 0 {
			// what the client records for an acknowledged operation that carried no entry:
			// the operation type and no key at all - it matches no want that names an entry
			o.Details = &client.OpDetailsResults{Type: o.Details.Type}
		}
	}
	return o
}

func clone(o *client.OpResult) *client.OpResult {
	c := *o
	if o.Details != nil {
		d := *o.Details
		c.Details = &d
	}
	if o.CurrentServerElectionID != nil {
		c.CurrentServerElectionID = proto.Clone(o.CurrentServerElectionID).(*spb.Uint128)
	}
	if o.SessionParameters != nil {
		c.SessionParameters = proto.Clone(o.SessionParameters).(*spb.SessionParametersResult)
	}
	c.Timestamp, c.Latency = 0, 0
	return &c
}

// nearMiss derives a wanted result from an existing one by changing exactly one aspect.
func nearMiss(r *rand.Rand, o *client.OpResult) (*client.OpResult, string) {
	w := clone(o)
	switch r.Intn(8) {
	case 0:
		w.ProgrammingResult = (w.ProgrammingResult + 1) % 4
		return w, "other-status"
	case 1:
		w.OperationID += 7
		return w, "other-op-id"
	case 2:
		if w.Details != nil {
			kind := kindOf(w.Details)
			nk := kinds[(indexOf(kind)+1+r.Intn(4))%5]
			k := keyOf(w.Details)
			w.Details = &client.OpDetailsResults{Type: w.Details.Type}
			setKey(w.Details, nk, k)
			return w, "same-key-other-kind"
		}
	case 3:
		if w.Details != nil {
			setKey(w.Details, kindOf(w.Details), keyOf(w.Details)+5)
			return w, "absent-key-same-kind"
		}
	case 4:
		if w.Details != nil {
			w.Details.Type = (w.Details.Type % 3) + 1
			return w, "other-op-type"
		}
	case 5:
		w.ServerError = "another message"
		return w, "other-server-error"
	case 6:
		w.Details = nil
		return w, "details-dropped"
	case 7:
		if w.Details != nil && r.Intn(2) == 0 {
			// details that carry no key at all: nothing to index by
			w.Details = &client.OpDetailsResults{Type: (w.Details.Type % 3) + 1}
			return w, "details-without-key"
		}
	}
	return w, "identical"
}

func indexOf(k string) int {
	for i, x := range kinds {
		if x == k {
			return i
		}
	}
	return 0
}

func kindOf(d *client.OpDetailsResults) string {
	switch {
	case d == nil:
		return ""
	case d.NextHopGroupID != 0:
		return "nhg"
	case d.NextHopIndex != 0:
		return "nh"
	case d.IPv4Prefix != "":
		return "ipv4"
	case d.IPv6Prefix != "":
		return "ipv6"
	case d.MPLSLabel != 0:
		return "mpls"
	}
	return ""
}

func keyOf(d *client.OpDetailsResults) uint64 {
	switch kindOf(d) {
	case "nhg":
		return d.NextHopGroupID
	case "nh":
		return d.NextHopIndex
	case "ipv4":
		var a, b uint64
		fmt.Sscanf(d.IPv4Prefix, "10.0.%d.0/24", &a)
		return a + b
	case "ipv6":
		var a uint64
		fmt.Sscanf(d.IPv6Prefix, "2001:db8:%d::/48", &a)
		return a
	case "mpls":
		return d.MPLSLabel - 100
	}
	return 0
}

func setKey(d *client.OpDetailsResults, kind string, k uint64) {
	d.NextHopGroupID, d.NextHopIndex, d.IPv4Prefix, d.IPv6Prefix, d.MPLSLabel = 0, 0, "", "", 0
	switch kind {
	case "nhg":
		d.NextHopGroupID = k
	case "nh":
		d.NextHopIndex = k
	case "ipv4":
		d.IPv4Prefix = fmt.Sprintf("10.0.%d.0/24", k)
	case "ipv6":
		d.IPv6Prefix = fmt.Sprintf("2001:db8:%d::/48", k)
	case "mpls":
		d.MPLSLabel = 100 + k
	}
}

// ---------------------------------------------------------------- direct specifications

func eqU128(a, b *spb.Uint128) bool {
	if a == nil || b == nil {
		return a == b
	}
	return a.High == b.High && a.Low == b.Low
}

func eqSess(a, b *spb.SessionParametersResult) bool {
	if a == nil || b == nil {
		return a == b
	}
	return a.Status == b.Status
}

// specEqual: field-by-field equality under the documented ignore options.
func specEqual(r, want *client.OpResult, ignoreOpID, includeServerErr bool) bool {
	if r == nil || want == nil {
		return r == want
	}
	if !eqU128(r.CurrentServerElectionID, want.CurrentServerElectionID) || !eqSess(r.SessionParameters, want.SessionParameters) {
		return false
	}
	if !ignoreOpID && r.OperationID != want.OperationID {
		return false
	}
	if r.ClientError != want.ClientError || r.ProgrammingResult != want.ProgrammingResult {
		return false
	}
	if includeServerErr && r.ServerError != want.ServerError {
		return false
	}
	if want.Details != nil {
		if r.Details == nil || *r.Details != *want.Details {
			return false
		}
	}
	return true
}

func specHasResult(res []*client.OpResult, want *client.OpResult, ignoreOpID, includeServerErr bool) bool {
	for _, r := range res {
		if specEqual(r, want, ignoreOpID, includeServerErr) {
			return true
		}
	}
	return false
}

func passes(fn func(testing.TB)) (bool, []string) {
	tb := &mon.TB{}
	fatal := tb.Run(fn)
	return !fatal && len(tb.Errors) == 0, tb.Fatals
}

func optName(ign, inc bool) string {
	return fmt.Sprintf("ignoreOpID=%v,includeServerError=%v", ign, inc)
}

// ---------------------------------------------------------------- the check

func TestCheck(t *testing.T) {
	run := ev.Start(t, "C17", "exploration")
	n := run.Pick(100000, 3000000)
	ev.Parallel(n, ev.Workers(), func(i int) {
		caseID := fmt.Sprintf("case-%d", i)
		if !run.Want(caseID) {
			return
		}
		r := run.Rand(caseID)
		switch i % 4 {
		case 0:
			checkHasResult(run, caseID, r)
		case 1:
			checkCache(run, caseID, r)
		case 2:
			checkGet(run, caseID, r)
		default:
			checkErrors(run, caseID, r)
		}
		run.Eval(1)
	})
	run.Sample(map[string]any{"helper": "GetResponseHasEntries", "response": "entries of all five kinds in 1-3 network instances", "wants": "present entries, same key in another NI, same key of another kind, absent keys"})
	run.Assume("nil-versus-empty protobuf fields are not generated (protocmp's treatment of that pair is not part of the property); a want without details together with IgnoreOperationID is a documented test-author error for the cached checker and is excluded from the agreement direction")
	run.Finish("differential testing of chk.HasResult, HasResultsCache, GetResponseHasEntries, HasNSendErrors/HasNRecvErrors and HasRecvClientErrorWithStatus on a capturing testing.TB against direct field-by-field specifications, over generated result lists / Get responses / client errors of every entry kind and every option combination; wanted items are derived from present items by one-aspect near-misses (other status, other id, same key of another kind, absent key, other operation type, other message, details dropped) so that roughly half are absent. Distinct = by (helper, options, verdict class, near-miss kind)", 40, false)
}

func report(run *ev.Run, caseID, sig, txt string, detail any) {
	run.Violation(caseID, sig, txt, detail)
}

func resStrs(rs []*client.OpResult) []string {
	var out []string
	for _, r := range rs {
		out = append(out, r.String())
	}
	return out
}

func genResults(r *rand.Rand) []*client.OpResult {
	n := r.Intn(8)
	out := make([]*client.OpResult, n)
	for i := range out {
		out[i] = genResult(r)
	}
	return out
}

func pickWant(r *rand.Rand, res []*client.OpResult) (*client.OpResult, string) {
	if len(res) == 0 || r.Intn(6) == 0 {
		w := genResult(r)
		w.Timestamp, w.Latency = 0, 0
		return w, "fresh"
	}
	return nearMiss(r, res[r.Intn(len(res))])
}

func checkHasResult(run *ev.Run, caseID string, r *rand.Rand) {
	res := genResults(r)
	want, how := pickWant(r, res)
	ign, inc := r.Intn(2) == 0, r.Intn(2) == 0
	var opts []any
	_ = opts
	exp := specHasResult(res, want, ign, inc)
	got, fat := passes(func(tb testing.TB) {
		switch {
		case ign && inc:
			chk.HasResult(tb, res, want, chk.IgnoreOperationID(), chk.IncludeServerError())
		case ign:
			chk.HasResult(tb, res, want, chk.IgnoreOperationID())
		case inc:
			chk.HasResult(tb, res, want, chk.IncludeServerError())
		default:
			chk.HasResult(tb, res, want)
		}
	})
	run.Distinct(fmt.Sprintf("HasResult|%s|present=%v|%s", optName(ign, inc), exp, how))
	run.Count("HasResult_calls", 1)
	if !exp {
		run.Count("HasResult_absent_wants", 1)
	}
	if got != exp {
		sig := "HasResult-passes-on-absent-result"
		if exp {
			sig = "HasResult-fails-on-present-result"
		}
		report(run, caseID, sig+":"+how, fmt.Sprintf("HasResult(%s) passed=%v but the wanted result is present=%v", optName(ign, inc), got, exp), map[string]any{"results": resStrs(res), "want": want.String(), "fatal": fat})
	}
}

func callCache(tb testing.TB, res, wants []*client.OpResult, ign, inc bool) {
	switch {
	case ign && inc:
		chk.HasResultsCache(tb, res, wants, chk.IgnoreOperationID(), chk.IncludeServerError())
	case ign:
		chk.HasResultsCache(tb, res, wants, chk.IgnoreOperationID())
	case inc:
		chk.HasResultsCache(tb, res, wants, chk.IncludeServerError())
	default:
		chk.HasResultsCache(tb, res, wants)
	}
}

func checkCache(run *ev.Run, caseID string, r *rand.Rand) {
	res := genResults(r)
	// mostly unique keys (op ids and detail keys), sometimes not
	unique := r.Intn(4) > 0
	if unique {
		seenID, seenKey := map[uint64]bool{}, map[string]bool{}
		var f []*client.OpResult
		for _, x := range res {
			k := kindOf(x.Details) + fmt.Sprint(keyOf(x.Details))
			if seenID[x.OperationID] || (x.Details != nil && seenKey[k]) {
				continue
			}
			seenID[x.OperationID] = true
			if x.Details != nil {
				seenKey[k] = true
			}
			f = append(f, x)
		}
		res = f
	}
	nw := 1 + r.Intn(3)
	var wants []*client.OpResult
	var hows []string
	for k := 0; k < nw; k++ {
		w, how := pickWant(r, res)
		wants = append(wants, w)
		hows = append(hows, how)
	}
	ign, inc := r.Intn(2) == 0, r.Intn(2) == 0
	plainAll := true
	nilDetails := false
	for _, w := range wants {
		if !specHasResult(res, w, ign, inc) {
			plainAll = false
		}
		if w.Details == nil {
			nilDetails = true
		}
	}
	got, fat := passes(func(tb testing.TB) { callCache(tb, res, wants, ign, inc) })
	kindsWanted := map[string]bool{}
	for _, w := range wants {
		kindsWanted[kindOf(w.Details)] = true
	}
	for k := range kindsWanted {
		run.Distinct(fmt.Sprintf("HasResultsCache|%s|kind=%s|present=%v|unique=%v", optName(ign, inc), k, plainAll, unique))
	}
	run.Count("HasResultsCache_calls", 1)
	var ws []string
	for _, w := range wants {
		ws = append(ws, w.String())
	}
	det := map[string]any{"results": resStrs(res), "wants": ws, "near_miss": hows, "fatal": fat, "options": optName(ign, inc), "unique_keys": unique}
	if got && !plainAll {
		k := ""
		for _, w := range wants {
			if !specHasResult(res, w, ign, inc) {
				k = kindOf(w.Details)
				if w.Details == nil {
					k = "no-details"
				}
				break
			}
		}
		report(run, caseID, "HasResultsCache-passes-where-HasResult-fails:"+k, fmt.Sprintf("HasResultsCache(%s) passed although a wanted result (kind %s) is absent", optName(ign, inc), k), det)
		return
	}
	if !got && plainAll && unique && !(ign && nilDetails) {
		report(run, caseID, "HasResultsCache-fails-where-HasResult-passes", fmt.Sprintf("HasResultsCache(%s) failed although every wanted result is present and keys are unique", optName(ign, inc)), det)
	}
}

// ------------------------------------------------------------ Get responses

type gentry struct {
	ni, kind string
	key      uint64
}

func (g gentry) aft() *spb.AFTEntry {
	e := &spb.AFTEntry{NetworkInstance: g.ni}
	switch g.kind {
	case "nhg":
		e.Entry = &spb.AFTEntry_NextHopGroup{NextHopGroup: &aftpb.Afts_NextHopGroupKey{Id: g.key, NextHopGroup: &aftpb.Afts_NextHopGroup{}}}
	case "nh":
		e.Entry = &spb.AFTEntry_NextHop{NextHop: &aftpb.Afts_NextHopKey{Index: g.key, NextHop: &aftpb.Afts_NextHop{}}}
	case "ipv4":
		e.Entry = &spb.AFTEntry_Ipv4{Ipv4: &aftpb.Afts_Ipv4EntryKey{Prefix: pfx4(g.key), Ipv4Entry: &aftpb.Afts_Ipv4Entry{}}}
	case "ipv6":
		e.Entry = &spb.AFTEntry_Ipv6{Ipv6: &aftpb.Afts_Ipv6EntryKey{Prefix: pfx6(g.key), Ipv6Entry: &aftpb.Afts_Ipv6Entry{}}}
	case "mpls":
		e.Entry = &spb.AFTEntry_Mpls{Mpls: &aftpb.Afts_LabelEntryKey{Label: &aftpb.Afts_LabelEntryKey_LabelUint64{LabelUint64: labelOf(g.key)}, LabelEntry: &aftpb.Afts_LabelEntry{}}}
	}
	return e
}

func (g gentry) fluent() fluent.GRIBIEntry {
	switch g.kind {
	case "nhg":
		return fluent.NextHopGroupEntry().WithNetworkInstance(g.ni).WithID(g.key).AddNextHop(1, 1)
	case "nh":
		return fluent.NextHopEntry().WithNetworkInstance(g.ni).WithIndex(g.key).WithIPAddress("192.0.2.1")
	case "ipv4":
		return fluent.IPv4Entry().WithNetworkInstance(g.ni).WithPrefix(pfx4(g.key)).WithNextHopGroup(1)
	case "ipv6":
		return fluent.IPv6Entry().WithNetworkInstance(g.ni).WithPrefix(pfx6(g.key)).WithNextHopGroup(1)
	default:
		return fluent.LabelEntry().WithNetworkInstance(g.ni).WithLabel(uint32(labelOf(g.key))).WithNextHopGroup(1)
	}
}

// fluentMoved builds the same wanted entry on a builder that was first set up for - and
// rendered in - another network instance (and another key) and then re-pointed: what is
// looked up must be what the builder says NOW.
func (g gentry) fluentMoved(from string) fluent.GRIBIEntry {
	// (the key the builder had first: another one, or - every other time - the zero a loop
	// variable starts at)
	first := (g.key + 7) * uint64(len(from)%2)
	switch g.kind {
	case "nhg":
		b := fluent.NextHopGroupEntry().WithNetworkInstance(from).WithID(first).AddNextHop(1, 1)
		b.EntryProto()
		return b.WithID(g.key).WithNetworkInstance(g.ni)
	case "nh":
		b := fluent.NextHopEntry().WithNetworkInstance(from).WithIndex(first).WithIPAddress("192.0.2.1")
		b.EntryProto()
		return b.WithIndex(g.key).WithNetworkInstance(g.ni)
	case "ipv4":
		b := fluent.IPv4Entry().WithNetworkInstance(from).WithPrefix(pfx4(g.key)).WithNextHopGroup(1)
		b.EntryProto()
		return b.WithNetworkInstance(g.ni)
	case "ipv6":
		b := fluent.IPv6Entry().WithNetworkInstance(from).WithPrefix(pfx6(g.key)).WithNextHopGroup(1)
		b.EntryProto()
		return b.WithNetworkInstance(g.ni)
	default:
		b := fluent.LabelEntry().WithNetworkInstance(from).WithLabel(uint32(labelOf(g.key))).WithNextHopGroup(1)
		b.EntryProto()
		return b.WithNetworkInstance(g.ni)
	}
}

func checkGet(run *ev.Run, caseID string, r *rand.Rand) {
	nis := []string{"DEFAULT", "VRF1", "VRF2"}[:1+r.Intn(3)]
	var have []gentry
	for k := 0; k < r.Intn(10); k++ {
		have = append(have, gentry{nis[r.Intn(len(nis))], kinds[r.Intn(5)], uint64(1 + r.Intn(3))})
	}
	resp := &spb.GetResponse{}
	present := map[gentry]bool{}
	for _, g := range have {
		resp.Entry = append(resp.Entry, g.aft())
		present[g] = true
	}
	nw := 1 + r.Intn(3)
	var wants []gentry
	var hows []string
	for k := 0; k < nw; k++ {
		var w gentry
		how := "fresh"
		if len(have) > 0 && r.Intn(5) > 0 {
			w = have[r.Intn(len(have))]
			switch r.Intn(5) {
			case 0:
				w.ni = []string{"DEFAULT", "VRF1", "VRF2", "VRF9"}[r.Intn(4)]
				how = "same-key-other-ni"
			case 1:
				w.kind = kinds[(indexOf(w.kind)+1+r.Intn(4))%5]
				how = "same-key-other-kind"
			case 2:
				w.key += 4
				how = "absent-key"
			default:
				how = "identical"
			}
		} else {
			w = gentry{[]string{"DEFAULT", "VRF1", "VRF2"}[r.Intn(3)], kinds[r.Intn(5)], uint64(1 + r.Intn(4))}
		}
		wants = append(wants, w)
		hows = append(hows, how)
	}
	exp := true
	missKind := ""
	for _, w := range wants {
		if !present[w] {
			exp = false
			if missKind == "" {
				missKind = w.kind
			}
		}
	}
	var fw []fluent.GRIBIEntry
	for _, w := range wants {
		if r.Intn(3) == 0 {
			fw = append(fw, w.fluentMoved([]string{"DEFAULT", "VRF1", "VRF2"}[r.Intn(3)]))
			run.Count("wants_built_on_a_reused_builder", 1)
			continue
		}
		fw = append(fw, w.fluent())
	}
	got, fat := passes(func(tb testing.TB) { chk.GetResponseHasEntries(tb, resp, fw...) })
	for _, w := range wants {
		run.Distinct(fmt.Sprintf("GetResponseHasEntries|kind=%s|present=%v", w.kind, present[w]))
	}
	run.Count("GetResponseHasEntries_calls", 1)
	if got != exp {
		sig := "GetResponseHasEntries-passes-on-absent-entry:" + missKind
		if exp {
			sig = "GetResponseHasEntries-fails-on-present-entry"
		}
		report(run, caseID, sig, fmt.Sprintf("GetResponseHasEntries passed=%v but all wanted entries present=%v", got, exp), map[string]any{"response": fmt.Sprint(have), "wants": fmt.Sprint(wants), "near_miss": hows, "fatal": fat})
	}
}

// ------------------------------------------------------------ client errors

func checkErrors(run *ev.Run, caseID string, r *rand.Rand) {
	cs := []codes.Code{codes.InvalidArgument, codes.FailedPrecondition, codes.Unimplemented, codes.Internal}
	reasons := []spb.ModifyRPCErrorDetails_Reason{spb.ModifyRPCErrorDetails_UNSUPPORTED_PARAMS, spb.ModifyRPCErrorDetails_MODIFY_NOT_ALLOWED, spb.ModifyRPCErrorDetails_ELECTION_ID_IN_ALL_PRIMARY}
	mk := func() (*status.Status, codes.Code, string, int) {
		c := cs[r.Intn(len(cs))]
		msg := []string{"", "boom", "other"}[r.Intn(3)]
		s := status.New(c, msg)
		reason := -1
		if r.Intn(2) == 0 {
			reason = r.Intn(len(reasons))
			s2, err := s.WithDetails(&spb.ModifyRPCErrorDetails{Reason: reasons[reason]})
			if err == nil {
				s = s2
			}
		}
		return s, c, msg, reason
	}
	type st struct {
		s      *status.Status
		c      codes.Code
		msg    string
		reason int
	}
	var err error
	var recv, send []st
	kind := r.Intn(10)
	switch {
	case kind == 0:
		err = nil
	case kind == 1:
		err = errors.New("not a client error")
	default:
		ce := &client.ClientErr{}
		for k := 0; k < r.Intn(4); k++ {
			s, c, m, re := mk()
			recv = append(recv, st{s, c, m, re})
			ce.Recv = append(ce.Recv, s.Err())
		}
		if r.Intn(5) == 0 {
			ce.Recv = append(ce.Recv, errors.New("plain error, not a status"))
		}
		for k := 0; k < r.Intn(3); k++ {
			s, c, m, re := mk()
			send = append(send, st{s, c, m, re})
			ce.Send = append(ce.Send, s.Err())
		}
		// errors that are not statuses count like any other recorded error: the end-of-stream
		// marker, a wrapped one, a transport error
		odd := []error{io.EOF, fmt.Errorf("stream ended: %w", io.EOF), errors.New("transport is closing"), io.ErrUnexpectedEOF}
		if r.Intn(4) == 0 {
			ce.Recv = append(ce.Recv, odd[r.Intn(len(odd))])
			if r.Intn(2) == 0 {
				ce.Recv[0], ce.Recv[len(ce.Recv)-1] = ce.Recv[len(ce.Recv)-1], ce.Recv[0]
			}
			run.Count("client_errors_with_non_status_entries", 1)
		}
		if r.Intn(4) == 0 {
			ce.Send = append(ce.Send, odd[r.Intn(len(odd))])
			run.Count("client_errors_with_non_status_entries", 1)
		}
		err = ce
	}
	ce, isCE := err.(*client.ClientErr)
	// count helpers
	count := r.Intn(4)
	expSend := (err == nil && count == 0) || (isCE && len(ce.Send) == count)
	gotSend, _ := passes(func(tb testing.TB) { chk.HasNSendErrors(tb, err, count) })
	nRecv := 0
	if isCE {
		nRecv = len(ce.Recv)
	}
	expRecv := (err == nil && count == 0) || (isCE && nRecv == count)
	gotRecv, _ := passes(func(tb testing.TB) { chk.HasNRecvErrors(tb, err, count) })
	run.Distinct(fmt.Sprintf("HasNErrors|err=%T|send=%v|recv=%v", err, expSend, expRecv))
	run.Count("HasNErrors_calls", 2)
	if gotSend != expSend {
		report(run, caseID, fmt.Sprintf("HasNSendErrors-wrong:passed=%v", gotSend), fmt.Sprintf("HasNSendErrors(%v, %d) passed=%v, expected %v", err, count, gotSend, expSend), nil)
	}
	if gotRecv != expRecv {
		report(run, caseID, fmt.Sprintf("HasNRecvErrors-wrong:passed=%v", gotRecv), fmt.Sprintf("HasNRecvErrors(%v, %d) passed=%v, expected %v", err, count, gotRecv, expRecv), nil)
	}
	// status helper
	var want st
	how := "fresh"
	if len(recv) > 0 && r.Intn(4) > 0 {
		want = recv[r.Intn(len(recv))]
		how = "identical"
		switch r.Intn(5) {
		case 0:
			want.c = cs[(int(indexCode(cs, want.c))+1)%len(cs)]
			how = "other-code"
		case 1:
			want.reason = (want.reason + 2) % (len(reasons) + 1)
			if want.reason == len(reasons) {
				want.reason = -1
			}
			how = "other-reason"
		case 2:
			want.msg = "different message"
			how = "other-message"
		case 3:
			want.msg = ""
			how = "message-unchecked"
		}
	} else {
		_, want.c, want.msg, want.reason = mk()
	}
	ws := status.New(want.c, want.msg)
	if want.reason >= 0 {
		if s2, e := ws.WithDetails(&spb.ModifyRPCErrorDetails{Reason: reasons[want.reason]}); e == nil {
			ws = s2
		}
	}
	allowUnimpl, ignoreDet := r.Intn(3) == 0, r.Intn(3) == 0
	exp := false
	if isCE {
		for _, e := range recv {
			a := e.c == want.c && (want.msg == "" || e.msg == want.msg) && (ignoreDet || e.reason == want.reason)
			b := allowUnimpl && e.c == codes.Unimplemented
			if a || b {
				exp = true
			}
		}
	}
	got, fat := passes(func(tb testing.TB) {
		switch {
		case allowUnimpl && ignoreDet:
			chk.HasRecvClientErrorWithStatus(tb, err, ws, chk.AllowUnimplemented(), chk.IgnoreDetails())
		case allowUnimpl:
			chk.HasRecvClientErrorWithStatus(tb, err, ws, chk.AllowUnimplemented())
		case ignoreDet:
			chk.HasRecvClientErrorWithStatus(tb, err, ws, chk.IgnoreDetails())
		default:
			chk.HasRecvClientErrorWithStatus(tb, err, ws)
		}
	})
	run.Distinct(fmt.Sprintf("HasRecvClientErrorWithStatus|allowUnimplemented=%v|ignoreDetails=%v|present=%v|%s", allowUnimpl, ignoreDet, exp, how))
	run.Count("HasRecvClientErrorWithStatus_calls", 1)
	if got != exp {
		sig := "HasRecvClientErrorWithStatus-passes-on-absent-status"
		if exp {
			sig = "HasRecvClientErrorWithStatus-fails-on-present-status"
		}
		var rs []string
		for _, e := range recv {
			rs = append(rs, fmt.Sprintf("%s/%q/reason%d", e.c, e.msg, e.reason))
		}
		report(run, caseID, sig+":"+how, fmt.Sprintf("passed=%v expected=%v (allowUnimplemented=%v ignoreDetails=%v)", got, exp, allowUnimpl, ignoreDet), map[string]any{"recv": rs, "want": fmt.Sprintf("%s/%q/reason%d", want.c, want.msg, want.reason), "fatal": fat})
	}
}

func indexCode(cs []codes.Code, c codes.Code) int {
	for i, x := range cs {
		if x == c {
			return i
		}
	}
	return 0
}

// labelOf maps the small key space of the generated entries onto MPLS labels: ordinary
// labels, and the special-purpose values a wanted label entry may just as well carry.
func labelOf(key uint64) uint64 {
	if key < 3 {
		return 100 + key
	}
	return []uint64{1, 2, 3, 7, 0, 15, 16, 1048575}[(key-3)%8]
}

// pfx4 / pfx6 map the small key space onto prefixes; the higher keys use legal spellings
// that are not canonical (host bits set, upper case, uncompressed): keys are exact strings.
func pfx4(k uint64) string {
	if k >= 3 {
		return fmt.Sprintf("10.0.%d.7/24", k)
	}
	return fmt.Sprintf("10.0.%d.0/24", k)
}

func pfx6(k uint64) string {
	switch {
	case k >= 5:
		return fmt.Sprintf("2001:db8:%d:0:0::/48", k)
	case k >= 3:
		return fmt.Sprintf("2001:DB8:%d::/48", k)
	}
	return fmt.Sprintf("2001:db8:%d::/48", k)
}
