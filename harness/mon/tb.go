package mon

import (
	"context"
	"fmt"
	"runtime"
	"sync"
	"testing"
)

// TB is a capturing testing.TB: Fatal*/FailNow and Skip* record and stop the
// calling goroutine (runtime.Goexit), Error* record. Unlike openconfig/testt's
// fake it does not panic on Skip.
type TB struct {
	testing.TB // nil: only the methods below may be called

	mu       sync.Mutex
	NameStr  string
	Fatals   []string
	Errors   []string
	Skips    []string
	Logs     []string
	cleanups []func()
	ctx      context.Context
}

func (t *TB) Helper() {}
func (t *TB) Name() string {
	if t.NameStr == "" {
		return "captured"
	}
	return t.NameStr
}
func (t *TB) Log(a ...any)            { t.note(&t.Logs, fmt.Sprint(a...)) }
func (t *TB) Logf(f string, a ...any) { t.note(&t.Logs, fmt.Sprintf(f, a...)) }
func (t *TB) note(dst *[]string, s string) {
	t.mu.Lock()
	if len(*dst) < 50 {
		if len(s) > 2000 {
			s = s[:2000]
		}
		*dst = append(*dst, s)
	}
	t.mu.Unlock()
}
func (t *TB) Error(a ...any)            { t.note(&t.Errors, fmt.Sprint(a...)) }
func (t *TB) Errorf(f string, a ...any) { t.note(&t.Errors, fmt.Sprintf(f, a...)) }
func (t *TB) Fail()                     { t.note(&t.Errors, "Fail()") }
func (t *TB) FailNow()                  { t.note(&t.Fatals, "FailNow()"); runtime.Goexit() }
func (t *TB) Fatal(a ...any)            { t.note(&t.Fatals, fmt.Sprint(a...)); runtime.Goexit() }
func (t *TB) Fatalf(f string, a ...any) { t.note(&t.Fatals, fmt.Sprintf(f, a...)); runtime.Goexit() }
func (t *TB) Skip(a ...any)             { t.note(&t.Skips, fmt.Sprint(a...)); runtime.Goexit() }
func (t *TB) Skipf(f string, a ...any)  { t.note(&t.Skips, fmt.Sprintf(f, a...)); runtime.Goexit() }
func (t *TB) SkipNow()                  { t.note(&t.Skips, "SkipNow()"); runtime.Goexit() }
func (t *TB) Failed() bool {
	t.mu.Lock()
	defer t.mu.Unlock()
	return len(t.Fatals)+len(t.Errors) > 0
}
func (t *TB) Skipped() bool {
	t.mu.Lock()
	defer t.mu.Unlock()
	return len(t.Skips) > 0
}
func (t *TB) Cleanup(f func()) {
	t.mu.Lock()
	t.cleanups = append(t.cleanups, f)
	t.mu.Unlock()
}
func (t *TB) Setenv(k, v string) {}
func (t *TB) TempDir() string    { return "/tmp" }
func (t *TB) Context() context.Context {
	if t.ctx == nil {
		return context.Background()
	}
	return t.ctx
}

// Run executes fn with the capturing TB in a goroutine of its own (so that
// Goexit ends only that goroutine), runs registered cleanups, and reports whether
// fn called a fatal method.
func (t *TB) Run(fn func(testing.TB)) (fatal bool) {
	done := make(chan struct{})
	go func() {
		defer close(done)
		defer func() {
			t.mu.Lock()
			cs := t.cleanups
			t.cleanups = nil
			t.mu.Unlock()
			for i := len(cs) - 1; i >= 0; i-- {
				cs[i]()
			}
		}()
		fn(t)
	}()
	<-done
	t.mu.Lock()
	defer t.mu.Unlock()
	return len(t.Fatals) > 0
}
