package smoke

import (
	"testing"

	aftpb "github.com/openconfig/gribi/v1/proto/gribi_aft"
)

func TestZeros(t *testing.T) {
	try(t, "vni 0", nh(&aftpb.Afts_NextHop{VniLabel: u(0)}))
	try(t, "gre ttl 0", nh(&aftpb.Afts_NextHop{Gre: &aftpb.Afts_NextHop_Gre{Ttl: u(0)}}))
	try(t, "subif 0", nh(&aftpb.Afts_NextHop{InterfaceRef: &aftpb.Afts_NextHop_InterfaceRef{Interface: s("e"), Subinterface: u(0)}}))
	try(t, "udpv6 zeros", nh(&aftpb.Afts_NextHop{EncapHeader: []*aftpb.Afts_NextHop_EncapHeaderKey{{Index: 1, EncapHeader: &aftpb.Afts_NextHop_EncapHeader{UdpV6: &aftpb.Afts_NextHop_EncapHeader_UdpV6{Dscp: u(0), DstUdpPort: u(0), SrcUdpPort: u(0), IpTtl: u(0)}}}}}))
	try(t, "udpv4 port 0", nh(&aftpb.Afts_NextHop{EncapHeader: []*aftpb.Afts_NextHop_EncapHeaderKey{{Index: 1, EncapHeader: &aftpb.Afts_NextHop_EncapHeader{UdpV4: &aftpb.Afts_NextHop_EncapHeader_UdpV4{SrcUdpPort: u(0)}}}}}))
	try(t, "mpls tc 0", nh(&aftpb.Afts_NextHop{EncapHeader: []*aftpb.Afts_NextHop_EncapHeaderKey{{Index: 1, EncapHeader: &aftpb.Afts_NextHop_EncapHeader{Mpls: &aftpb.Afts_NextHop_EncapHeader_Mpls{TrafficClass: u(0)}}}}}))
	try(t, "ehdr gre ttl 0", nh(&aftpb.Afts_NextHop{EncapHeader: []*aftpb.Afts_NextHop_EncapHeaderKey{{Index: 1, EncapHeader: &aftpb.Afts_NextHop_EncapHeader{Gre: &aftpb.Afts_NextHop_EncapHeader_Gre{Ttl: u(0)}}}}}))
	try(t, "nhg weight 0 color 0 backup 0", nhg(1, &aftpb.Afts_NextHopGroup{Color: u(0), BackupNextHopGroup: u(0), NextHop: []*aftpb.Afts_NextHopGroup_NextHopKey{{Index: 1, NextHop: &aftpb.Afts_NextHopGroup_NextHop{Weight: u(0)}}}}))
}
