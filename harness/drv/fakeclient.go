package drv

import (
	"context"
	"io"
	"sync"
	"time"

	"google.golang.org/grpc"
	"google.golang.org/grpc/metadata"

	spb "github.com/openconfig/gribi/v1/proto/service"
)

// FakeGRIBI is a client-side stub (spb.GRIBIClient) whose Modify returns scripted
// streams: the harness plays the server behind the client library.
type FakeGRIBI struct {
	spb.GRIBIClient // nil: Get/Flush are not used through this stub

	mu      sync.Mutex
	Streams []*FakeStream
	// NewStream customises each stream before it is handed to the client.
	NewStream func(*FakeStream)
	// ModifyErr makes Modify itself fail.
	ModifyErr error
}

// Modify implements spb.GRIBIClient.
func (f *FakeGRIBI) Modify(ctx context.Context, _ ...grpc.CallOption) (spb.GRIBI_ModifyClient, error) {
	if f.ModifyErr != nil {
		return nil, f.ModifyErr
	}
	s := NewFakeStream(ctx)
	if f.NewStream != nil {
		f.NewStream(s)
	}
	f.mu.Lock()
	f.Streams = append(f.Streams, s)
	f.mu.Unlock()
	return s, nil
}

// Last returns the most recently opened stream.
func (f *FakeGRIBI) Last() *FakeStream {
	f.mu.Lock()
	defer f.mu.Unlock()
	if len(f.Streams) == 0 {
		return nil
	}
	return f.Streams[len(f.Streams)-1]
}

type recvItem struct {
	resp *spb.ModifyResponse
	err  error
}

// FakeStream is the client side of a scripted Modify stream.
type FakeStream struct {
	ctx context.Context

	mu   sync.Mutex
	cond *sync.Cond
	// Sent are the requests the client wrote, in order.
	Sent []*spb.ModifyRequest
	// OnSend is called (outside the lock) for each request the client wrote successfully.
	OnSend func(n int, m *spb.ModifyRequest)
	// FailSendAt makes the n-th Send (1-based) and all later ones fail; the stream's
	// status error is then also what Recv returns (the gRPC contract).
	FailSendAt int
	FailErr    error
	// KeepOpenAfterCloseSend models a server that does not end the RPC on half-close.
	KeepOpenAfterCloseSend bool
	// StatusDelay: after a Send failure the status reaches Recv only this much later
	// (on a real transport the two sides of a stream learn of its end separately).
	StatusDelay time.Duration
	// FailDirect: the failing Send returns the status itself (a client-generated error)
	// instead of io.EOF, after SendFailDelay.
	FailDirect    bool
	SendFailDelay time.Duration
	brokenAt      time.Time
	nSend       int
	broken      error
	closedSend  bool
	queue       []recvItem
	nRecvCalls  int
	nRecvDone   int
}

// NewFakeStream creates a stream.
func NewFakeStream(ctx context.Context) *FakeStream {
	s := &FakeStream{ctx: ctx}
	s.cond = sync.NewCond(&s.mu)
	go func() {
		<-ctx.Done()
		s.cond.Broadcast()
	}()
	return s
}

func (s *FakeStream) Header() (metadata.MD, error) { return nil, nil }
func (s *FakeStream) Trailer() metadata.MD         { return nil }
func (s *FakeStream) Context() context.Context     { return s.ctx }
func (s *FakeStream) SendMsg(any) error            { return io.EOF }
func (s *FakeStream) RecvMsg(any) error            { return io.EOF }

// CloseSend implements the client stream.
func (s *FakeStream) CloseSend() error {
	s.mu.Lock()
	s.closedSend = true
	s.mu.Unlock()
	s.cond.Broadcast()
	return nil
}

// Send implements the client stream.
func (s *FakeStream) Send(m *spb.ModifyRequest) error {
	s.mu.Lock()
	s.nSend++
	n := s.nSend
	if s.broken == nil && s.FailSendAt > 0 && n >= s.FailSendAt {
		s.broken = s.FailErr
		s.brokenAt = time.Now()
		if s.StatusDelay > 0 {
			time.AfterFunc(s.StatusDelay+time.Millisecond, s.cond.Broadcast)
		}
	}
	if s.broken != nil {
		direct, delay, ferr := s.FailDirect, s.SendFailDelay, s.broken
		s.mu.Unlock()
		s.cond.Broadcast()
		if direct {
			// an error generated on the client side of the stream (message too large, the
			// context ended): gRPC returns the status from SendMsg itself, after having
			// worked on the message for a while
			time.Sleep(delay)
			return ferr
		}
		return io.EOF // gRPC: Send returns io.EOF, the status is delivered by Recv
	}
	s.Sent = append(s.Sent, m)
	cb := s.OnSend
	s.mu.Unlock()
	s.cond.Broadcast()
	if cb != nil {
		cb(n, m)
	}
	return nil
}

// Recv implements the client stream.
func (s *FakeStream) Recv() (*spb.ModifyResponse, error) {
	s.mu.Lock()
	defer s.mu.Unlock()
	s.nRecvCalls++
	s.cond.Broadcast()
	for {
		if len(s.queue) > 0 {
			it := s.queue[0]
			s.queue = s.queue[1:]
			if it.err != nil {
				s.broken = it.err
				if it.err == io.EOF {
					s.broken = nil
				}
			}
			s.nRecvDone++
			return it.resp, it.err
		}
		if s.broken != nil && (s.StatusDelay == 0 || s.brokenAt.IsZero() || time.Since(s.brokenAt) >= s.StatusDelay) {
			s.nRecvDone++
			return nil, s.broken
		}
		if s.ctx.Err() != nil {
			s.nRecvDone++
			return nil, s.ctx.Err()
		}
		if s.closedSend && !s.KeepOpenAfterCloseSend {
			// the real server ends the RPC when the client half-closes: the client reads EOF
			s.nRecvDone++
			return nil, io.EOF
		}
		s.cond.Wait()
	}
}

// Push queues a response for the client to read.
func (s *FakeStream) Push(r *spb.ModifyResponse) {
	s.mu.Lock()
	s.queue = append(s.queue, recvItem{resp: r})
	s.mu.Unlock()
	s.cond.Broadcast()
}

// Fail makes the stream end with err on the receive side (io.EOF = clean end), after
// everything already pushed.
func (s *FakeStream) Fail(err error) {
	s.mu.Lock()
	s.queue = append(s.queue, recvItem{err: err})
	s.mu.Unlock()
	s.cond.Broadcast()
}

// SentCount returns the number of requests written so far.
func (s *FakeStream) SentCount() int {
	s.mu.Lock()
	defer s.mu.Unlock()
	return len(s.Sent)
}

// SendAttempts returns the number of Send calls (including failed ones).
func (s *FakeStream) SendAttempts() int {
	s.mu.Lock()
	defer s.mu.Unlock()
	return s.nSend
}

// SendClosed reports whether the client half-closed the stream.
func (s *FakeStream) SendClosed() bool {
	s.mu.Lock()
	defer s.mu.Unlock()
	return s.closedSend
}

// RecvInProgress reports whether a Recv call of the client is currently blocked on this stream.
func (s *FakeStream) RecvInProgress() bool {
	s.mu.Lock()
	defer s.mu.Unlock()
	return s.nRecvCalls > s.nRecvDone
}

// Drained reports whether everything pushed was read by the client.
func (s *FakeStream) Drained() bool {
	s.mu.Lock()
	defer s.mu.Unlock()
	return len(s.queue) == 0
}
