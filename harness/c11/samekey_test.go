package c11

import (
	"fmt"
	"math/rand"
	"sync"

	"github.com/openconfig/gribigo/rib"
	"github.com/openconfig/gribigo/server"

	aftpb "github.com/openconfig/gribi/v1/proto/gribi_aft"
	"github.com/openconfig/gribi/v1/proto/gribi_aft/enums"
	spb "github.com/openconfig/gribi/v1/proto/service"
	wpb "github.com/openconfig/ygot/proto/ywrapper"

	"verifharness/canon"
	"verifharness/child"
	"verifharness/gen"
	"verifharness/mon"
)

// sameKeyScenario: two writers ADD the same, so far absent, prefix / label at the same
// moment with payloads that set different optional leaves (the window in which an
// operation of a superseded primary, already past its election check, overlaps the first
// operation of its successor). Both are acknowledged; the installed entry must then be
// exactly ONE of the two acknowledged payloads - whichever was applied last - never a
// mixture of both. Scheduling is perturbed at the repository's yield points.
func sameKeyScenario(wr *child.Writer, caseID string, r *rand.Rand, thorough bool) {
	R := rib.New(server.DefaultNetworkInstanceName)
	ni := server.DefaultNetworkInstanceName
	id := uint64(0)
	apply := func(op *spb.AFTOperation) (int, int, error) {
		oks, fails, err := mon.Apply(R, gen.OpSpec{NI: ni, Op: op})
		return len(oks), len(fails), err
	}
	mk := func(kind spb.AFTOperation_Operation) *spb.AFTOperation {
		id++
		return &spb.AFTOperation{Id: id, NetworkInstance: ni, Op: kind}
	}
	base := []*spb.AFTOperation{mk(spb.AFTOperation_ADD), mk(spb.AFTOperation_ADD)}
	base[0].Entry = &spb.AFTOperation_NextHop{NextHop: &aftpb.Afts_NextHopKey{Index: 1, NextHop: &aftpb.Afts_NextHop{IpAddress: gen.S("192.0.2.1")}}}
	base[1].Entry = &spb.AFTOperation_NextHopGroup{NextHopGroup: &aftpb.Afts_NextHopGroupKey{Id: 1, NextHopGroup: &aftpb.Afts_NextHopGroup{NextHop: []*aftpb.Afts_NextHopGroup_NextHopKey{{Index: 1, NextHop: &aftpb.Afts_NextHopGroup_NextHop{Weight: gen.U(1)}}}}}}
	for _, op := range base {
		if ok, _, err := apply(op); ok != 1 || err != nil {
			wr.Record(map[string]any{"kind": "inconclusive", "case": caseID, "text": fmt.Sprintf("set-up: %v %v", ok, err)})
			return
		}
	}
	y := mon.NewYielder(r.Int63(), 2, 40)
	rib.VerifSetPoint(y.Point)
	defer rib.VerifSetPoint(nil)
	rounds := 1500 // per child; the thorough tier has 25 times as many children
	entry := func(kind, t int, variant int) *spb.AFTOperation {
		op := mk(spb.AFTOperation_ADD)
		meta := []byte(fmt.Sprintf("writer-%d", variant))
		switch kind {
		case 0:
			e := &aftpb.Afts_Ipv4Entry{NextHopGroup: gen.U(1)}
			if variant == 0 {
				e.EntryMetadata = &wpb.BytesValue{Value: meta}
			} else {
				e.DecapsulateHeader = enums.OpenconfigAftTypesEncapsulationHeaderType_OPENCONFIGAFTTYPESENCAPSULATIONHEADERTYPE_GRE
			}
			op.Entry = &spb.AFTOperation_Ipv4{Ipv4: &aftpb.Afts_Ipv4EntryKey{Prefix: fmt.Sprintf("10.%d.%d.0/24", (t/250)%250, t%250), Ipv4Entry: e}}
		case 1:
			e := &aftpb.Afts_Ipv6Entry{NextHopGroup: gen.U(1)}
			if variant == 0 {
				e.EntryMetadata = &wpb.BytesValue{Value: meta}
			} else {
				e.DecapsulateHeader = enums.OpenconfigAftTypesEncapsulationHeaderType_OPENCONFIGAFTTYPESENCAPSULATIONHEADERTYPE_GRE
			}
			op.Entry = &spb.AFTOperation_Ipv6{Ipv6: &aftpb.Afts_Ipv6EntryKey{Prefix: fmt.Sprintf("2001:db8:%x::/48", t%60000), Ipv6Entry: e}}
		default:
			e := &aftpb.Afts_LabelEntry{NextHopGroup: gen.U(1)}
			if variant == 0 {
				e.EntryMetadata = &wpb.BytesValue{Value: meta}
			} else {
				e.PoppedMplsLabelStack = []*aftpb.Afts_LabelEntry_PoppedMplsLabelStackUnion{{PoppedMplsLabelStackUint64: 100}}
			}
			op.Entry = &spb.AFTOperation_Mpls{Mpls: &aftpb.Afts_LabelEntryKey{Label: &aftpb.Afts_LabelEntryKey_LabelUint64{LabelUint64: uint64(1000 + t%100000)}, LabelEntry: e}}
		}
		return op
	}
	for t := 0; t < rounds; t++ {
		kind := t % 3
		a, b := entry(kind, t, 0), entry(kind, t, 1)
		key, pa, _ := canon.OpKey(a)
		_, pb, _ := canon.OpKey(b)
		var wg sync.WaitGroup
		start := make(chan struct{})
		res := make([]string, 2)
		for k, op := range []*spb.AFTOperation{a, b} {
			wg.Add(1)
			go func(k int, op *spb.AFTOperation) {
				defer wg.Done()
				<-start
				ok, fails, err := apply(op)
				if ok != 1 || fails != 0 || err != nil {
					res[k] = fmt.Sprintf("writer %d: oks=%d fails=%d err=%v", k, ok, fails, err)
				}
			}(k, op)
		}
		close(start)
		wg.Wait()
		for _, e := range res {
			if e != "" {
				wr.Record(map[string]any{"kind": "problem", "case": caseID, "sig": "concurrent-add-of-one-key-rejected", "text": "two simultaneous ADDs of the same absent key: " + e})
				return
			}
		}
		c, err := R.RIBContents()
		if err != nil {
			wr.Record(map[string]any{"kind": "problem", "case": caseID, "sig": "rib-contents-error", "text": err.Error()})
			return
		}
		got := canon.FromYgot(c)[ni][key]
		if got != pa && got != pb {
			wr.Record(map[string]any{"kind": "problem", "case": caseID, "sig": "installed-entry-is-neither-acknowledged-payload:" + key.T.String(), "text": fmt.Sprintf("round %d: two simultaneous, both acknowledged ADDs of %s with payloads %s and %s left %s installed - a mixture that no order of the two produces", t, key.K, pa, pb, got)})
			return
		}
		del := mk(spb.AFTOperation_DELETE)
		switch e := a.Entry.(type) {
		case *spb.AFTOperation_Ipv4:
			del.Entry = &spb.AFTOperation_Ipv4{Ipv4: &aftpb.Afts_Ipv4EntryKey{Prefix: e.Ipv4.Prefix}}
		case *spb.AFTOperation_Ipv6:
			del.Entry = &spb.AFTOperation_Ipv6{Ipv6: &aftpb.Afts_Ipv6EntryKey{Prefix: e.Ipv6.Prefix}}
		case *spb.AFTOperation_Mpls:
			del.Entry = &spb.AFTOperation_Mpls{Mpls: &aftpb.Afts_LabelEntryKey{Label: e.Mpls.Label}}
		}
		apply(del)
	}
	rec := map[string]any{"kind": "stats", "simultaneous_adds_of_one_absent_key": rounds}
	for k, v := range y.Hits() {
		rec["samekey_yield_point:"+k] = v
	}
	wr.Record(rec)
}

// replaceVsGroupDelete: one writer re-points an installed prefix / label at a second, so far
// unreferenced group while another writer deletes that group at the same moment. Whatever
// the order, an operation that was NOT acknowledged as programmed has changed nothing: if
// the re-pointing ADD was answered FAILED (or is held), the entry is still installed with
// the payload it had. (Both acknowledged is the known check-then-act window of 9.4 and is
// not judged.)
func replaceVsGroupDelete(wr *child.Writer, caseID string, r *rand.Rand, thorough bool) {
	R := rib.New(server.DefaultNetworkInstanceName)
	ni := server.DefaultNetworkInstanceName
	id := uint64(0)
	apply := func(op *spb.AFTOperation) (int, int, error) {
		oks, fails, err := mon.Apply(R, gen.OpSpec{NI: ni, Op: op})
		return len(oks), len(fails), err
	}
	mk := func(kind spb.AFTOperation_Operation) *spb.AFTOperation {
		id++
		return &spb.AFTOperation{Id: id, NetworkInstance: ni, Op: kind}
	}
	group := func(kind spb.AFTOperation_Operation, gid uint64) *spb.AFTOperation {
		op := mk(kind)
		k := &aftpb.Afts_NextHopGroupKey{Id: gid}
		if kind != spb.AFTOperation_DELETE {
			k.NextHopGroup = &aftpb.Afts_NextHopGroup{NextHop: []*aftpb.Afts_NextHopGroup_NextHopKey{{Index: 1, NextHop: &aftpb.Afts_NextHopGroup_NextHop{Weight: gen.U(1)}}}}
		}
		op.Entry = &spb.AFTOperation_NextHopGroup{NextHopGroup: k}
		return op
	}
	entry := func(kind int, gid uint64) *spb.AFTOperation {
		op := mk(spb.AFTOperation_ADD)
		switch kind {
		case 0:
			op.Entry = &spb.AFTOperation_Ipv4{Ipv4: &aftpb.Afts_Ipv4EntryKey{Prefix: "10.0.0.0/8", Ipv4Entry: &aftpb.Afts_Ipv4Entry{NextHopGroup: gen.U(gid)}}}
		case 1:
			op.Entry = &spb.AFTOperation_Ipv6{Ipv6: &aftpb.Afts_Ipv6EntryKey{Prefix: "2001:db8::/32", Ipv6Entry: &aftpb.Afts_Ipv6Entry{NextHopGroup: gen.U(gid)}}}
		default:
			op.Entry = &spb.AFTOperation_Mpls{Mpls: &aftpb.Afts_LabelEntryKey{Label: &aftpb.Afts_LabelEntryKey_LabelUint64{LabelUint64: 100}, LabelEntry: &aftpb.Afts_LabelEntry{NextHopGroup: gen.U(gid)}}}
		}
		return op
	}
	nh := mk(spb.AFTOperation_ADD)
	nh.Entry = &spb.AFTOperation_NextHop{NextHop: &aftpb.Afts_NextHopKey{Index: 1, NextHop: &aftpb.Afts_NextHop{IpAddress: gen.S("192.0.2.1")}}}
	for _, op := range []*spb.AFTOperation{nh, group(spb.AFTOperation_ADD, 1), entry(0, 1), entry(1, 1), entry(2, 1)} {
		if ok, _, err := apply(op); ok != 1 || err != nil {
			wr.Record(map[string]any{"kind": "inconclusive", "case": caseID, "text": fmt.Sprintf("set-up: %v %v", ok, err)})
			return
		}
	}
	y := mon.NewYielder(r.Int63(), 2, 40)
	rib.VerifSetPoint(y.Point)
	defer rib.VerifSetPoint(nil)
	rounds := 800 // per child; the thorough tier has 25 times as many children
	judged := 0
	for t := 0; t < rounds; t++ {
		kind := t % 3
		if ok, _, err := apply(group(spb.AFTOperation_ADD, 2)); ok != 1 || err != nil {
			wr.Record(map[string]any{"kind": "inconclusive", "case": caseID, "text": fmt.Sprintf("round %d: group 2 could not be added: %v %v", t, ok, err)})
			return
		}
		old := entry(kind, 1)
		key, pOld, _ := canon.OpKey(old)
		repoint, del := entry(kind, 2), group(spb.AFTOperation_DELETE, 2)
		var wg sync.WaitGroup
		start := make(chan struct{})
		var rOK, rFail int
		var rErr error
		wg.Add(2)
		go func() { defer wg.Done(); <-start; rOK, rFail, rErr = apply(repoint) }()
		go func() { defer wg.Done(); <-start; apply(del) }()
		close(start)
		wg.Wait()
		c, err := R.RIBContents()
		if err != nil {
			wr.Record(map[string]any{"kind": "problem", "case": caseID, "sig": "rib-contents-error", "text": err.Error()})
			return
		}
		got, present := canon.FromYgot(c)[ni][key]
		if rOK == 0 {
			judged++
			if !present || got != pOld {
				wr.Record(map[string]any{"kind": "problem", "case": caseID, "sig": "unacknowledged-operation-changed-the-entry:" + key.T.String(), "text": fmt.Sprintf("round %d: an ADD re-pointing %s at group 2 raced with the DELETE of group 2 and was not programmed (failed=%d err=%v), yet the entry, installed as %s before, is now %q (present=%v)", t, key.K, rFail, rErr, pOld, got, present)})
				return
			}
		}
		// back to the start of the round: the entry points at group 1, group 2 is gone,
		// nothing is held
		R.DropPending()
		apply(entry(kind, 1))
		apply(group(spb.AFTOperation_DELETE, 2))
	}
	wr.Record(map[string]any{"kind": "stats", "repointing_adds_raced_by_the_delete_of_their_group": rounds, "of_which_not_programmed_and_judged": judged})
}
